//! Coverage-guided target for C10 (the front end is total) and C11 (a source is parsed in full or
//! rejected).  The oracles are the same functions the proptest stages use; a violation aborts with its
//! signature, so libFuzzer saves the input as the replay artifact.
#![no_main]
use libfuzzer_sys::fuzz_target;
use serde_json::json;
use std::path::PathBuf;
use std::sync::OnceLock;

struct Env {
    plain: PathBuf,
    prelude: String,
    /// the property whose oracle aborts the campaign (`FUZZ_PROP`, default both)
    only: Option<String>,
}

fn env() -> &'static Env {
    static ENV: OnceLock<Env> = OnceLock::new();
    ENV.get_or_init(|| {
        zyverif::engine::install_panic_hook();
        let dir = std::env::var("VERIF_SCRATCH").map(PathBuf::from).unwrap_or_else(|_| std::env::temp_dir());
        let dir = dir.join(format!("fuzz-{}", std::process::id()));
        std::fs::create_dir_all(&dir).expect("scratch");
        Env { plain: dir.join("input.zy"), prelude: zyverif::core::print::prelude(std::path::Path::new("/repo")), only: std::env::var("FUZZ_PROP").ok() }
    })
}

fn fail(prop: &str, f: zyverif::engine::Fail) -> ! {
    eprintln!("FUZZ-VIOLATION property={prop} signature={} expected={} observed={}", f.signature, f.expected, f.observed);
    std::process::abort()
}

fuzz_target!(|data: &[u8]| {
    let Some((mode, rest)) = data.split_first() else { return };
    let Ok(text) = std::str::from_utf8(rest) else { return };
    let e = env();
    let mut stats = zyverif::engine::Stats::new();
    let origin = json!({"origin": "libfuzzer"});
    // C11 on the raw text
    if let Err(f) = zyverif::props::c11::check_text(text, &origin, &mut stats) {
        if e.only.as_deref() != Some("C10") {
            fail("C11", f);
        }
    }
    // C10: raw, or behind the builtin prelude (so that the checker, not the resolver, sees the term)
    let full = if mode % 2 == 0 { text.to_string() } else { format!("{}{text}\n", e.prelude) };
    if let Err(f) = zyverif::props::c10::check_input(&e.plain, &full, &origin, &mut stats) {
        if e.only.as_deref() != Some("C11") {
            fail("C10", f);
        }
    }
});
