//! Drivers over the repository's public API.  Only this module and `props/` touch `zydeco_*`.

use crate::engine::{PanicInfo, catch};
use std::path::{Path, PathBuf};
use std::sync::Arc;
use zydeco_surface::textual::{
    Lexer, ParseError, SourceUnitParser, Tok,
    fmt::PrettyFormatter,
    syntax::{EntityId, Parser, SourceUnit},
};
use zydeco_utils::span::{FileInfo, LocationCtx};

/* ------------------------------------------------------------------------- */
/* corpus                                                                    */
/* ------------------------------------------------------------------------- */

/// All Zydeco sources of the repository, sorted (deterministic).
pub fn corpus_files(repo: &Path) -> Vec<PathBuf> {
    let mut out = vec![];
    for sub in ["lib", "docs/spell"] {
        walk(&repo.join(sub), &mut out);
    }
    out.sort();
    out
}

fn walk(dir: &Path, out: &mut Vec<PathBuf>) {
    let Ok(rd) = std::fs::read_dir(dir) else { return };
    let mut entries: Vec<_> = rd.filter_map(|e| e.ok()).map(|e| e.path()).collect();
    entries.sort();
    for p in entries {
        if p.is_dir() {
            walk(&p, out);
        } else if matches!(p.extension().and_then(|e| e.to_str()), Some("zy" | "zydeco" | "zyi")) {
            out.push(p);
        }
    }
}

pub fn corpus_texts(repo: &Path) -> Vec<(PathBuf, String)> {
    corpus_files(repo)
        .into_iter()
        .filter_map(|p| std::fs::read_to_string(&p).ok().map(|t| (p, t)))
        .collect()
}

/* ------------------------------------------------------------------------- */
/* parsing                                                                   */
/* ------------------------------------------------------------------------- */

pub struct Parsed {
    pub parser: Parser,
    pub unit: SourceUnit,
}

pub enum ParseOutcome {
    Ok(Parsed),
    /// rejected through the normal error path (message rendered)
    Rejected(String),
    Panic(PanicInfo),
}

pub fn parse_unit(text: &str) -> ParseOutcome {
    let r = catch(|| {
        let file_info = FileInfo::new(text, Some(Arc::new(PathBuf::from("/case.zy"))));
        let location = LocationCtx::File(file_info.clone());
        let mut parser = Parser::new();
        match SourceUnitParser::new().parse(text, &location, &mut parser, Lexer::new(text)) {
            | Ok(unit) => Ok(Parsed { parser, unit }),
            | Err(error) => Err(ParseError { error, file_info: &file_info }.to_string()),
        }
    });
    match r {
        | Ok(Ok(p)) => ParseOutcome::Ok(p),
        | Ok(Err(m)) => ParseOutcome::Rejected(m),
        | Err(p) => ParseOutcome::Panic(p),
    }
}

impl Parsed {
    /// Byte extent of the root term.
    pub fn root_span(&self) -> (usize, usize) {
        self.parser.spans[&EntityId::Term(self.unit.root)].get_cursor1()
    }
}

/// The code tokens the repository's streaming lexer hands to the grammar (harness self-test).
pub fn repo_code_tokens(text: &str) -> Vec<(usize, usize, String)> {
    Lexer::new(text).map(|(s, t, e)| (s, e, tok_class(&t).to_string())).collect()
}

fn tok_class(t: &Tok<'_>) -> &'static str {
    match t {
        | Tok::UpperIdent(_) => "Upper",
        | Tok::LowerIdent(_) => "Lower",
        | Tok::CtorIdent(_) => "Ctor",
        | Tok::DtorIdent(_) => "Dtor",
        | Tok::FloatLit(_) => "Float",
        | Tok::IntLit(_) => "Int",
        | Tok::StrLit(_) => "Str",
        | Tok::CharLit(_) => "Char",
        | Tok::TextLine(_) => "TextLine",
        | Tok::CommentLine(_) => "LineComment",
        | Tok::CommentOpen => "Open",
        | Tok::CommentClose => "Close",
        | Tok::Unknown(_) => "Unknown",
        | Tok::End
        | Tok::Begin
        | Tok::Data
        | Tok::Codata
        | Tok::As
        | Tok::Define
        | Tok::Let
        | Tok::Param
        | Tok::In
        | Tok::That
        | Tok::Do
        | Tok::Ret
        | Tok::Fn
        | Tok::Pi
        | Tok::Fix
        | Tok::Match
        | Tok::Comatch
        | Tok::Forall
        | Tok::Sigma
        | Tok::Exists => "Keyword",
        | _ => "Punct",
    }
}

/* ------------------------------------------------------------------------- */
/* formatting                                                                */
/* ------------------------------------------------------------------------- */

pub enum FmtOutcome {
    Ok(String),
    ParseError(String),
    Panic(PanicInfo),
    /// watchdog: inconclusive, never a verdict
    Timeout,
}

/// `format_text` behind a process fence: the text is formatted by a persistent worker process
/// (`zyverif fmt-worker`, one per calling thread) that is killed and restarted when a request exceeds
/// the deadline — an exponential layout search cannot be interrupted in-process.  A deadline hit is
/// `Timeout` (inconclusive), never a verdict.
pub fn format_text(text: &str) -> FmtOutcome {
    FMT_WORKER.with(|slot| {
        let mut slot = slot.borrow_mut();
        if slot.is_none() {
            *slot = FmtWorker::spawn();
        }
        let Some(worker) = slot.as_mut() else { return format_text_unbounded(text) };
        match worker.request(text, 8) {
            | Some(o) => o,
            | None => {
                // kill and forget; a fresh worker is started on the next request
                if let Some(mut w) = slot.take() {
                    let _ = w.child.kill();
                    let _ = w.child.wait();
                }
                FmtOutcome::Timeout
            }
        }
    })
}

thread_local! {
    static FMT_WORKER: std::cell::RefCell<Option<FmtWorker>> = const { std::cell::RefCell::new(None) };
}

struct FmtWorker {
    child: std::process::Child,
    stdin: std::process::ChildStdin,
    rx: std::sync::mpsc::Receiver<Option<(u8, Vec<u8>)>>,
}

impl Drop for FmtWorker {
    fn drop(&mut self) {
        let _ = self.child.kill();
        let _ = self.child.wait();
    }
}

impl FmtWorker {
    fn spawn() -> Option<FmtWorker> {
        use std::process::{Command, Stdio};
        let exe = std::env::current_exe().ok()?;
        let mut child = Command::new(exe)
            .arg("fmt-worker")
            .stdin(Stdio::piped())
            .stdout(Stdio::piped())
            .stderr(Stdio::null())
            .spawn()
            .ok()?;
        let stdin = child.stdin.take()?;
        let mut stdout = child.stdout.take()?;
        let (tx, rx) = std::sync::mpsc::channel();
        std::thread::spawn(move || {
            use std::io::Read;
            loop {
                let mut head = [0u8; 5];
                if stdout.read_exact(&mut head).is_err() {
                    let _ = tx.send(None);
                    return;
                }
                let len = u32::from_le_bytes([head[1], head[2], head[3], head[4]]) as usize;
                let mut body = vec![0u8; len];
                if stdout.read_exact(&mut body).is_err() {
                    let _ = tx.send(None);
                    return;
                }
                if tx.send(Some((head[0], body))).is_err() {
                    return;
                }
            }
        });
        Some(FmtWorker { child, stdin, rx })
    }

    fn request(&mut self, text: &str, secs: u64) -> Option<FmtOutcome> {
        use std::io::Write;
        let bytes = text.as_bytes();
        self.stdin.write_all(&(bytes.len() as u32).to_le_bytes()).ok()?;
        self.stdin.write_all(bytes).ok()?;
        self.stdin.flush().ok()?;
        match self.rx.recv_timeout(std::time::Duration::from_secs(secs)) {
            | Ok(Some((tag, body))) => {
                let s = String::from_utf8_lossy(&body).into_owned();
                Some(match tag {
                    | 0 => FmtOutcome::Ok(s),
                    | 1 => FmtOutcome::ParseError(s),
                    | _ => {
                        let mut parts = s.split('\u{0}');
                        let msg = parts.next().unwrap_or("").to_string();
                        let file = parts.next().unwrap_or("").to_string();
                        let line = parts.next().and_then(|l| l.parse().ok()).unwrap_or(0);
                        FmtOutcome::Panic(PanicInfo { msg, file, line })
                    }
                })
            }
            | _ => None,
        }
    }
}

/// Body of `zyverif fmt-worker`: length-prefixed requests on stdin, tagged responses on stdout.
pub fn fmt_worker_main() -> i32 {
    use std::io::{Read, Write};
    let mut stdin = std::io::stdin().lock();
    let mut stdout = std::io::stdout().lock();
    loop {
        let mut head = [0u8; 4];
        if stdin.read_exact(&mut head).is_err() {
            return 0;
        }
        let len = u32::from_le_bytes(head) as usize;
        let mut body = vec![0u8; len];
        if stdin.read_exact(&mut body).is_err() {
            return 0;
        }
        let text = String::from_utf8_lossy(&body).into_owned();
        let (tag, payload) = match format_text_unbounded(&text) {
            | FmtOutcome::Ok(s) => (0u8, s),
            | FmtOutcome::ParseError(m) => (1u8, m),
            | FmtOutcome::Panic(p) => (2u8, format!("{}\u{0}{}\u{0}{}", p.msg, p.file, p.line)),
            | FmtOutcome::Timeout => (1u8, "timeout".into()),
        };
        let b = payload.as_bytes();
        if stdout.write_all(&[tag]).is_err()
            || stdout.write_all(&(b.len() as u32).to_le_bytes()).is_err()
            || stdout.write_all(b).is_err()
            || stdout.flush().is_err()
        {
            return 0;
        }
    }
}

/// Exactly what `zydeco fmt` does in memory (cli/src/format.rs `render`).
pub fn format_text_unbounded(text: &str) -> FmtOutcome {
    match parse_unit(text) {
        | ParseOutcome::Rejected(m) => FmtOutcome::ParseError(m),
        | ParseOutcome::Panic(p) => FmtOutcome::Panic(p),
        | ParseOutcome::Ok(parsed) => {
            match catch(|| {
                PrettyFormatter::with_source(&parsed.parser.arena, &parsed.parser.spans, text)
                    .render_unit(parsed.unit)
            }) {
                | Ok(s) => FmtOutcome::Ok(s),
                | Err(p) => FmtOutcome::Panic(p),
            }
        }
    }
}

/* ------------------------------------------------------------------------- */
/* whole front end through the session                                       */
/* ------------------------------------------------------------------------- */

use zydeco_session::{AnalysisError, AnalysisOutcome, CompilerSession, ProgramAnalysis, SourceCaches};

#[derive(Clone, Debug, PartialEq, Eq)]
pub enum Verdict {
    /// type checked; sort of the root
    Checked(String),
    /// type errors (normal error path)
    Rejected,
    /// error before type checking (normal error path): phase name
    Error(String),
}

#[derive(Clone, Debug)]
pub struct Front {
    pub verdict: Verdict,
    /// one-line kinds of the errors (for classification)
    pub kinds: Vec<String>,
    /// everything a CLI user would be shown (rendered diagnostics, messages)
    pub rendered: String,
    /// structured locations: (path, byte range)
    pub spans: Vec<(PathBuf, std::ops::Range<usize>)>,
    /// effective sources the session saw (for location checks)
    pub sources: Vec<(PathBuf, String)>,
    pub n_reports: usize,
}

fn render_report(
    report: &ariadne::Report<'static, (zydeco_utils::span::PathDisplay, std::ops::Range<usize>)>,
    cache: impl ariadne::Cache<zydeco_utils::span::PathDisplay>,
) -> String {
    let mut buf = Vec::new();
    let _ = report.write(cache, &mut buf);
    String::from_utf8_lossy(&buf).into_owned()
}

fn first_line(s: &str) -> String {
    // messages embed pretty-printed types over several lines: flatten whitespace
    let flat: Vec<&str> = s.split_whitespace().collect();
    flat.join(" ").chars().take(3000).collect()
}

/// Strip ANSI colour sequences.
pub fn strip_ansi(s: &str) -> String {
    let mut out = String::new();
    let mut chars = s.chars().peekable();
    while let Some(c) = chars.next() {
        if c == '\u{1b}' {
            if chars.peek() == Some(&'[') {
                chars.next();
                for d in chars.by_ref() {
                    if d.is_ascii_alphabetic() {
                        break;
                    }
                }
            }
        } else {
            out.push(c);
        }
    }
    out
}

pub fn graph_warnings_rendered(graph: &zydeco_session::SourceGraph) -> (String, Vec<(PathBuf, std::ops::Range<usize>)>) {
    use ariadne::{Label, Report, ReportKind};
    use zydeco_utils::span::PathDisplay;
    let mut out = String::new();
    let mut spans = vec![];
    for site in graph.warnings() {
        let path = PathDisplay::from(site.path().to_path_buf());
        let span = (path, site.warning.range().clone());
        spans.push((site.path().to_path_buf(), site.warning.range().clone()));
        let report = Report::build(ReportKind::Warning, span.clone())
            .with_message(site.warning.message())
            .with_label(Label::new(span).with_message("this text block contributes no text"))
            .with_note(site.warning.note())
            .finish();
        out.push_str(&render_report(&report, SourceCaches::graph(graph)));
    }
    (out, spans)
}

fn observations_rendered(session: &CompilerSession, analysis: &ProgramAnalysis) -> String {
    use zydeco_statics::{TyckObservation, fmt as static_fmt, syntax as ss};
    use zydeco_syntax::{Pretty, SpanView, Ugly};
    let mut out = String::new();
    if analysis.observations().is_empty() {
        return out;
    }
    // as the CLI does: the analysis keeps only keyed indexes; rendering needs the full arena
    let Ok(statics) = session.materialize_arena(analysis) else { return out };
    let statics = statics.as_ref();
    for observation in analysis.observations() {
        match observation {
            | TyckObservation::HoleSolution { site, solution } => {
                let formatter = zydeco_surface::scoped::fmt::Formatter::new(analysis.scoped());
                let site_text = match site {
                    | ss::InferenceSite::Term(term) => term.ugly(&formatter),
                    | ss::InferenceSite::Pattern(pattern) => pattern.ugly(&formatter),
                };
                let span_context = (analysis.spans(), analysis.scoped());
                let span = match site {
                    | ss::InferenceSite::Term(term) => term.span(&span_context),
                    | ss::InferenceSite::Pattern(pattern) => pattern.span(&span_context),
                };
                let solution = solution.map_or_else(
                    || "???".to_owned(),
                    |solution| solution.ugly(&static_fmt::Formatter::new(analysis.scoped(), statics)),
                );
                out.push_str(&format!("{site_text} @ {span} : {solution}\n"));
            }
            | TyckObservation::Debug { metadata, result } => {
                let formatter = static_fmt::Formatter::new(analysis.scoped(), statics);
                let mut s = String::new();
                metadata.arguments().iter().for_each(|a| s.push_str(&format!("{a}")));
                fn pretty<T>(formatter: &static_fmt::Formatter<'_>, item: T) -> String
                where
                    T: for<'f> Pretty<'f, static_fmt::Formatter<'f>>,
                {
                    let mut output = String::new();
                    item.pretty(formatter).render_fmt(100, &mut output).unwrap();
                    output
                }
                match result {
                    | ss::TermAnnId::Hole(fill) => s.push_str(&format!(" (hole): {}", fill.concise())),
                    | ss::TermAnnId::Kind(kind) => s.push_str(&pretty(&formatter, *kind)),
                    | ss::TermAnnId::Type(ty, kind) => {
                        s.push_str(&pretty(&formatter, *ty));
                        s.push_str(&pretty(&formatter, *kind));
                    }
                    | ss::TermAnnId::Value(value, ty) => {
                        s.push_str(&pretty(&formatter, *value));
                        s.push_str(&pretty(&formatter, *ty));
                    }
                    | ss::TermAnnId::Compu(c, ty) => {
                        s.push_str(&pretty(&formatter, *c));
                        s.push_str(&pretty(&formatter, *ty));
                    }
                }
                out.push_str(&s);
                out.push('\n');
            }
        }
    }
    out
}

/// Summarise one `analyze` result the way `zydeco check` presents it (diagnostics rendered into a
/// buffer instead of stderr).  Does not catch panics: wrap in `engine::catch`.
pub fn summarize(session: &CompilerSession, result: &Result<Arc<ProgramAnalysis>, AnalysisError>) -> Front {
    match result {
        | Ok(analysis) => {
            let sources: Vec<(PathBuf, String)> =
                analysis.sources().map(|(p, s)| (p.to_path_buf(), s.to_string())).collect();
            let (mut rendered, mut spans) = graph_warnings_rendered(analysis.graph());
            rendered.push_str(&observations_rendered(session, analysis));
            match analysis.outcome() {
                | AnalysisOutcome::Checked { root } => {
                    let sort = zydeco_session::source::CheckedRootSort::from(*root);
                    Front {
                        verdict: Verdict::Checked(format!("{sort:?}")),
                        kinds: vec![],
                        rendered,
                        spans,
                        sources,
                        n_reports: 0,
                    }
                }
                | AnalysisOutcome::Rejected { reports } => {
                    let mut kinds = vec![];
                    for report in reports.reports.iter() {
                        rendered.push_str(&render_report(report, SourceCaches::analysis(analysis)));
                    }
                    for s in reports.spans.iter() {
                        if let Some((path, range, msg)) = s {
                            spans.push((path.as_path().to_path_buf(), range.clone()));
                            kinds.push(first_line(msg));
                        } else {
                            kinds.push("<report without span>".into());
                        }
                    }
                    Front {
                        verdict: Verdict::Rejected,
                        kinds,
                        rendered,
                        spans,
                        sources,
                        n_reports: reports.reports.len(),
                    }
                }
            }
        }
        | Err(error) => {
            let (phase, rendered, spans, sources) = match error {
                | AnalysisError::Source { error } => ("source", format!("{error}"), vec![], vec![]),
                | AnalysisError::TextualProgram { error } => ("textual", format!("{error}"), vec![], vec![]),
                | AnalysisError::Desugar { error } => ("desugar", format!("{error}"), vec![], vec![]),
                | AnalysisError::Resolve { error, graph } => {
                    let (mut text, spans) = graph_warnings_rendered(graph);
                    text.push_str(&render_report(&error.to_report(), SourceCaches::graph(graph)));
                    text.push_str(&format!("{error}"));
                    let sources =
                        graph.sources.iter().map(|(_, f)| (f.path.clone(), f.source.clone())).collect();
                    ("resolve", text, spans, sources)
                }
            };
            let kind = format!("{phase}: {}", first_line(&format!("{error}")));
            Front {
                verdict: Verdict::Error(phase.to_string()),
                kinds: vec![kind],
                rendered,
                spans,
                sources,
                n_reports: 1,
            }
        }
    }
}

/// Fresh session, one analysis of `root`, diagnostics rendered.  Panics are caught.
pub fn front_end(root: &Path) -> Result<Front, PanicInfo> {
    catch(|| {
        let session = CompilerSession::default();
        let result = session.analyze(root);
        summarize(&session, &result)
    })
}

/* ------------------------------------------------------------------------- */
/* running with the interpreter                                              */
/* ------------------------------------------------------------------------- */

use zydeco_dynamics::{BuiltinRootLinker, Eval, ProgKont, Runtime, Step};
use zydeco_session::ExecutableProgram;

#[derive(Clone, Debug, PartialEq, Eq)]
pub enum RunEnd {
    Exit(i32),
    /// the root returned a value (not an OS program)
    Ret(String),
    /// the one defined arithmetic trap
    Trap(String),
    /// host I/O failure of a legacy stdio role (allowed by C01's statement)
    HostIo(String),
    /// any other unwind while stepping: an undefined machine state
    Stuck { msg: String, file: String, line: u32 },
    OutOfFuel,
    /// clean rejection before any step ran
    LinkError(String),
}

#[derive(Clone, Debug)]
pub struct RunResult {
    pub stdout: Vec<u8>,
    pub end: RunEnd,
    pub steps: u64,
}

pub fn classify_step_panic(p: &PanicInfo) -> RunEnd {
    let m = &p.msg;
    if m.contains("attempt to divide by zero")
        || m.contains("attempt to calculate the remainder with a divisor of zero")
    {
        RunEnd::Trap(m.clone())
    } else if m.contains("legacy standard-") {
        RunEnd::HostIo(m.clone())
    } else {
        RunEnd::Stuck { msg: m.clone(), file: p.file.clone(), line: p.line }
    }
}

/// Run an executable one public `Eval::step` at a time under a fuel bound.
pub fn run_executable(exe: ExecutableProgram, stdin: &[u8], args: &[String], fuel: u64) -> RunResult {
    let mut out: Vec<u8> = Vec::new();
    let mut steps = 0u64;
    let linked = catch(|| {
        BuiltinRootLinker { scoped: exe.scoped, statics: exe.statics, root: exe.root, signature: exe.signature }
            .run()
    });
    let dynamics = match linked {
        | Ok(Ok(d)) => d,
        | Ok(Err(e)) => return RunResult { stdout: out, end: RunEnd::LinkError(format!("{e}")), steps },
        | Err(p) => {
            return RunResult {
                stdout: out,
                end: RunEnd::Stuck { msg: format!("link: {}", p.msg), file: p.file, line: p.line },
                steps,
            };
        }
    };
    let end = {
        let mut input = std::io::Cursor::new(stdin.to_vec());
        let out_ref = &mut out;
        let steps_ref = &mut steps;
        let r = catch(move || {
            let mut rt = Runtime::new(&mut input, out_ref, args, dynamics);
            let mut comp = rt.program.root.as_ref().clone();
            loop {
                if *steps_ref >= fuel {
                    return None;
                }
                *steps_ref += 1;
                match comp.step(&mut rt) {
                    | Step::Done(k) => return Some(k),
                    | Step::Step(next) => comp = next,
                }
            }
        });
        match r {
            | Ok(Some(ProgKont::ExitCode(c))) => RunEnd::Exit(c),
            | Ok(Some(ProgKont::Ret(v))) => RunEnd::Ret(format!("{v:?}").chars().take(200).collect()),
            | Ok(Some(ProgKont::Dry)) => RunEnd::Ret("dry".into()),
            | Ok(None) => RunEnd::OutOfFuel,
            | Err(p) => classify_step_panic(&p),
        }
    };
    RunResult { stdout: out, end, steps }
}

/// Analyse a root and, when it is an accepted executable, hand it out.
pub enum Analyzed {
    Executable(ExecutableProgram, Front),
    /// accepted but not an executable computation
    AcceptedOther(Front, String),
    NotAccepted(Front),
    Panic(PanicInfo),
}

pub fn analyze_executable(session: &CompilerSession, root: &Path) -> Analyzed {
    let r = catch(|| {
        let result = session.analyze(root);
        let front = summarize(session, &result);
        match (&front.verdict, result) {
            | (Verdict::Checked(_), Ok(analysis)) => match session.executable_program(&analysis) {
                | Ok(exe) => Analyzed::Executable(exe, front),
                | Err(e) => Analyzed::AcceptedOther(front, format!("{e}")),
            },
            | _ => Analyzed::NotAccepted(front),
        }
    });
    match r {
        | Ok(a) => a,
        | Err(p) => Analyzed::Panic(p),
    }
}

/* ------------------------------------------------------------------------- */
/* lowering                                                                  */
/* ------------------------------------------------------------------------- */

pub use zydeco_cli::BackendProgram;

pub enum Lowered {
    Ok(Box<BackendProgram>),
    /// an error value (e.g. BuiltinLower): clean refusal
    Refused(String),
    Panic(PanicInfo),
}

pub enum LoweredSps {
    Ok(Box<zydeco_stackir::SpsLowProgram>),
    Refused(String),
    Panic(PanicInfo),
}

/// The pipeline up to SPSLow only (what `BackendProgram::lower` does before the assembly lowering): C19 needs
/// the first-order program even for sources whose later assembly lowering is a listed finding.
pub fn lower_to_sps(exe: ExecutableProgram) -> LoweredSps {
    use zydeco_stackir::{BuiltinRootLowerer, SpsLowPipeline};
    use zydeco_utils::pass::CompilerPass;
    use zydeco_surface::scoped::arena::ScopedArena;
    let r = catch(|| {
        let ExecutableProgram { spans, scoped, statics, root, signature } = exe;
        let mut lowering_scoped = ScopedArena::default();
        lowering_scoped.defs = statics.scoped_definitions(&scoped);
        let stackir = BuiltinRootLowerer::new(&spans, &mut lowering_scoped, &statics, root, signature).run().map_err(|e| format!("{e}"))?;
        Ok::<_, String>(SpsLowPipeline::new(&mut lowering_scoped).run(stackir))
    });
    match r {
        | Ok(Ok(p)) => LoweredSps::Ok(Box::new(p)),
        | Ok(Err(e)) => LoweredSps::Refused(e),
        | Err(p) => LoweredSps::Panic(p),
    }
}

pub fn lower(exe: ExecutableProgram) -> Lowered {
    match catch(|| BackendProgram::lower(exe)) {
        | Ok(Ok(b)) => Lowered::Ok(Box::new(b)),
        | Ok(Err(e)) => Lowered::Refused(format!("{e}")),
        | Err(p) => Lowered::Panic(p),
    }
}

/* ------------------------------------------------------------------------- */
/* direct host-role invocation                                               */
/* ------------------------------------------------------------------------- */

use crate::hmodel::{HV, IntTy};
use std::rc::Rc;
use zydeco_dynamics::syntax as ds;
use zydeco_syntax::{
    BuiltinValueRole, FloatLiteral, FloatOperation, FloatType, IntegerLiteral, IntegerOperation, IntegerType, Literal,
};

pub fn int_type(t: IntTy) -> IntegerType {
    match t {
        | IntTy::I8 => IntegerType::Int8,
        | IntTy::I16 => IntegerType::Int16,
        | IntTy::I32 => IntegerType::Int32,
        | IntTy::I64 => IntegerType::Int64,
        | IntTy::U8 => IntegerType::UInt8,
        | IntTy::U16 => IntegerType::UInt16,
        | IntTy::U32 => IntegerType::UInt32,
        | IntTy::U64 => IntegerType::UInt64,
    }
}

pub fn int_lit(t: IntTy, v: i128) -> IntegerLiteral {
    match t {
        | IntTy::I8 => IntegerLiteral::Int8(v as i8),
        | IntTy::I16 => IntegerLiteral::Int16(v as i16),
        | IntTy::I32 => IntegerLiteral::Int32(v as i32),
        | IntTy::I64 => IntegerLiteral::Int64(v as i64),
        | IntTy::U8 => IntegerLiteral::UInt8(v as u8),
        | IntTy::U16 => IntegerLiteral::UInt16(v as u16),
        | IntTy::U32 => IntegerLiteral::UInt32(v as u32),
        | IntTy::U64 => IntegerLiteral::UInt64(v as u64),
    }
}

/// An argument handed to a role: a model value, or continuation thunk number `k`.
#[derive(Clone, Debug, PartialEq)]
pub enum RoleArg {
    Val(HV),
    Bytes(Vec<u8>),
    Kont(usize),
}

/// What one invocation did, decoded from the returned computation's shape.
#[derive(Clone, Debug, PartialEq)]
pub enum Invoked {
    Ret(HV),
    RetBytes(Vec<u8>),
    /// returned some other value (handles …): rendered
    RetOther(String),
    /// forces continuation `k` applied to these values
    Select(usize, Vec<Invoked>),
    Exit(i32),
    Panic { msg: String, file: String },
    /// frames left on the stack differ from what the arity promises, or an unknown shape
    Shape(String),
}

fn sem_of_hv(v: &HV) -> ds::SemValue {
    match v {
        | HV::Int(t, n) => ds::SemValue::Literal(Literal::Integer(int_lit(*t, *n))),
        | HV::F64(b) => ds::SemValue::Literal(Literal::Float(FloatLiteral::Float64(*b))),
        | HV::F32(b) => ds::SemValue::Literal(Literal::Float(FloatLiteral::Float32(*b))),
        | HV::Str(s) => ds::SemValue::Literal(Literal::String(s.as_str().into())),
        | HV::Char(c) => ds::SemValue::Literal(Literal::Char(*c)),
        | HV::Bytes(b) => ds::SemValue::Host(zydeco_dynamics::host::HostValue::Bytes(b.clone().into())),
        | HV::Unit | HV::Opaque => ds::SemValue::Triv(zydeco_syntax::Triv),
    }
}

fn hv_of_sem(v: &ds::SemValue) -> Invoked {
    match v {
        | ds::SemValue::Literal(Literal::Integer(i)) => {
            let t = match i {
                | IntegerLiteral::Int8(_) => IntTy::I8,
                | IntegerLiteral::Int16(_) => IntTy::I16,
                | IntegerLiteral::Int32(_) => IntTy::I32,
                | IntegerLiteral::Int64(_) => IntTy::I64,
                | IntegerLiteral::UInt8(_) => IntTy::U8,
                | IntegerLiteral::UInt16(_) => IntTy::U16,
                | IntegerLiteral::UInt32(_) => IntTy::U32,
                | IntegerLiteral::UInt64(_) => IntTy::U64,
                | IntegerLiteral::Unresolved(_) => return Invoked::RetOther("unresolved integer".into()),
            };
            Invoked::Ret(HV::Int(t, i.value()))
        }
        | ds::SemValue::Literal(Literal::Float(FloatLiteral::Float64(b))) => Invoked::Ret(HV::F64(*b)),
        | ds::SemValue::Literal(Literal::Float(FloatLiteral::Float32(b))) => Invoked::Ret(HV::F32(*b)),
        | ds::SemValue::Literal(Literal::String(s)) => Invoked::Ret(HV::Str(s.as_str().to_string())),
        | ds::SemValue::Literal(Literal::Char(c)) => Invoked::Ret(HV::Char(*c)),
        | ds::SemValue::Triv(_) => Invoked::Ret(HV::Unit),
        | ds::SemValue::Host(zydeco_dynamics::host::HostValue::Bytes(b)) => Invoked::Ret(HV::Bytes(b.to_vec())),
        | other => Invoked::RetOther(format!("{other:?}").chars().take(80).collect()),
    }
}

fn value_of(v: &ds::Value) -> Invoked {
    match v {
        | ds::Value::SemValue(s) => hv_of_sem(s),
        | ds::Value::Lit(l) => hv_of_sem(&ds::SemValue::Literal(l.clone())),
        | ds::Value::Thunk(_) => Invoked::RetOther("<host-made thunk>".into()),
        | other => Invoked::RetOther(format!("{other:?}").chars().take(80).collect()),
    }
}

/// Invoke one host role through the interpreter's own `Prim` step with the given arguments on the
/// stack, and decode what it continues with.  `sentinel` frames below the arguments must survive.
pub fn invoke_role(role: BuiltinValueRole, args: &[RoleArg], stdin: &[u8], argv: &[String]) -> (Invoked, Vec<u8>) {
    use zydeco_dynamics::{Eval, Step};
    let mut out: Vec<u8> = vec![];
    // continuation thunks with distinguishable bodies
    let bodies: Vec<ds::RcCompu> = (0..4)
        .map(|k| {
            Rc::new(ds::Computation::Ret(zydeco_syntax::Return(Rc::new(ds::Value::Lit(Literal::Integer(
                IntegerLiteral::Int64(7000 + k),
            ))))))
        })
        .collect();
    let result = {
        let out_ref = &mut out;
        let bodies = bodies.clone();
        let args = args.to_vec();
        catch(move || {
            let mut input = std::io::Cursor::new(stdin.to_vec());
            let prim = ds::Prim { arity: role.arity() as u64, role };
            let program = ds::DynamicsProgram {
                defs: Default::default(),
                root: Rc::new(ds::Computation::Prim(prim.clone())),
            };
            let mut rt = zydeco_dynamics::Runtime::new(&mut input, out_ref, argv, program);
            // a sentinel argument below: the role must not consume it
            let sentinel = ds::SemValue::Literal(Literal::Integer(IntegerLiteral::Int64(-424242)));
            rt.stack.push_back(ds::SemCompu::App(sentinel));
            for a in args.iter().rev() {
                let v = match a {
                    | RoleArg::Val(v) => sem_of_hv(v),
                    | RoleArg::Bytes(b) => ds::SemValue::Host(zydeco_dynamics::host::HostValue::Bytes(b.clone().into())),
                    | RoleArg::Kont(k) => ds::SemValue::Thunk(ds::EnvThunk {
                        body: bodies[*k].clone(),
                        env: zydeco_statics::environment::Env::new(),
                    }),
                };
                rt.stack.push_back(ds::SemCompu::App(v));
            }
            let step = ds::Computation::Prim(prim).step(&mut rt);
            let left = rt.stack.len();
            let sentinel_ok = matches!(
                rt.stack.back(),
                Some(ds::SemCompu::App(ds::SemValue::Literal(Literal::Integer(IntegerLiteral::Int64(-424242)))))
            );
            (step, left, sentinel_ok)
        })
    };
    let decoded = match result {
        | Err(p) => Invoked::Panic { msg: p.msg, file: p.file },
        | Ok((Step::Done(zydeco_dynamics::ProgKont::ExitCode(c)), _, _)) => Invoked::Exit(c),
        | Ok((Step::Done(other), _, _)) => Invoked::Shape(format!("finished with {other:?}")),
        | Ok((Step::Step(comp), left, sentinel_ok)) => {
            if left != 1 || !sentinel_ok {
                Invoked::Shape(format!(
                    "the role consumed a different number of frames than its arity {}: {left} frame(s) left, sentinel intact: {sentinel_ok}",
                    role.arity()
                ))
            } else {
                decode(&comp, &bodies)
            }
        }
    };
    (decoded, out)
}

fn decode(c: &ds::Computation, bodies: &[ds::RcCompu]) -> Invoked {
    match c {
        | ds::Computation::Ret(zydeco_syntax::Return(v)) => value_of(v),
        | ds::Computation::Force(zydeco_syntax::Force(v)) => match &**v {
            | ds::Value::SemValue(ds::SemValue::Thunk(t)) => {
                match bodies.iter().position(|b| Rc::ptr_eq(b, &t.body)) {
                    | Some(k) => Invoked::Select(k, vec![]),
                    | None => Invoked::Shape("forces a thunk that was not passed in".into()),
                }
            }
            | other => Invoked::Shape(format!("forces {other:?}").chars().take(80).collect()),
        },
        | ds::Computation::VApp(zydeco_syntax::App(body, arg)) => match decode(body, bodies) {
            | Invoked::Select(k, mut args) => {
                args.push(value_of(arg));
                Invoked::Select(k, args)
            }
            | other => other,
        },
        | other => Invoked::Shape(format!("{other:?}").chars().take(80).collect()),
    }
}

pub fn int_role(t: IntTy, op: &str) -> BuiltinValueRole {
    let o = match op {
        | "add" => IntegerOperation::Add,
        | "sub" => IntegerOperation::Sub,
        | "mul" => IntegerOperation::Mul,
        | "div" => IntegerOperation::Div,
        | "mod" => IntegerOperation::Mod,
        | "eq" => IntegerOperation::Eq,
        | "lt" => IntegerOperation::Lt,
        | "gt" => IntegerOperation::Gt,
        | _ => IntegerOperation::ToString,
    };
    BuiltinValueRole::Integer(int_type(t), o)
}

pub fn float_role(is32: bool, op: &str) -> BuiltinValueRole {
    let o = match op {
        | "add" => FloatOperation::Add,
        | "sub" => FloatOperation::Sub,
        | "mul" => FloatOperation::Mul,
        | "div" => FloatOperation::Div,
        | "eq" => FloatOperation::Eq,
        | "lt" => FloatOperation::Lt,
        | "gt" => FloatOperation::Gt,
        | _ => FloatOperation::ToString,
    };
    BuiltinValueRole::Float(if is32 { FloatType::Float32 } else { FloatType::Float64 }, o)
}

/* ------------------------------------------------------------------------- */
/* desugared structure of a text (for formatter properties)                  */
/* ------------------------------------------------------------------------- */

/// Structural dump of the desugared program (ids and spans do not appear in it) plus a summary of the
/// decoded directives whose meaning comes from adjacent trivia.
fn strip_positions(s: &str) -> String {
    // error texts mention line:col positions, which formatting legitimately changes
    s.chars().filter(|c| !c.is_ascii_digit()).collect()
}

pub fn desugar_dump(text: &str) -> Result<String, String> {
    use zydeco_surface::bitter::{SourceUnitDesugarer, fmt::Formatter as BitterFormatter};
    use zydeco_syntax::Ugly;
    use zydeco_utils::pass::CompilerPass;
    let parsed = match parse_unit(text) {
        | ParseOutcome::Ok(p) => p,
        | ParseOutcome::Rejected(m) => return Err(format!("parse: {m}")),
        | ParseOutcome::Panic(p) => return Err(format!("parse panic: {}", p.describe())),
    };
    let r = catch(|| {
        let structure = match SourceUnitDesugarer::new(&parsed.parser.spans, &parsed.parser.arena, parsed.unit).run() {
            | Ok(out) => out.root.ugly(&BitterFormatter::new(&out.arena)),
            | Err(e) => format!("<desugar error: {e}>"),
        };
        let unit = parsed.unit;
        let arena = &parsed.parser.arena;
        let spans = &parsed.parser.spans;
        let imports = match unit.imports(arena, spans) {
            | Ok(v) => v.iter().map(|s| format!("{:?}", s.directive.target)).collect::<Vec<_>>().join(","),
            | Err(e) => format!("<{}>", strip_positions(&format!("{e}"))),
        };
        let literals = match unit.literals(arena, spans) {
            | Ok(v) => v.iter().map(|s| format!("{:?}", s.directive.text.text)).collect::<Vec<_>>().join(","),
            | Err(e) => format!("<{}>", strip_positions(&format!("{e}"))),
        };
        let docs = unit
            .documentation(arena, spans)
            .iter()
            .map(|s| format!("{:?}", s.directive.comment.as_ref().map(|c| c.text.clone())))
            .collect::<Vec<_>>()
            .join(",");
        // unattached `--|` blocks carry no meaning (a warning only); their preservation is C13's subject
        format!("{structure}\n#imports[{imports}]\n#literals[{literals}]\n#docs[{docs}]")
    });
    r.map_err(|p| format!("desugar panic: {}", p.describe()))
}
