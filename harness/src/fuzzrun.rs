//! Thorough-tier libFuzzer campaign (cargo-fuzz target /verif/fuzz `front`) for C10 and C11.

use crate::engine::*;
use serde_json::json;
use std::process::Command;

/// Build the target, seed a fresh corpus with small repository sources, run a bounded campaign and fold the
/// outcome into the report.  Anything that prevents the campaign (no nightly toolchain, build failure) is
/// recorded in the evidence and changes no verdict.
pub fn campaign(ctx: &Ctx, prop: &str, runs: u64, report: &mut Report) {
    let fuzz_dir = ctx.verif_root.join("fuzz");
    let note = |report: &mut Report, what: String| {
        report.extra.insert("libfuzzer".into(), json!(what));
    };
    let build = Command::new("cargo")
        .args(["+nightly", "fuzz", "build", "--fuzz-dir"])
        .arg(&fuzz_dir)
        .args(["-s", "none", "front"])
        .env("CARGO_NET_OFFLINE", "true")
        .output();
    match build {
        | Ok(o) if o.status.success() => {}
        | Ok(o) => return note(report, format!("campaign skipped: cargo fuzz build failed: {}", String::from_utf8_lossy(&o.stderr).lines().rev().take(3).collect::<Vec<_>>().join(" | "))),
        | Err(e) => return note(report, format!("campaign skipped: cargo not runnable: {e}")),
    }
    let corpus = ctx.scratch.join("fuzz-corpus");
    let artifacts = ctx.scratch.join("fuzz-artifacts");
    let _ = std::fs::create_dir_all(&corpus);
    let _ = std::fs::create_dir_all(&artifacts);
    let mut seeded = 0;
    for (i, (_, text)) in crate::drive::corpus_texts(&ctx.repo_root).into_iter().enumerate() {
        if text.len() <= 3000 {
            let mut bytes = vec![(i % 2) as u8];
            bytes.extend_from_slice(text.as_bytes());
            let _ = std::fs::write(corpus.join(format!("seed{i}")), bytes);
            seeded += 1;
        }
    }
    let out = Command::new("cargo")
        .args(["+nightly", "fuzz", "run", "--fuzz-dir"])
        .arg(&fuzz_dir)
        .args(["-s", "none", "front"])
        .arg(&corpus)
        .arg("--")
        .arg(format!("-runs={runs}"))
        .arg(format!("-seed={}", ctx.seed.max(1)))
        .args(["-max_len=3000", "-len_control=0", "-timeout=60", "-rss_limit_mb=4096", "-print_final_stats=1"])
        .arg(format!("-artifact_prefix={}/", artifacts.display()))
        .env("CARGO_NET_OFFLINE", "true")
        .env("FUZZ_PROP", prop)
        .env("VERIF_SCRATCH", &ctx.scratch)
        .output();
    let out = match out {
        | Ok(o) => o,
        | Err(e) => return note(report, format!("campaign skipped: {e}")),
    };
    let err = String::from_utf8_lossy(&out.stderr).to_string();
    let stat = |key: &str| -> u64 {
        err.lines().rev().find_map(|l| l.strip_prefix(key).and_then(|v| v.trim().parse::<u64>().ok())).unwrap_or(0)
    };
    let executed = stat("stat::number_of_executed_units:");
    let mut stats = Stats::new();
    stats.evaluations += executed;
    stats.add("libfuzzer:executed-units", executed);
    stats.add("libfuzzer:seed-inputs", seeded);
    let cov = err.lines().rev().find(|l| l.contains(" cov: ")).map(|l| l.trim().to_string()).unwrap_or_default();
    note(report, format!("campaign of {executed} executions from {seeded} seed inputs; last status line: {cov}"));
    let mut violation = None;
    if !out.status.success() {
        // a saved artifact is the replay unit
        let artifact = std::fs::read_dir(&artifacts).ok().and_then(|d| d.flatten().map(|e| e.path()).next());
        let line = err.lines().find(|l| l.starts_with("FUZZ-VIOLATION")).unwrap_or("").to_string();
        match (&artifact, line.is_empty()) {
            | (Some(path), false) => {
                let bytes = std::fs::read(path).unwrap_or_default();
                let raw = String::from_utf8_lossy(bytes.get(1..).unwrap_or(&[])).to_string();
                // what the oracle saw: C10 behind the prelude when the mode byte is odd, C11 always the raw text
                let text = if prop == "C10" && bytes.first().map(|b| b % 2 == 1).unwrap_or(false) {
                    format!("{}{raw}\n", crate::core::print::prelude(&ctx.repo_root))
                } else {
                    raw
                };
                let sig = line.split("signature=").nth(1).and_then(|s| s.split(" expected=").next()).unwrap_or("fuzz").to_string();
                let fail = Fail::new(sig, line.split("expected=").nth(1).and_then(|s| s.split(" observed=").next()).unwrap_or(""), line.split("observed=").nth(1).unwrap_or(""))
                    .with(json!({"origin": {"origin": "libfuzzer", "behind_prelude": bytes.first().map(|b| b % 2 == 1)}, "text": text, "path": "input.zy"}));
                match tolerate(ctx, &mut stats, fail) {
                    | Ok(()) => {}
                    | Err(fail) => violation = Some(Violation { fail, kind: "literal".into(), tape: None, stage: "libfuzzer".into() }),
                }
            }
            | (Some(path), true) => {
                // a crash that is not one of the oracles (timeout, out of memory, abort inside the runtime): inconclusive
                stats.inconclusive += 1;
                stats.count("libfuzzer:campaign-ended-without-an-oracle-verdict");
                let _ = path;
            }
            | (None, _) => {
                stats.inconclusive += 1;
                stats.count("libfuzzer:campaign-failed-to-run");
            }
        }
    }
    report.absorb((stats, violation));
}
