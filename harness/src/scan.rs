//! S-scan: an independent, hand-written maximal-munch scanner for Zydeco's lexical grammar, written
//! from the token definitions in `lexer.rs` read as a *specification* (it calls nothing in the repo).
//!
//! It classifies the whole text into code tokens and comments, with nested `/- -/` comments whose
//! interior is tokenised the same way (so `-- … -/` inside a block comment is a line comment that
//! hides the terminator, exactly as the token definitions imply).

#[derive(Clone, Copy, Debug, PartialEq, Eq, Hash)]
pub enum Kind {
    Upper,
    Lower,
    Ctor,
    Dtor,
    Keyword,
    Int,
    Float,
    Str,
    Char,
    Punct,
    /// `-/` outside any comment
    StrayClose,
    /// a character no token matches
    Unknown,
}

#[derive(Clone, Copy, Debug, PartialEq, Eq, Hash)]
pub enum CommentKind {
    Line,
    Text,
    Block,
}

#[derive(Clone, Debug, PartialEq, Eq)]
pub struct Token {
    pub kind: Kind,
    pub start: usize,
    pub end: usize,
}

#[derive(Clone, Debug, PartialEq, Eq)]
pub struct Comment {
    pub kind: CommentKind,
    pub start: usize,
    pub end: usize,
    /// block comment not closed before end of input
    pub unterminated: bool,
}

#[derive(Clone, Debug, PartialEq, Eq)]
pub enum Item {
    Tok(Token),
    Com(Comment),
}

pub const KEYWORDS: &[&str] = &[
    "end", "begin", "data", "codata", "as", "def", "define", "let", "param", "in", "that", "do", "ret", "fn",
    "pi", "fix", "match", "comatch", "forall", "sigma", "exists",
];

pub const PUNCT: &[&str] = &[
    "::", "=>", "->", "<-", "(", ")", "[", "]", "{", "}", ",", ":", "=", ";", "!", "/", "|", "+", "*", ".",
    "_", "@",
];

fn is_ident_char(c: char) -> bool {
    c.is_ascii_alphanumeric() || matches!(c, '_' | '\'' | '?' | '+' | '*' | '-' | '=' | '~')
}

fn is_ws(c: char) -> bool {
    matches!(c, ' ' | '\t' | '\n' | '\x0c')
}

/// One raw lexeme at `pos` (no whitespace at pos).
#[derive(Clone, Copy, Debug, PartialEq, Eq)]
enum Raw {
    Tok(Kind),
    LineComment,
    TextLine,
    Open,
    Close,
}

fn ident_run(s: &str, from: usize) -> usize {
    let mut end = from;
    for (i, c) in s[from..].char_indices() {
        if is_ident_char(c) {
            end = from + i + c.len_utf8();
        } else {
            break;
        }
    }
    end
}

fn digits(b: &[u8], mut i: usize) -> usize {
    while i < b.len() && b[i].is_ascii_digit() {
        i += 1;
    }
    i
}

/// length of the longest numeric literal at `pos`, and whether it is a float
fn number(s: &str, pos: usize) -> Option<(usize, bool)> {
    let b = s.as_bytes();
    let mut i = pos;
    if i < b.len() && (b[i] == b'+' || b[i] == b'-') {
        i += 1;
    }
    let d0 = i;
    i = digits(b, i);
    if i == d0 {
        return None;
    }
    let int_end = i;
    // [0-9]+\.[0-9]+([eE][+-]?[0-9]+)?
    let mut best: (usize, bool) = (int_end, false);
    if i < b.len() && b[i] == b'.' {
        let f0 = i + 1;
        let f1 = digits(b, f0);
        if f1 > f0 {
            best = (f1, true);
            if f1 < b.len() && (b[f1] == b'e' || b[f1] == b'E') {
                let mut k = f1 + 1;
                if k < b.len() && (b[k] == b'+' || b[k] == b'-') {
                    k += 1;
                }
                let k1 = digits(b, k);
                if k1 > k {
                    best = (k1, true);
                }
            }
        }
    } else if i < b.len() && (b[i] == b'e' || b[i] == b'E') {
        // [0-9]+[eE][+-]?[0-9]+
        let mut k = i + 1;
        if k < b.len() && (b[k] == b'+' || b[k] == b'-') {
            k += 1;
        }
        let k1 = digits(b, k);
        if k1 > k {
            best = (k1, true);
        }
    }
    Some(best)
}

/// `"[^"\\]*(?:\\.[^"\\]*)*"` — `.` does not match a newline
fn string_lit(s: &str, pos: usize) -> Option<usize> {
    let mut it = s[pos..].char_indices();
    let (_, q) = it.next()?;
    if q != '"' {
        return None;
    }
    while let Some((i, c)) = it.next() {
        match c {
            | '"' => return Some(pos + i + 1),
            | '\\' => {
                let (_, e) = it.next()?;
                if e == '\n' {
                    return None;
                }
            }
            | _ => {}
        }
    }
    None
}

/// `'([ -~]|\\[nrt'|(\\)])'`
fn char_lit(s: &str, pos: usize) -> Option<usize> {
    let b = s.as_bytes();
    if b.get(pos) != Some(&b'\'') {
        return None;
    }
    // escaped form first (longer)
    if b.get(pos + 1) == Some(&b'\\') {
        if let Some(e) = b.get(pos + 2) {
            if matches!(e, b'n' | b'r' | b't' | b'\'' | b'|' | b'(' | b'\\' | b')') && b.get(pos + 3) == Some(&b'\'') {
                return Some(pos + 4);
            }
        }
    }
    if let Some(c) = b.get(pos + 1) {
        if (b' '..=b'~').contains(c) && b.get(pos + 2) == Some(&b'\'') {
            return Some(pos + 3);
        }
    }
    None
}

fn line_end(s: &str, pos: usize) -> usize {
    match s[pos..].find('\n') {
        | Some(i) => pos + i + 1,
        | None => s.len(),
    }
}

/// Longest match at `pos`; ties resolved as the token definitions prescribe
/// (fixed tokens beat identifier regexes of the same length, `--|` beats `--`).
fn raw_at(s: &str, pos: usize) -> (Raw, usize) {
    let rest = &s[pos..];
    let c = rest.chars().next().unwrap();
    let mut best: (Raw, usize) = (Raw::Tok(Kind::Unknown), pos + c.len_utf8());
    let mut consider = |raw: Raw, end: usize, best: &mut (Raw, usize)| {
        if end > best.1 || (end == best.1 && matches!(best.0, Raw::Tok(Kind::Unknown))) {
            *best = (raw, end);
        }
    };
    // comments
    if rest.starts_with("--") {
        let end = line_end(s, pos);
        if rest.starts_with("--|") {
            return (Raw::TextLine, end);
        }
        return (Raw::LineComment, end);
    }
    // identifiers
    if c.is_ascii_uppercase() {
        consider(Raw::Tok(Kind::Upper), ident_run(s, pos), &mut best);
    } else if c.is_ascii_lowercase() {
        consider(Raw::Tok(Kind::Lower), ident_run(s, pos), &mut best);
    } else if c == '_' {
        let end = ident_run(s, pos + 1);
        if end > pos + 1 {
            consider(Raw::Tok(Kind::Lower), end, &mut best);
        }
    } else if c == '+' {
        if rest[1..].chars().next().is_some_and(|d| d.is_ascii_uppercase()) {
            consider(Raw::Tok(Kind::Ctor), ident_run(s, pos + 1), &mut best);
        }
    } else if c == '.' && rest[1..].chars().next().is_some_and(|d| d.is_ascii_lowercase()) {
        consider(Raw::Tok(Kind::Dtor), ident_run(s, pos + 1), &mut best);
    }
    // numbers
    if let Some((end, float)) = number(s, pos) {
        consider(Raw::Tok(if float { Kind::Float } else { Kind::Int }), end, &mut best);
    }
    if let Some(end) = string_lit(s, pos) {
        consider(Raw::Tok(Kind::Str), end, &mut best);
    }
    if let Some(end) = char_lit(s, pos) {
        consider(Raw::Tok(Kind::Char), end, &mut best);
    }
    // fixed tokens: win ties against identifiers
    let fixed = |text: &str, raw: Raw, best: &mut (Raw, usize)| {
        if rest.starts_with(text) && pos + text.len() >= best.1 {
            *best = (raw, pos + text.len());
        }
    };
    fixed("/-", Raw::Open, &mut best);
    fixed("-/", Raw::Close, &mut best);
    for p in PUNCT {
        fixed(p, Raw::Tok(Kind::Punct), &mut best);
    }
    for k in KEYWORDS {
        fixed(k, Raw::Tok(Kind::Keyword), &mut best);
    }
    best
}

/// Scan the whole text.
pub fn scan(s: &str) -> Vec<Item> {
    let mut out = vec![];
    let mut pos = 0;
    let mut depth = 0usize;
    let mut block_start = 0usize;
    while pos < s.len() {
        let c = s[pos..].chars().next().unwrap();
        if is_ws(c) {
            pos += c.len_utf8();
            continue;
        }
        let (raw, end) = raw_at(s, pos);
        if depth > 0 {
            match raw {
                | Raw::Open => depth += 1,
                | Raw::Close => {
                    depth -= 1;
                    if depth == 0 {
                        out.push(Item::Com(Comment {
                            kind: CommentKind::Block,
                            start: block_start,
                            end,
                            unterminated: false,
                        }));
                    }
                }
                | _ => {}
            }
            pos = end;
            continue;
        }
        match raw {
            | Raw::Open => {
                depth = 1;
                block_start = pos;
            }
            | Raw::Close => out.push(Item::Tok(Token { kind: Kind::StrayClose, start: pos, end })),
            | Raw::LineComment => {
                out.push(Item::Com(Comment { kind: CommentKind::Line, start: pos, end, unterminated: false }))
            }
            | Raw::TextLine => {
                out.push(Item::Com(Comment { kind: CommentKind::Text, start: pos, end, unterminated: false }))
            }
            | Raw::Tok(kind) => out.push(Item::Tok(Token { kind, start: pos, end })),
        }
        pos = end;
    }
    if depth > 0 {
        out.push(Item::Com(Comment { kind: CommentKind::Block, start: block_start, end: s.len(), unterminated: true }));
    }
    out
}

pub fn tokens(s: &str) -> Vec<Token> {
    scan(s).into_iter().filter_map(|i| if let Item::Tok(t) = i { Some(t) } else { None }).collect()
}

pub fn comments(s: &str) -> Vec<Comment> {
    scan(s).into_iter().filter_map(|i| if let Item::Com(c) = i { Some(c) } else { None }).collect()
}

/// The vocabulary used by token-sequence generators.
pub fn vocabulary() -> Vec<&'static str> {
    let mut v: Vec<&'static str> = vec![];
    v.extend(KEYWORDS.iter().copied());
    v.extend(PUNCT.iter().copied());
    v.extend([
        "x", "y", "f", "T", "A", "Int64", "VType", "CType", "Thk", "Ret", "+K", "+Some", ".d", ".run", "0", "1",
        "-1", "42", "1.5", "2e3", "\"s\"", "'c'", "()", "import", "builtin", "format", "monadic", "width",
    ]);
    v
}
