//! H-model: reference model of the host operations, written from the declared source types in
//! `lib/std/builtin/**` and the contract stated in property C06/C05.  Calls nothing in the repo.

#[derive(Clone, Copy, Debug, PartialEq, Eq, Hash, PartialOrd, Ord)]
pub enum IntTy {
    I8,
    I16,
    I32,
    I64,
    U8,
    U16,
    U32,
    U64,
}

pub const INT_TYS: [IntTy; 8] =
    [IntTy::I8, IntTy::I16, IntTy::I32, IntTy::I64, IntTy::U8, IntTy::U16, IntTy::U32, IntTy::U64];

impl IntTy {
    /// the type's name in source programs
    pub fn type_name(self) -> &'static str {
        match self {
            | IntTy::I8 => "Int8",
            | IntTy::I16 => "Int16",
            | IntTy::I32 => "Int32",
            | IntTy::I64 => "Int64",
            | IntTy::U8 => "UInt8",
            | IntTy::U16 => "UInt16",
            | IntTy::U32 => "UInt32",
            | IntTy::U64 => "UInt64",
        }
    }
    /// the operations package name (`numeric/<name>`)
    pub fn pkg(self) -> &'static str {
        match self {
            | IntTy::I8 => "int8",
            | IntTy::I16 => "int16",
            | IntTy::I32 => "int32",
            | IntTy::I64 => "int64",
            | IntTy::U8 => "uint8",
            | IntTy::U16 => "uint16",
            | IntTy::U32 => "uint32",
            | IntTy::U64 => "uint64",
        }
    }
    pub fn min(self) -> i128 {
        match self {
            | IntTy::I8 => i8::MIN as i128,
            | IntTy::I16 => i16::MIN as i128,
            | IntTy::I32 => i32::MIN as i128,
            | IntTy::I64 => i64::MIN as i128,
            | _ => 0,
        }
    }
    pub fn max(self) -> i128 {
        match self {
            | IntTy::I8 => i8::MAX as i128,
            | IntTy::I16 => i16::MAX as i128,
            | IntTy::I32 => i32::MAX as i128,
            | IntTy::I64 => i64::MAX as i128,
            | IntTy::U8 => u8::MAX as i128,
            | IntTy::U16 => u16::MAX as i128,
            | IntTy::U32 => u32::MAX as i128,
            | IntTy::U64 => u64::MAX as i128,
        }
    }
    pub fn contains(self, v: i128) -> bool {
        self.min() <= v && v <= self.max()
    }
    pub fn signed(self) -> bool {
        matches!(self, IntTy::I8 | IntTy::I16 | IntTy::I32 | IntTy::I64)
    }
    pub fn bits(self) -> u32 {
        match self {
            | IntTy::I8 | IntTy::U8 => 8,
            | IntTy::I16 | IntTy::U16 => 16,
            | IntTy::I32 | IntTy::U32 => 32,
            | IntTy::I64 | IntTy::U64 => 64,
        }
    }
}

#[derive(Clone, Copy, Debug, PartialEq, Eq, Hash, PartialOrd, Ord)]
pub enum Arith {
    Add,
    Sub,
    Mul,
    Div,
    Mod,
}
pub const ARITH: [Arith; 5] = [Arith::Add, Arith::Sub, Arith::Mul, Arith::Div, Arith::Mod];
impl Arith {
    pub fn name(self) -> &'static str {
        match self {
            | Arith::Add => "add",
            | Arith::Sub => "sub",
            | Arith::Mul => "mul",
            | Arith::Div => "div",
            | Arith::Mod => "mod",
        }
    }
}

#[derive(Clone, Copy, Debug, PartialEq, Eq, Hash, PartialOrd, Ord)]
pub enum Cmp {
    Eq,
    Lt,
    Gt,
}
pub const CMP: [Cmp; 3] = [Cmp::Eq, Cmp::Lt, Cmp::Gt];
impl Cmp {
    pub fn name(self) -> &'static str {
        match self {
            | Cmp::Eq => "eq",
            | Cmp::Lt => "lt",
            | Cmp::Gt => "gt",
        }
    }
}

macro_rules! arith_at {
    ($t:ty, $op:expr, $a:expr, $b:expr) => {{
        let a = $a as $t;
        let b = $b as $t;
        match $op {
            | Arith::Add => Some(a.wrapping_add(b) as i128),
            | Arith::Sub => Some(a.wrapping_sub(b) as i128),
            | Arith::Mul => Some(a.wrapping_mul(b) as i128),
            | Arith::Div => {
                if b == 0 {
                    None
                } else {
                    Some(a.wrapping_div(b) as i128)
                }
            }
            | Arith::Mod => {
                if b == 0 {
                    None
                } else {
                    Some(a.wrapping_rem(b) as i128)
                }
            }
        }
    }};
}

/// Arithmetic of Rust's same-named primitive; `None` = the one defined trap (divisor 0).
/// Operands must be in range of `ty`.
pub fn int_arith(ty: IntTy, op: Arith, a: i128, b: i128) -> Option<i128> {
    debug_assert!(ty.contains(a) && ty.contains(b));
    match ty {
        | IntTy::I8 => arith_at!(i8, op, a, b),
        | IntTy::I16 => arith_at!(i16, op, a, b),
        | IntTy::I32 => arith_at!(i32, op, a, b),
        | IntTy::I64 => arith_at!(i64, op, a, b),
        | IntTy::U8 => arith_at!(u8, op, a, b),
        | IntTy::U16 => arith_at!(u16, op, a, b),
        | IntTy::U32 => arith_at!(u32, op, a, b),
        | IntTy::U64 => arith_at!(u64, op, a, b),
    }
}

/// Comparison respecting signedness = comparison of the mathematical values.
pub fn int_cmp(op: Cmp, a: i128, b: i128) -> bool {
    match op {
        | Cmp::Eq => a == b,
        | Cmp::Lt => a < b,
        | Cmp::Gt => a > b,
    }
}

pub fn int_to_string(v: i128) -> String {
    // exact decimal numeral, written without the standard library's integer formatter
    if v == 0 {
        return "0".into();
    }
    let neg = v < 0;
    let mut m: u128 = v.unsigned_abs();
    let mut digits = vec![];
    while m > 0 {
        digits.push(b'0' + (m % 10) as u8);
        m /= 10;
    }
    if neg {
        digits.push(b'-');
    }
    digits.reverse();
    String::from_utf8(digits).unwrap()
}

#[derive(Clone, Copy, Debug, PartialEq, Eq, Hash, PartialOrd, Ord)]
pub enum FArith {
    Add,
    Sub,
    Mul,
    Div,
}
pub const FARITH: [FArith; 4] = [FArith::Add, FArith::Sub, FArith::Mul, FArith::Div];
impl FArith {
    pub fn name(self) -> &'static str {
        match self {
            | FArith::Add => "add",
            | FArith::Sub => "sub",
            | FArith::Mul => "mul",
            | FArith::Div => "div",
        }
    }
}

pub fn f64_arith(op: FArith, a: u64, b: u64) -> u64 {
    let (a, b) = (f64::from_bits(a), f64::from_bits(b));
    (match op {
        | FArith::Add => a + b,
        | FArith::Sub => a - b,
        | FArith::Mul => a * b,
        | FArith::Div => a / b,
    })
    .to_bits()
}
pub fn f32_arith(op: FArith, a: u32, b: u32) -> u32 {
    let (a, b) = (f32::from_bits(a), f32::from_bits(b));
    (match op {
        | FArith::Add => a + b,
        | FArith::Sub => a - b,
        | FArith::Mul => a * b,
        | FArith::Div => a / b,
    })
    .to_bits()
}
pub fn f64_cmp(op: Cmp, a: u64, b: u64) -> bool {
    let (a, b) = (f64::from_bits(a), f64::from_bits(b));
    match op {
        | Cmp::Eq => a == b,
        | Cmp::Lt => a < b,
        | Cmp::Gt => a > b,
    }
}
pub fn f32_cmp(op: Cmp, a: u32, b: u32) -> bool {
    let (a, b) = (f32::from_bits(a), f32::from_bits(b));
    match op {
        | Cmp::Eq => a == b,
        | Cmp::Lt => a < b,
        | Cmp::Gt => a > b,
    }
}

/// Validity predicate for a float rendering: parses back to exactly the same bits (any NaN for NaN).
pub fn f64_render_ok(bits: u64, text: &str) -> bool {
    let v = f64::from_bits(bits);
    match text.parse::<f64>() {
        | Ok(p) => (v.is_nan() && p.is_nan()) || p.to_bits() == bits,
        | Err(_) => false,
    }
}
pub fn f32_render_ok(bits: u32, text: &str) -> bool {
    let v = f32::from_bits(bits);
    match text.parse::<f32>() {
        | Ok(p) => (v.is_nan() && p.is_nan()) || p.to_bits() == bits,
        | Err(_) => false,
    }
}

/* ----------------------------- text operations ---------------------------- */

pub fn str_scalar_len(s: &str) -> i128 {
    s.chars().count() as i128
}
pub fn str_byte_len(s: &str) -> i128 {
    s.len() as i128
}
/// scalar-indexed split; None when the index is out of range
pub fn str_split_at(s: &str, idx: i128) -> Option<(String, String)> {
    if idx < 0 {
        return None;
    }
    let n = s.chars().count() as i128;
    if idx > n {
        return None;
    }
    let a: String = s.chars().take(idx as usize).collect();
    let b: String = s.chars().skip(idx as usize).collect();
    Some((a, b))
}
pub fn str_get(s: &str, idx: i128) -> Option<char> {
    if idx < 0 {
        return None;
    }
    s.chars().nth(idx as usize)
}
pub fn str_split_once(s: &str, sep: char) -> Option<(String, String)> {
    let mut before = String::new();
    let mut it = s.chars();
    while let Some(c) = it.next() {
        if c == sep {
            return Some((before, it.collect()));
        }
        before.push(c);
    }
    None
}
pub fn char_from_codepoint(cp: i128) -> Option<char> {
    if !(0..=0x10FFFF).contains(&cp) {
        return None;
    }
    if (0xD800..=0xDFFF).contains(&cp) {
        return None;
    }
    char::from_u32(cp as u32)
}

#[derive(Clone, Copy, Debug, PartialEq, Eq)]
pub enum ParseVerdict {
    /// must take `some n`
    Some(i64),
    /// must take `none`
    None,
    /// grey zone: either branch; a `some` must carry this value
    Either(i64),
}

/// Contract of `parse_int` / `read_int`: canonical decimal numerals must parse, garbage must not.
pub fn parse_int_contract(s: &str) -> ParseVerdict {
    let (neg, digits) = match s.strip_prefix('-') {
        | Some(r) => (true, r),
        | None => (false, s),
    };
    let plus = s.starts_with('+');
    let digits = if plus { &s[1..] } else { digits };
    if digits.is_empty() || !digits.bytes().all(|b| b.is_ascii_digit()) {
        return ParseVerdict::None;
    }
    // mathematical value
    let mut v: i128 = 0;
    for b in digits.bytes() {
        v = v * 10 + (b - b'0') as i128;
        if v > (1i128 << 70) {
            return ParseVerdict::None;
        }
    }
    if neg {
        v = -v;
    }
    if v < i64::MIN as i128 || v > i64::MAX as i128 {
        return ParseVerdict::None;
    }
    let canonical = !plus && (digits == "0" || !digits.starts_with('0')) && !(neg && digits == "0");
    if canonical { ParseVerdict::Some(v as i64) } else { ParseVerdict::Either(v as i64) }
}

/* ------------------------- operations by host name ------------------------ */

/// A host-level value as the model sees it.  Thunks / closures / continuations are opaque: the model
/// only ever *selects* one of them by argument position.
#[derive(Clone, Debug, PartialEq)]
pub enum HV {
    Int(IntTy, i128),
    F64(u64),
    F32(u32),
    Str(String),
    Char(char),
    Bytes(Vec<u8>),
    Unit,
    Opaque,
}

#[derive(Clone, Debug, PartialEq)]
pub enum HOut {
    /// continue with a result value
    Ret(HV),
    /// force the thunk that was passed as argument number `.0`, applied to the given values
    Select(usize, Vec<HV>),
    Exit(i32),
    /// integer division or remainder by zero
    Trap,
    /// the contract leaves the outcome open (grey zone): no obligation
    Undetermined(String),
}

pub struct HostIo<'s> {
    pub stdin: &'s [u8],
    pub pos: usize,
    pub out: Vec<u8>,
}

impl<'s> HostIo<'s> {
    pub fn new(stdin: &'s [u8]) -> Self {
        HostIo { stdin, pos: 0, out: vec![] }
    }
    /// line discipline of the legacy stdio roles: up to and including '\n'; strip "\n" or "\r\n"
    pub fn line(&mut self) -> Result<String, String> {
        let rest = &self.stdin[self.pos..];
        let end = rest.iter().position(|b| *b == b'\n').map(|i| i + 1).unwrap_or(rest.len());
        let mut line = rest[..end].to_vec();
        self.pos += end;
        if line.last() == Some(&b'\n') {
            line.pop();
            if line.last() == Some(&b'\r') {
                line.pop();
            }
        }
        String::from_utf8(line).map_err(|_| "invalid UTF-8 on stdin (outside the modelled domain)".to_string())
    }
}

fn parse_int_ty(name: &str) -> Option<(IntTy, &str)> {
    for t in INT_TYS {
        if let Some(rest) = name.strip_prefix(t.pkg()) {
            if let Some(rest) = rest.strip_prefix('_') {
                return Some((t, rest));
            }
        }
    }
    None
}

/// Arity of a host symbol (number of argument frames it consumes), by host name.
pub fn host_arity(name: &str) -> Option<usize> {
    if let Some((_, op)) = parse_int_ty(name) {
        return match op {
            | "add" | "sub" | "mul" | "div" | "mod" => Some(2),
            | "eq_branch" | "lt_branch" | "gt_branch" => Some(4),
            | "to_string" => Some(1),
            | _ => None,
        };
    }
    for f in ["float32_", "float64_"] {
        if let Some(op) = name.strip_prefix(f) {
            return match op {
                | "add" | "sub" | "mul" | "div" => Some(2),
                | "eq_branch" | "lt_branch" | "gt_branch" => Some(4),
                | "to_string" => Some(1),
                | _ => None,
            };
        }
    }
    Some(match name {
        | "bytes_empty" | "stdin" | "stdout" | "stderr" => 0,
        | "random_int" => 1,
        | "arg_fold" => 2,
        | "io_read_all" | "io_flush" | "io_close_reader" | "io_close_writer" | "fs_open_reader" | "fs_create_writer"
        | "fs_append_writer" => 3,
        | "io_read" | "io_read_line" | "io_write_all" => 4,
        | "str_scalar_length" | "str_byte_length" | "char_to_str" | "char_codepoint" | "read_line" | "exit"
        | "read_till_eof" | "bytes_length" | "bytes_from_str" => 1,
        | "str_append" | "write_str" | "write_line" | "write_int" | "read_line_as_int_branch" | "bytes_append" => 2,
        | "char_from_codepoint_branch" | "str_parse_int_branch" | "bytes_to_str_branch" => 3,
        | "str_eq_branch" | "str_get_branch" | "str_split_at_branch" | "str_split_once_branch" => 4,
        | _ => return None,
    })
}

/// The model of one host operation, addressed by its host symbol name.
pub fn host_call(name: &str, args: &[HV], io: &mut HostIo) -> Result<HOut, String> {
    let int = |i: usize| match args.get(i) {
        | Some(HV::Int(_, n)) => Ok(*n),
        | o => Err(format!("host {name}: argument {i} should be an integer, got {o:?}")),
    };
    let int_at = |i: usize, t: IntTy| match args.get(i) {
        | Some(HV::Int(t2, n)) if *t2 == t => Ok(*n),
        | o => Err(format!("host {name}: argument {i} should be {t:?}, got {o:?}")),
    };
    let st = |i: usize| match args.get(i) {
        | Some(HV::Str(s)) => Ok(s.clone()),
        | o => Err(format!("host {name}: argument {i} should be a string, got {o:?}")),
    };
    let f64a = |i: usize| match args.get(i) {
        | Some(HV::F64(b)) => Ok(*b),
        | o => Err(format!("host {name}: argument {i} should be Float64, got {o:?}")),
    };
    let f32a = |i: usize| match args.get(i) {
        | Some(HV::F32(b)) => Ok(*b),
        | o => Err(format!("host {name}: argument {i} should be Float32, got {o:?}")),
    };
    let ch = |i: usize| match args.get(i) {
        | Some(HV::Char(c)) => Ok(*c),
        | o => Err(format!("host {name}: argument {i} should be a char, got {o:?}")),
    };
    let by = |i: usize| match args.get(i) {
        | Some(HV::Bytes(b)) => Ok(b.clone()),
        | o => Err(format!("host {name}: argument {i} should be a byte buffer, got {o:?}")),
    };
    let opaque = |i: usize| match args.get(i) {
        | Some(HV::Opaque) => Ok(()),
        | o => Err(format!("host {name}: argument {i} should be a thunk, got {o:?}")),
    };
    let i64v = |n: i128| HV::Int(IntTy::I64, n);
    if let Some(n) = host_arity(name) {
        if args.len() != n {
            return Err(format!("host {name}: expected {n} arguments, got {}", args.len()));
        }
    }
    if let Some((t, op)) = parse_int_ty(name) {
        let arith = |o: Arith| -> Result<HOut, String> {
            Ok(match int_arith(t, o, int_at(0, t)?, int_at(1, t)?) {
                | Some(r) => HOut::Ret(HV::Int(t, r)),
                | None => HOut::Trap,
            })
        };
        let cmp = |o: Cmp| -> Result<HOut, String> {
            opaque(2)?;
            opaque(3)?;
            Ok(HOut::Select(if int_cmp(o, int_at(0, t)?, int_at(1, t)?) { 2 } else { 3 }, vec![]))
        };
        return match op {
            | "add" => arith(Arith::Add),
            | "sub" => arith(Arith::Sub),
            | "mul" => arith(Arith::Mul),
            | "div" => arith(Arith::Div),
            | "mod" => arith(Arith::Mod),
            | "eq_branch" => cmp(Cmp::Eq),
            | "lt_branch" => cmp(Cmp::Lt),
            | "gt_branch" => cmp(Cmp::Gt),
            | "to_string" => Ok(HOut::Ret(HV::Str(int_to_string(int_at(0, t)?)))),
            | _ => Err(format!("unknown host operation {name}")),
        };
    }
    if let Some(op) = name.strip_prefix("float64_") {
        let ar = |o: FArith| -> Result<HOut, String> { Ok(HOut::Ret(HV::F64(f64_arith(o, f64a(0)?, f64a(1)?)))) };
        let cm = |o: Cmp| -> Result<HOut, String> {
            Ok(HOut::Select(if f64_cmp(o, f64a(0)?, f64a(1)?) { 2 } else { 3 }, vec![]))
        };
        return match op {
            | "add" => ar(FArith::Add),
            | "sub" => ar(FArith::Sub),
            | "mul" => ar(FArith::Mul),
            | "div" => ar(FArith::Div),
            | "eq_branch" => cm(Cmp::Eq),
            | "lt_branch" => cm(Cmp::Lt),
            | "gt_branch" => cm(Cmp::Gt),
            | "to_string" => Ok(HOut::Undetermined("float rendering has many valid spellings".into())),
            | _ => Err(format!("unknown host operation {name}")),
        };
    }
    if let Some(op) = name.strip_prefix("float32_") {
        let ar = |o: FArith| -> Result<HOut, String> { Ok(HOut::Ret(HV::F32(f32_arith(o, f32a(0)?, f32a(1)?)))) };
        let cm = |o: Cmp| -> Result<HOut, String> {
            Ok(HOut::Select(if f32_cmp(o, f32a(0)?, f32a(1)?) { 2 } else { 3 }, vec![]))
        };
        return match op {
            | "add" => ar(FArith::Add),
            | "sub" => ar(FArith::Sub),
            | "mul" => ar(FArith::Mul),
            | "div" => ar(FArith::Div),
            | "eq_branch" => cm(Cmp::Eq),
            | "lt_branch" => cm(Cmp::Lt),
            | "gt_branch" => cm(Cmp::Gt),
            | "to_string" => Ok(HOut::Undetermined("float rendering has many valid spellings".into())),
            | _ => Err(format!("unknown host operation {name}")),
        };
    }
    Ok(match name {
        | "str_scalar_length" => HOut::Ret(i64v(str_scalar_len(&st(0)?))),
        | "str_byte_length" => HOut::Ret(i64v(str_byte_len(&st(0)?))),
        | "str_append" => {
            let mut s = st(0)?;
            s.push_str(&st(1)?);
            HOut::Ret(HV::Str(s))
        }
        | "str_eq_branch" => HOut::Select(if st(0)? == st(1)? { 2 } else { 3 }, vec![]),
        | "str_get_branch" => match str_get(&st(0)?, int(1)?) {
            | None => HOut::Select(2, vec![]),
            | Some(c) => HOut::Select(3, vec![HV::Char(c)]),
        },
        | "str_split_at_branch" => match str_split_at(&st(0)?, int(1)?) {
            | None => HOut::Select(2, vec![]),
            | Some((a, b)) => HOut::Select(3, vec![HV::Str(a), HV::Str(b)]),
        },
        | "str_split_once_branch" => match str_split_once(&st(0)?, ch(1)?) {
            | None => HOut::Select(2, vec![]),
            | Some((a, b)) => HOut::Select(3, vec![HV::Str(a), HV::Str(b)]),
        },
        | "bytes_empty" => HOut::Ret(HV::Bytes(vec![])),
        | "bytes_length" => HOut::Ret(i64v(by(0)?.len() as i128)),
        | "bytes_append" => {
            let mut b = by(0)?;
            b.extend(by(1)?);
            HOut::Ret(HV::Bytes(b))
        }
        | "bytes_from_str" => HOut::Ret(HV::Bytes(st(0)?.into_bytes())),
        | "bytes_to_str_branch" => match String::from_utf8(by(0)?) {
            | Err(_) => HOut::Select(1, vec![]),
            | Ok(s) => HOut::Select(2, vec![HV::Str(s)]),
        },
        | "char_to_str" => HOut::Ret(HV::Str(ch(0)?.to_string())),
        | "char_codepoint" => HOut::Ret(i64v(ch(0)? as u32 as i128)),
        | "char_from_codepoint_branch" => match char_from_codepoint(int(0)?) {
            | None => HOut::Select(1, vec![]),
            | Some(c) => HOut::Select(2, vec![HV::Char(c)]),
        },
        | "str_parse_int_branch" => match parse_int_contract(&st(0)?) {
            | ParseVerdict::None => HOut::Select(1, vec![]),
            | ParseVerdict::Some(n) => HOut::Select(2, vec![i64v(n as i128)]),
            | ParseVerdict::Either(_) => HOut::Undetermined("parse_int on a non-canonical numeral".into()),
        },
        | "write_line" => {
            io.out.extend_from_slice(st(0)?.as_bytes());
            io.out.push(b'\n');
            HOut::Select(1, vec![])
        }
        | "write_str" => {
            io.out.extend_from_slice(st(0)?.as_bytes());
            HOut::Select(1, vec![])
        }
        | "write_int" => {
            io.out.extend_from_slice(int_to_string(int(0)?).as_bytes());
            HOut::Select(1, vec![])
        }
        | "read_line" => {
            let line = io.line()?;
            HOut::Select(0, vec![HV::Str(line)])
        }
        | "read_till_eof" => {
            let rest = io.stdin[io.pos..].to_vec();
            io.pos = io.stdin.len();
            let s = String::from_utf8(rest).map_err(|_| "invalid UTF-8 on stdin".to_string())?;
            HOut::Select(0, vec![HV::Str(s)])
        }
        | "read_line_as_int_branch" => {
            let line = io.line()?;
            match parse_int_contract(&line) {
                | ParseVerdict::None => HOut::Select(0, vec![]),
                | ParseVerdict::Some(n) => HOut::Select(1, vec![i64v(n as i128)]),
                | ParseVerdict::Either(_) => HOut::Undetermined("read_int on a non-canonical numeral".into()),
            }
        }
        | "exit" => HOut::Exit(int(0)? as i64 as i32),
        | other => return Err(format!("host operation {other} is outside the model used by generated programs")),
    })
}
