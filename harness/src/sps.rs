//! M-sps: reference machine for first-order stack-passing programs (`SpsLowProgram`).
//!
//! It interprets the public arena under the semantics stated in `lang/stackir/src/sps_low/syntax.rs`
//! and `docs/logs/paper-aligned-stackir.md`:
//!   * a block body runs in an environment containing **only its own label** (first-order: anything
//!     else must arrive through the stack);
//!   * `jump v ! s` evaluates target and stack expression and transfers;
//!   * `let arg(p) :: • = s` pops an argument frame, `cocase` pops a tag frame and dispatches on the
//!     numeric tag index, `open-closure` / `open-continuation` unpack packages;
//!   * products are matched positionally along the physical layout;
//!   * an extern call pops `arity` argument frames and consults the host model: a returning call
//!     feeds its value to the continuation package on top of the remaining stack, a control call
//!     forces the selected closure (`jump code ! arg(env) :: args… :: rest`).
//! A machine that cannot make a step (unbound variable, wrong frame kind, missing tag) is *stuck*.

use crate::hmodel::{self, HOut, HV, HostIo, IntTy};
use std::collections::HashMap;
use std::rc::Rc;
use zydeco_stackir::SpsLowProgram;
use zydeco_stackir::sps_low::syntax::*;

#[derive(Clone, Debug)]
pub enum V {
    Lit(HV),
    Unit,
    /// flat physical fields
    Prod(Rc<Vec<V>>),
    Ctor(usize, Rc<V>),
    Block(DefId, CompuId),
    Closure(Rc<V>, Rc<V>),
}

#[derive(Clone, Debug)]
pub enum S {
    Bottom,
    Arg(V, Rc<S>),
    Tag(usize, Rc<S>),
    Kont(V, Rc<S>),
}

#[derive(Clone, Debug, PartialEq, Eq)]
pub enum SEnd {
    Exit(i32),
    Trap,
    OutOfFuel,
    Undetermined(String),
    /// the machine cannot step: the lowered program is wrong (or uses a form outside the model)
    Stuck(String),
}

pub struct SRun {
    pub stdout: Vec<u8>,
    pub end: SEnd,
    pub steps: u64,
}

type Env = im::HashMap<DefId, V>;

struct M<'p> {
    arena: &'p SpsLowInnerArena,
    builtins: &'p BuiltinMap,
}

fn lit(l: &Literal) -> Result<V, String> {
    Ok(V::Lit(match l {
        | Literal::Integer(i) => match i {
            | IntegerLiteral::Int8(v) => HV::Int(IntTy::I8, *v as i128),
            | IntegerLiteral::Int16(v) => HV::Int(IntTy::I16, *v as i128),
            | IntegerLiteral::Int32(v) => HV::Int(IntTy::I32, *v as i128),
            | IntegerLiteral::Int64(v) => HV::Int(IntTy::I64, *v as i128),
            | IntegerLiteral::UInt8(v) => HV::Int(IntTy::U8, *v as i128),
            | IntegerLiteral::UInt16(v) => HV::Int(IntTy::U16, *v as i128),
            | IntegerLiteral::UInt32(v) => HV::Int(IntTy::U32, *v as i128),
            | IntegerLiteral::UInt64(v) => HV::Int(IntTy::U64, *v as i128),
            | IntegerLiteral::Unresolved(_) => return Err("unresolved integer literal in lowered program".into()),
        },
        | Literal::Float(f) => match f {
            | FloatLiteral::Float32(b) => HV::F32(*b),
            | FloatLiteral::Float64(b) => HV::F64(*b),
        },
        | Literal::String(s) => HV::Str(s.as_str().to_string()),
        | Literal::Char(c) => HV::Char(*c),
    }))
}

impl<'p> M<'p> {
    fn value(&self, id: ValueId, env: &Env) -> Result<V, String> {
        Ok(match &self.arena.values[&id] {
            | Value::Hole(_) => return Err("hole value".into()),
            | Value::Var(d) => env.get(d).cloned().ok_or_else(|| format!("unbound variable {d:?} (implicit capture?)"))?,
            | Value::Block(b) => V::Block(b.label, b.body),
            | Value::ClosurePackage(c) => {
                V::Closure(Rc::new(self.value(c.environment, env)?), Rc::new(self.value(c.code, env)?))
            }
            | Value::Ctor(Ctor(idx, payload)) => V::Ctor(idx.idx, Rc::new(self.value(*payload, env)?)),
            | Value::Triv(_) => V::Unit,
            | Value::VCons(vc) => {
                let items: Vec<ValueId> = vc.items.iter().copied().collect();
                let mut fields = vec![];
                for (i, it) in items.iter().enumerate() {
                    let v = self.value(*it, env)?;
                    if i + 1 == items.len() && items.len() < vc.layout.arity {
                        // the last logical item carries the suffix product
                        match v {
                            | V::Prod(rest) => fields.extend(rest.iter().cloned()),
                            | other => {
                                return Err(format!(
                                    "product of arity {} built from {} items whose tail is not a product: {other:?}",
                                    vc.layout.arity,
                                    items.len()
                                ));
                            }
                        }
                    } else {
                        fields.push(v);
                    }
                }
                if fields.len() != vc.layout.arity {
                    return Err(format!("product layout arity {} but {} fields", vc.layout.arity, fields.len()));
                }
                V::Prod(Rc::new(fields))
            }
            | Value::Literal(l) => lit(l)?,
            | Value::Complex(c) => return Err(format!("complex operator value `{}` is outside the model", c.operator)),
        })
    }

    fn stack(&self, id: StackId, env: &Env, ambient: &Rc<S>) -> Result<Rc<S>, String> {
        Ok(match &self.arena.stacks[&id] {
            | Stack::Var(_) => ambient.clone(),
            | Stack::Arg(Cons(v, s)) => Rc::new(S::Arg(self.value(*v, env)?, self.stack(*s, env, ambient)?)),
            | Stack::Tag(Cons(d, s)) => Rc::new(S::Tag(d.idx, self.stack(*s, env, ambient)?)),
            | Stack::ContinuationPackage(k) => {
                Rc::new(S::Kont(self.value(k.code, env)?, self.stack(k.residual, env, ambient)?))
            }
        })
    }

    /// `Ok(false)`: a refutable pattern (constructor) did not match.
    fn bind(&self, pat: VPatId, v: &V, env: &mut Env) -> Result<bool, String> {
        match &self.arena.vpats[&pat] {
            | ValuePattern::Hole(_) => Ok(true),
            | ValuePattern::Var(d) => {
                env.insert(*d, v.clone());
                Ok(true)
            }
            | ValuePattern::Triv(_) => match v {
                | V::Unit => Ok(true),
                | other => Err(format!("unit pattern against {other:?}")),
            },
            | ValuePattern::Ctor(Ctor(idx, inner)) => match v {
                | V::Ctor(i, payload) => {
                    if *i == idx.idx {
                        self.bind(*inner, payload, env)
                    } else {
                        Ok(false)
                    }
                }
                | other => Err(format!("constructor pattern against {other:?}")),
            },
            | ValuePattern::Alias(Alias(pats)) => {
                for p in pats.iter() {
                    if !self.bind(*p, v, env)? {
                        return Ok(false);
                    }
                }
                Ok(true)
            }
            | ValuePattern::VCons(vc) => {
                let V::Prod(fields) = v else { return Err(format!("product pattern against {v:?}")) };
                if fields.len() != vc.layout.arity {
                    return Err(format!(
                        "product pattern of physical arity {} against a value with {} fields",
                        vc.layout.arity,
                        fields.len()
                    ));
                }
                let items: Vec<VPatId> = vc.items.iter().copied().collect();
                for (i, p) in items.iter().enumerate() {
                    let ok = if i + 1 == items.len() && items.len() < vc.layout.arity {
                        let rest = V::Prod(Rc::new(fields[i..].to_vec()));
                        self.bind(*p, &rest, env)?
                    } else {
                        self.bind(*p, &fields[i], env)?
                    };
                    if !ok {
                        return Ok(false);
                    }
                }
                Ok(true)
            }
        }
    }
}

fn to_hv(v: &V) -> HV {
    match v {
        | V::Lit(h) => h.clone(),
        | V::Unit => HV::Unit,
        | _ => HV::Opaque,
    }
}

/// Run a lowered program under the reference semantics.
pub fn run(prog: &SpsLowProgram, stdin: &[u8], fuel: u64) -> SRun {
    let arena = prog.arena();
    let m = M { arena: &arena.inner, builtins: &arena.admin.builtins };
    let mut io = HostIo::new(stdin);
    let mut steps = 0u64;
    let mut cur: CompuId = prog.root();
    let mut env: Env = HashMap::new().into_iter().collect();
    let mut ambient: Rc<S> = Rc::new(S::Bottom);
    let end = loop {
        if steps >= fuel {
            break SEnd::OutOfFuel;
        }
        steps += 1;
        let step: Result<Option<SEnd>, String> = (|| {
            match &m.arena.compus[&cur] {
                | Computation::Hole(_) => return Err("hole computation".into()),
                | Computation::Jump(j) => {
                    let target = m.value(j.target, &env)?;
                    let stack = m.stack(j.stack, &env, &ambient)?;
                    let V::Block(label, body) = target.clone() else {
                        return Err(format!("jump to a non-block {target:?}"));
                    };
                    let mut e: Env = Env::new();
                    e.insert(label, target);
                    env = e;
                    ambient = stack;
                    cur = body;
                }
                | Computation::ProductMatch(pm) => {
                    let v = m.value(pm.scrut, &env)?;
                    if !m.bind(pm.binder, &v, &mut env)? {
                        return Err("refutable pattern failed in product match".into());
                    }
                    cur = pm.body;
                }
                | Computation::LetValue(lv) => {
                    let v = m.value(lv.bindee, &env)?;
                    if !m.bind(lv.binder, &v, &mut env)? {
                        return Err("refutable pattern failed in value let".into());
                    }
                    cur = lv.body;
                }
                | Computation::CoprodMatch(cm) => {
                    let v = m.value(cm.scrut, &env)?;
                    let mut next = None;
                    for arm in &cm.arms {
                        let mut e2 = env.clone();
                        if m.bind(arm.binder, &v, &mut e2)? {
                            next = Some((arm.tail, e2));
                            break;
                        }
                    }
                    let Some((tail, e2)) = next else { return Err(format!("no coproduct arm matches {v:?}")) };
                    env = e2;
                    cur = tail;
                }
                | Computation::LetStack(ls) => {
                    ambient = m.stack(ls.bindee, &env, &ambient)?;
                    cur = ls.body;
                }
                | Computation::LetArg(la) => {
                    let s = m.stack(la.bindee, &env, &ambient)?;
                    let S::Arg(v, rest) = &*s else {
                        return Err(format!("argument pop from a stack whose top is {}", top_kind(&s)));
                    };
                    if !m.bind(la.binder, v, &mut env)? {
                        return Err("refutable pattern failed in argument pop".into());
                    }
                    ambient = rest.clone();
                    cur = la.body;
                }
                | Computation::CoCase(cc) => {
                    let s = m.stack(cc.scrut, &env, &ambient)?;
                    let S::Tag(idx, rest) = &*s else {
                        return Err(format!("cocase on a stack whose top is {}", top_kind(&s)));
                    };
                    let Some(arm) = cc.arms.iter().find(|a| a.dtor.0.idx == *idx) else {
                        return Err(format!("cocase has no arm for tag {idx}"));
                    };
                    ambient = rest.clone();
                    cur = arm.tail;
                }
                | Computation::OpenClosure(oc) => {
                    let v = m.value(oc.package, &env)?;
                    let V::Closure(e, c) = &v else { return Err(format!("open-closure of {v:?}")) };
                    if !m.bind(oc.environment, e, &mut env)? || !m.bind(oc.code, c, &mut env)? {
                        return Err("refutable pattern in open-closure".into());
                    }
                    cur = oc.body;
                }
                | Computation::OpenContinuation(oc) => {
                    let s = m.stack(oc.package, &env, &ambient)?;
                    let S::Kont(code, residual) = &*s else {
                        return Err(format!("open-continuation on a stack whose top is {}", top_kind(&s)));
                    };
                    if !m.bind(oc.code, code, &mut env)? {
                        return Err("refutable pattern in open-continuation".into());
                    }
                    ambient = residual.clone();
                    cur = oc.body;
                }
                | Computation::ExternCall(ec) => {
                    let mut s = m.stack(ec.stack, &env, &ambient)?;
                    let Some(b) = m.builtins.get(&ec.function) else {
                        return Err(format!("extern `{}` is not declared", ec.function));
                    };
                    if let Some(n) = hmodel::host_arity(&ec.function) {
                        if n != b.arity {
                            return Err(format!(
                                "extern `{}` declared with arity {} but the host role takes {n} arguments",
                                ec.function, b.arity
                            ));
                        }
                    }
                    let mut args = vec![];
                    for _ in 0..b.arity {
                        let S::Arg(v, rest) = &*s.clone() else {
                            return Err(format!(
                                "extern `{}` needs {} argument frames; stack top is {}",
                                ec.function,
                                b.arity,
                                top_kind(&s)
                            ));
                        };
                        args.push(v.clone());
                        s = rest.clone();
                    }
                    let hargs: Vec<HV> = args.iter().map(to_hv).collect();
                    match hmodel::host_call(&ec.function, &hargs, &mut io)? {
                        | HOut::Exit(c) => return Ok(Some(SEnd::Exit(c))),
                        | HOut::Trap => return Ok(Some(SEnd::Trap)),
                        | HOut::Undetermined(w) => return Ok(Some(SEnd::Undetermined(w))),
                        | HOut::Ret(v) => {
                            if !matches!(b.sort, BuiltinSort::Function(HostCallMode::Returning)) {
                                return Err(format!("host `{}` returns a value but is declared {:?}", ec.function, b.sort));
                            }
                            // feed the value to the continuation package on top of the remaining stack
                            let S::Kont(code, residual) = &*s else {
                                return Err(format!(
                                    "returning extern `{}` without a continuation on top (found {})",
                                    ec.function,
                                    top_kind(&s)
                                ));
                            };
                            let V::Block(label, body) = code.clone() else {
                                return Err("continuation code is not a block".into());
                            };
                            let mut e = Env::new();
                            e.insert(label, code.clone());
                            env = e;
                            ambient = Rc::new(S::Arg(V::Lit(v), residual.clone()));
                            cur = body;
                        }
                        | HOut::Select(i, vs) => {
                            if !matches!(b.sort, BuiltinSort::Function(HostCallMode::Control)) {
                                return Err(format!("host `{}` selects a continuation but is declared {:?}", ec.function, b.sort));
                            }
                            let V::Closure(cenv, code) = &args[i] else {
                                return Err(format!("selected argument {i} of `{}` is not a closure", ec.function));
                            };
                            let V::Block(label, body) = (**code).clone() else {
                                return Err("closure code is not a block".into());
                            };
                            let mut st = s.clone();
                            for v in vs.into_iter().rev() {
                                st = Rc::new(S::Arg(V::Lit(v), st));
                            }
                            st = Rc::new(S::Arg((**cenv).clone(), st));
                            let mut e = Env::new();
                            e.insert(label, (**code).clone());
                            env = e;
                            ambient = st;
                            cur = body;
                        }
                    }
                }
            }
            Ok(None)
        })();
        match step {
            | Ok(None) => {}
            | Ok(Some(end)) => break end,
            | Err(why) => break SEnd::Stuck(why),
        }
    };
    SRun { stdout: io.out, end, steps }
}

fn top_kind(s: &S) -> &'static str {
    match s {
        | S::Bottom => "the empty stack",
        | S::Arg(..) => "an argument frame",
        | S::Tag(..) => "a tag frame",
        | S::Kont(..) => "a continuation package",
    }
}
