//! Grammar-directed generator of *syntactically valid* surface terms (not necessarily well scoped
//! or well typed), covering every production of `parser.lalrpop`.  Used by C10 (front end totality)
//! and C12–C14 (formatter).  Output is a token list, so layout is chosen separately.

use crate::engine::Tape;

pub struct Gen<'a, 'b> {
    pub t: &'a mut Tape<'b>,
    pub out: Vec<String>,
    /// names currently "in scope" (best effort; makes resolution succeed often)
    pub scope: Vec<String>,
    pub tyscope: Vec<String>,
    pub budget: usize,
    /// allow extreme literals / odd metadata (C10) or keep to formatter-friendly forms
    pub wild: bool,
}

const LOWER: &[&str] = &["x", "y", "z", "f", "g", "n", "acc", "x'", "go?", "a-b", "_u", "it"];
const UPPER: &[&str] = &["A", "B", "T", "Int64", "String", "Unit", "List", "Opt'"];
const CTORS: &[&str] = &["+A", "+B", "+Nil", "+Cons", "+Some", "+None"];
const DTORS: &[&str] = &[".run", ".a", ".b", ".next", ".head"];
const FIELDS: &[&str] = &["fst", "snd", "get", "put", "name"];

impl<'a, 'b> Gen<'a, 'b> {
    pub fn new(t: &'a mut Tape<'b>, budget: usize, wild: bool) -> Self {
        Gen {
            t,
            out: vec![],
            scope: vec!["int64".into(), "stdio".into(), "exit".into()],
            tyscope: vec!["Int64".into(), "String".into(), "Unit".into(), "Thk".into(), "Ret".into(), "OS".into()],
            budget,
            wild,
        }
    }
    fn p(&mut self, s: &str) {
        self.out.push(s.to_string());
    }
    fn spend(&mut self) -> bool {
        if self.budget == 0 {
            return false;
        }
        self.budget -= 1;
        true
    }
    fn lower(&mut self) -> String {
        if !self.scope.is_empty() && self.t.chance(170) {
            let i = self.t.below(self.scope.len());
            self.scope[self.scope.len() - 1 - i].clone()
        } else {
            self.t.pick(LOWER).to_string()
        }
    }
    fn upper(&mut self) -> String {
        if !self.tyscope.is_empty() && self.t.chance(170) {
            let i = self.t.below(self.tyscope.len());
            self.tyscope[self.tyscope.len() - 1 - i].clone()
        } else {
            self.t.pick(UPPER).to_string()
        }
    }
    fn fresh_lower(&mut self) -> String {
        let n = self.t.pick(LOWER).to_string();
        self.scope.push(n.clone());
        n
    }
    fn fresh_upper(&mut self) -> String {
        let n = self.t.pick(UPPER).to_string();
        self.tyscope.push(n.clone());
        n
    }

    pub fn literal(&mut self) {
        let k = self.t.below(if self.wild { 12 } else { 8 });
        let s: String = match k {
            | 0 => format!("{}", self.t.below(10)),
            | 1 => format!("-{}", self.t.below(300)),
            | 2 => format!("+{}", self.t.below(300)),
            | 3 => ["1.5", "0.0", "-2.25", "1e3", "2.5e-3", "+1.0E+2", "3.14159"][self.t.below(7)].to_string(),
            | 4 => ["\"\"", "\"s\"", "\"two words\"", "\"esc\\n\\t\\\\\\\"\"", "\"-/ not a comment /-\"", "\"-- no\""]
                [self.t.below(6)]
            .to_string(),
            | 5 => ["'c'", "' '", "'\\n'", "'\\''", "'\\\\'", "'|'", "'~'", "'''", "'\"'", "'-'", "'/'"][self.t.below(11)].to_string(),
            | 6 => "9223372036854775807".into(),
            | 7 => "-9223372036854775808".into(),
            | 8 => [
                "9223372036854775808",
                "18446744073709551615",
                "18446744073709551616",
                "170141183460469231731687303715884105727",
                "170141183460469231731687303715884105728",
                "-170141183460469231731687303715884105728",
                "-170141183460469231731687303715884105729",
                "99999999999999999999999999999999999999999999999999",
                "00000000000000000000000000000000000000000000000001",
            ][self.t.below(9)]
            .to_string(),
            | 9 => ["1e400", "-1e400", "1e-400", "1.0e309", "4.9e-324", "1e99999999999999999999", "0.1e+0000000001"]
                [self.t.below(7)]
            .to_string(),
            | 10 => ["\"\\q\"", "\"\\u{41}\"", "\"\\x41\"", "\"\\0\"", "\"tab\there\"", "\"multi\nline\""][self.t.below(6)]
                .to_string(),
            | _ => ["'\\('", "'\\)'", "'\\|'", "'\\r'", "'\\t'"][self.t.below(5)].to_string(),
        };
        self.p(&s);
    }

    pub fn meta(&mut self, depth: usize) {
        let names: &[&str] = &[
            "import", "builtin", "intrinsic", "literal", "format", "doc", "monadic", "debug", "width", "indent",
            "layout", "parentheses", "verbatim", "type", "run", "help", "quit", "preserve", "compact", "minimal",
            "source", "let", "end", "os", "reader", "i64", "int64_add", "exit", "vtype", "thk", "unknownrole",
        ];
        match self.t.below(if depth == 0 { 2 } else { 5 }) {
            | 0 => {
                let n = self.t.pick(names).to_string();
                self.p(&n);
            }
            | 1 => {
                if self.t.flag() {
                    let s = ["\"a.zy\"", "\"\"", "\"../x/../y.zy\"", "\"/nonexistent/q.zy\"", "\"x\"", "\".\""]
                        [self.t.below(6)];
                    self.p(s);
                } else if self.wild {
                    let s = [
                        "0",
                        "1",
                        "-1",
                        "79",
                        "9223372036854775807",
                        "9223372036854775808",
                        "99999999999999999999",
                        "-9223372036854775809",
                        "4294967296",
                        "65536",
                    ][self.t.below(10)];
                    self.p(s);
                } else {
                    let s = ["1", "2", "4", "20", "40", "80", "100"][self.t.below(7)];
                    self.p(s);
                }
            }
            | _ => {
                let n = self.t.pick(names).to_string();
                self.p(&n);
                self.p("(");
                let k = self.t.below(4);
                for i in 0..k {
                    if i > 0 {
                        self.p(",");
                    }
                    self.meta(depth - 1);
                }
                self.p(")");
            }
        }
    }

    pub fn pattern(&mut self, depth: usize) {
        if depth == 0 || !self.spend() {
            if self.t.flag() {
                self.p("_");
            } else {
                let n = self.fresh_lower();
                self.p(&n);
            }
            return;
        }
        match self.t.below(12) {
            | 0 => self.p("_"),
            | 1 | 2 => {
                let n = self.fresh_lower();
                self.p(&n);
            }
            | 3 => {
                let c = self.t.pick(CTORS).to_string();
                self.p(&c);
                self.pattern(depth - 1);
            }
            | 4 => {
                // tuple / unit / paren
                self.p("(");
                let k = self.t.below(4);
                for i in 0..k {
                    if i > 0 {
                        self.p(",");
                    }
                    self.pattern_ann(depth - 1);
                }
                self.p(")");
            }
            | 5 => {
                // alias
                self.p("(");
                self.pattern_ann(depth - 1);
                self.p(";");
                self.pattern_ann(depth - 1);
                if self.t.chance(40) {
                    self.p(";");
                    self.pattern_ann(depth - 1);
                }
                self.p(")");
            }
            | 6 => {
                self.p("(");
                self.pattern_ann(depth - 1);
                self.p(")");
            }
            | 7 => {
                // annotated
                self.p("(");
                let n = if self.t.flag() { self.fresh_lower() } else { self.fresh_upper() };
                self.p(&n);
                self.p(":");
                self.ty(depth - 1);
                self.p(")");
            }
            | 8 => {
                // named group
                self.p("(");
                let k = 1 + self.t.below(3);
                for i in 0..k {
                    if i > 0 {
                        self.p(",");
                    }
                    let f = self.t.pick(FIELDS).to_string();
                    match self.t.below(3) {
                        | 0 => {
                            self.p("=");
                            self.p(&f);
                            self.scope.push(f);
                        }
                        | 1 => {
                            self.p(&f);
                            self.p("=");
                            self.pattern(depth - 1);
                        }
                        | _ => {
                            self.p("=");
                            self.p(&f);
                            self.p(":");
                            self.ty(depth - 1);
                            self.scope.push(f);
                        }
                    }
                }
                self.p(")");
            }
            | 9 => {
                // projection group
                self.p("(");
                let k = 1 + self.t.below(3);
                for i in 0..k {
                    if i > 0 {
                        self.p(";");
                    }
                    let f = self.t.pick(FIELDS).to_string();
                    self.p("/");
                    self.p(&f);
                    if self.t.flag() {
                        self.p("=");
                        self.pattern(depth - 1);
                    } else {
                        self.scope.push(f);
                    }
                }
                if k == 1 || self.t.flag() {
                    self.p(";");
                    let n = self.fresh_lower();
                    self.p(&n);
                }
                self.p(")");
            }
            | 10 => {
                // manifest (X as T)
                self.p("(");
                let n = self.fresh_upper();
                self.p(&n);
                self.p("as");
                self.ty(depth - 1);
                self.p(")");
            }
            | _ => self.p("()"),
        }
    }

    fn pattern_ann(&mut self, depth: usize) {
        if self.t.chance(50) && depth > 0 {
            self.pattern(depth);
            self.p(":");
            self.ty(depth - 1);
        } else {
            self.pattern(depth);
        }
    }

    fn copattern(&mut self, depth: usize, allow_dtor: bool) {
        let k = 1 + self.t.below(3);
        for _ in 0..k {
            if allow_dtor && self.t.chance(50) {
                let d = self.t.pick(DTORS).to_string();
                self.p(&d);
            } else {
                self.pattern(depth.min(2));
            }
        }
    }

    pub fn ty(&mut self, depth: usize) {
        if depth == 0 || !self.spend() {
            let n = self.upper();
            self.p(&n);
            return;
        }
        match self.t.below(16) {
            | 0 | 1 => {
                let n = self.upper();
                self.p(&n);
            }
            | 2 => {
                self.p("Thk");
                self.aty(depth - 1);
            }
            | 3 => {
                self.p("Ret");
                self.aty(depth - 1);
            }
            | 4 => {
                self.aty(depth - 1);
                self.p("->");
                self.ty(depth - 1);
            }
            | 5 => {
                self.aty(depth - 1);
                self.p("*");
                self.ty(depth - 1);
            }
            | 6 => {
                self.p("forall");
                self.p("(");
                let n = self.fresh_upper();
                self.p(&n);
                self.p(":");
                self.kind();
                self.p(")");
                self.p(".");
                self.ty(depth - 1);
            }
            | 7 => {
                self.p("exists");
                let k = 1 + self.t.below(2);
                for _ in 0..k {
                    if self.t.chance(30) {
                        self.p("@");
                        self.p("[");
                        self.meta(1);
                        self.p("]");
                    }
                    self.p("(");
                    let n = self.fresh_upper();
                    // 0–3 nested field wrappers; the outermost or the innermost may be spelled like the binder
                    let k = [0usize, 1, 1, 2, 2, 3][self.t.below(6)];
                    for i in 0..k {
                        let f = if (i == 0 && self.t.chance(90)) || (i + 1 == k && self.t.chance(70)) { n.clone() } else { self.t.pick(FIELDS).to_string() };
                        self.p(&f);
                        self.p("=");
                    }
                    self.p(&n);
                    if self.t.chance(if k >= 2 { 160 } else { 60 }) {
                        self.p("as");
                        self.aty(depth - 1);
                    }
                    if self.t.chance(200) {
                        self.p(":");
                        self.kind();
                    }
                    self.p(")");
                }
                self.p(".");
                self.ty(depth - 1);
            }
            | 8 => {
                self.p("data");
                let k = self.t.below(4);
                for _ in 0..k {
                    self.p("|");
                    let c = self.t.pick(CTORS).to_string();
                    self.p(&c);
                    self.p(":");
                    self.ty(depth - 1);
                }
                self.p("end");
            }
            | 9 => {
                self.p("codata");
                let k = self.t.below(4);
                for _ in 0..k {
                    self.p("|");
                    let d = self.t.pick(DTORS).to_string();
                    self.p(&d);
                    if self.t.chance(60) {
                        self.p("(");
                        let n = self.fresh_lower();
                        self.p(&n);
                        self.p(":");
                        self.ty(depth.saturating_sub(2));
                        self.p(")");
                    }
                    self.p(":");
                    self.ty(depth - 1);
                }
                self.p("end");
            }
            | 10 => {
                // named classifier
                self.p("(");
                let f = self.t.pick(FIELDS).to_string();
                self.p(&f);
                self.p("::");
                self.ty(depth - 1);
                self.p(")");
            }
            | 11 => {
                self.p("pi");
                self.p("(");
                self.pattern(1);
                self.p(":");
                self.ty(depth - 1);
                self.p(")");
                self.p(".");
                self.ty(depth - 1);
            }
            | 12 => {
                self.p("sigma");
                self.p("(");
                let n = self.fresh_upper();
                self.p(&n);
                self.p(":");
                self.kind();
                self.p(")");
                self.p(".");
                self.ty(depth - 1);
            }
            | 13 => {
                // type application / type-level fn
                if self.t.flag() {
                    let n = self.upper();
                    self.p(&n);
                    self.aty(depth - 1);
                } else {
                    self.p("fn");
                    self.p("(");
                    let n = self.fresh_upper();
                    self.p(&n);
                    self.p(":");
                    self.kind();
                    self.p(")");
                    self.p("=>");
                    self.ty(depth - 1);
                }
            }
            | 14 => {
                self.aty(depth - 1);
                self.p("/");
                let f = self.t.pick(FIELDS).to_string();
                self.p(&f);
            }
            | _ => {
                self.p("(");
                self.ty(depth - 1);
                self.p(")");
            }
        }
    }

    fn aty(&mut self, depth: usize) {
        if self.t.chance(120) || depth == 0 {
            let n = self.upper();
            self.p(&n);
        } else {
            self.p("(");
            self.ty(depth);
            self.p(")");
        }
    }

    fn kind(&mut self) {
        match self.t.below(5) {
            | 0 | 1 => self.p("VType"),
            | 2 => self.p("CType"),
            | 3 => {
                self.p("VType");
                self.p("->");
                self.p("CType");
            }
            | _ => {
                self.p("(");
                self.p("VType");
                self.p("->");
                self.p("VType");
                self.p(")");
                self.p("->");
                self.p("CType");
            }
        }
    }

    /// atomic term (grammar level 0/1)
    pub fn atom(&mut self, depth: usize) {
        if depth == 0 || !self.spend() {
            match self.t.below(4) {
                | 0 => self.literal(),
                | 1 => self.p("()"),
                | _ => {
                    let n = self.lower();
                    self.p(&n);
                }
            }
            return;
        }
        match self.t.below(17) {
            | 14 | 15 | 16 => {
                // precedence stress: a parenthesised non-atomic term in an atom position (application argument,
                // projection or destructor head, constructor argument, operand of `!` / `ret`): the parentheses
                // are required or redundant depending on both forms
                self.p("(");
                match self.t.below(8) {
                    | 0 | 1 => {
                        // destructor application
                        self.atom(depth - 1);
                        let d = self.t.pick(DTORS).to_string();
                        self.p(&d);
                        if self.t.chance(80) {
                            self.atom(depth - 1);
                        }
                    }
                    | 2 => {
                        self.atom(depth - 1);
                        self.atom(depth - 1);
                    }
                    | 3 => {
                        self.p("!");
                        self.atom(depth - 1);
                    }
                    | 4 => {
                        self.p("ret");
                        self.atom(depth - 1);
                    }
                    | 5 => {
                        let c = self.t.pick(CTORS).to_string();
                        self.p(&c);
                        self.atom(depth - 1);
                    }
                    | 6 => {
                        self.atom(depth - 1);
                        self.p("/");
                        let f = self.t.pick(FIELDS).to_string();
                        self.p(&f);
                    }
                    | _ => {
                        self.p("fn");
                        let n = self.fresh_lower();
                        self.p(&n);
                        self.p("=>");
                        self.atom(depth - 1);
                    }
                }
                self.p(")");
                // …and sometimes something postfix right after it
                match self.t.below(6) {
                    | 0 => {
                        self.p("/");
                        let f = self.t.pick(FIELDS).to_string();
                        self.p(&f);
                    }
                    | _ => {}
                }
            }
            | 0 | 1 => {
                let n = self.lower();
                self.p(&n);
            }
            | 2 => self.literal(),
            | 3 => {
                self.p("{");
                self.term(depth - 1);
                self.p("}");
            }
            | 4 => {
                // tuple / paren / annotation / named
                self.p("(");
                let k = self.t.below(4);
                for i in 0..k {
                    if i > 0 {
                        self.p(",");
                    }
                    match self.t.below(5) {
                        | 0 => {
                            self.term(depth - 1);
                            self.p(":");
                            self.ty(depth - 1);
                        }
                        | 1 => {
                            let f = self.t.pick(FIELDS).to_string();
                            self.p(&f);
                            self.p("=");
                            self.term(depth - 1);
                        }
                        | 2 => {
                            self.p("=");
                            let f = self.t.pick(FIELDS).to_string();
                            self.p(&f);
                        }
                        | _ => self.term(depth - 1),
                    }
                }
                self.p(")");
            }
            | 5 => {
                let c = self.t.pick(CTORS).to_string();
                self.p(&c);
                self.atom(depth - 1);
            }
            | 6 => {
                self.p("!");
                self.atom(depth - 1);
            }
            | 7 => {
                self.p("ret");
                self.atom(depth - 1);
            }
            | 8 => {
                self.p("begin");
                self.term(depth - 1);
                self.p("end");
            }
            | 9 => {
                self.p("match");
                self.term(depth - 1);
                let k = self.t.below(4);
                for _ in 0..k {
                    let mark = self.scope.len();
                    self.p("|");
                    self.pattern(2);
                    self.p("=>");
                    self.term(depth - 1);
                    self.scope.truncate(mark);
                }
                self.p("end");
            }
            | 10 => {
                self.p("comatch");
                let k = self.t.below(4);
                for _ in 0..k {
                    let mark = self.scope.len();
                    self.p("|");
                    let d = self.t.pick(DTORS).to_string();
                    self.p(&d);
                    if self.t.chance(70) {
                        self.copattern(1, true);
                    }
                    self.p("=>");
                    self.term(depth - 1);
                    self.scope.truncate(mark);
                }
                self.p("end");
            }
            | 11 => {
                self.atom(depth - 1);
                self.p("/");
                let f = self.t.pick(FIELDS).to_string();
                self.p(&f);
            }
            | 12 => self.p("_"),
            | _ => {
                // alternative abstraction syntax
                let mark = self.scope.len();
                self.p("comatch");
                self.copattern(1, false);
                self.p("=>");
                self.term(depth - 1);
                self.p("end");
                self.scope.truncate(mark);
            }
        }
    }

    /// any term
    pub fn term(&mut self, depth: usize) {
        if depth == 0 || !self.spend() {
            self.atom(0);
            return;
        }
        let mark = self.scope.len();
        let tmark = self.tyscope.len();
        match self.t.below(22) {
            | 0 | 1 => self.atom(depth),
            | 2 | 3 => {
                // application spine
                self.atom(depth - 1);
                let k = 1 + self.t.below(3);
                for _ in 0..k {
                    if self.t.chance(40) {
                        let d = self.t.pick(DTORS).to_string();
                        self.p(&d);
                    } else {
                        self.atom(depth - 1);
                    }
                }
            }
            | 4 => {
                self.p("fn");
                self.copattern(2, false);
                self.p("=>");
                self.term(depth - 1);
            }
            | 5 => {
                self.p("fix");
                self.pattern(1);
                self.p("=>");
                self.term(depth - 1);
            }
            | 6 | 7 => {
                self.p("do");
                let inner = self.scope.len();
                self.pattern(2);
                let bound: Vec<String> = self.scope.drain(inner..).collect();
                self.p("<-");
                self.term(depth - 1);
                self.p(";");
                self.scope.extend(bound);
                self.term(depth - 1);
            }
            | 8 | 9 | 10 => {
                // let / def with binding sugar
                let kw = if self.t.flag() { "let" } else if self.t.flag() { "def" } else { "define" };
                self.p(kw);
                let bang = self.t.chance(60);
                let fix = self.t.chance(40);
                if bang {
                    self.p("!");
                }
                if fix {
                    self.p("fix");
                }
                let inner = self.scope.len();
                if self.t.chance(60) {
                    let n = self.fresh_upper();
                    self.p(&n);
                } else {
                    self.pattern(2);
                }
                if self.t.chance(80) {
                    self.copattern(1, false);
                }
                if self.t.chance(100) {
                    self.p(":");
                    self.ty(depth - 1);
                }
                let bound: Vec<String> = self.scope.drain(inner..).collect();
                self.p("=");
                if self.t.chance(70) {
                    self.ty(depth - 1);
                } else {
                    self.term(depth - 1);
                }
                self.scope.extend(bound);
                let kw = if self.t.chance(70) { "that" } else { "in" };
                self.p(kw);
                self.term(depth - 1);
            }
            | 11 => {
                self.p("param");
                self.pattern_ann(2);
                let kw = if self.t.chance(70) { "that" } else { "in" };
                self.p(kw);
                self.term(depth - 1);
            }
            | 12 => {
                self.p("@");
                self.p("[");
                self.meta(2);
                self.p("]");
                self.term(depth - 1);
            }
            | 13 => {
                self.p("@");
                self.p("(");
                self.meta(2);
                self.p(")");
            }
            | 14 | 15 => self.ty(depth),
            | 16 => {
                // format directive around a term
                self.p("@");
                self.p("[");
                self.p("format");
                self.p("(");
                let k = 1 + self.t.below(3);
                for i in 0..k {
                    if i > 0 {
                        self.p(",");
                    }
                    match self.t.below(5) {
                        | 0 => {
                            self.p("width");
                            self.p("(");
                            let w = ["1", "2", "3", "5", "8", "13", "20", "40", "79", "80", "100", "200"][self.t.below(12)];
                            self.p(w);
                            self.p(")");
                        }
                        | 1 => {
                            self.p("indent");
                            self.p("(");
                            let w = ["1", "2", "3", "4", "8"][self.t.below(5)];
                            self.p(w);
                            self.p(")");
                        }
                        | 2 => {
                            self.p("layout");
                            self.p("(");
                            let w = ["preserve", "compact", "canonical", "source", "fresh"][self.t.below(5)];
                            self.p(w);
                            self.p(")");
                        }
                        | 3 => {
                            self.p("parentheses");
                            self.p("(");
                            let w = ["preserve", "minimal", "canonical", "source"][self.t.below(4)];
                            self.p(w);
                            self.p(")");
                        }
                        | _ => self.p("verbatim"),
                    }
                }
                self.p(")");
                self.p("]");
                self.term(depth - 1);
            }
            | 17 => {
                // destructor on parenthesised computation
                self.p("(");
                self.term(depth - 1);
                self.p(")");
                let d = self.t.pick(DTORS).to_string();
                self.p(&d);
            }
            | _ => self.atom(depth),
        }
        // lexical scopes end with the term; `that` scopes are approximated
        if self.t.chance(200) {
            self.scope.truncate(mark.max(3));
            self.tyscope.truncate(tmark.max(6));
        }
    }
}

/// Join tokens with a layout chosen from the tape: single spaces, or random newlines/indentation
/// and comments at gaps.
pub fn layout(t: &mut Tape, toks: &[String], comments: bool) -> String {
    let style = t.below(4);
    let mut s = String::new();
    for (i, tok) in toks.iter().enumerate() {
        if i > 0 {
            match style {
                | 0 => s.push(' '),
                | 1 => {
                    if t.chance(50) {
                        s.push('\n');
                        for _ in 0..t.below(6) {
                            s.push(' ');
                        }
                    } else {
                        s.push(' ');
                    }
                }
                | 2 => {
                    s.push('\n');
                }
                | _ => {
                    let b = t.byte();
                    if b < 170 {
                        s.push(' ');
                    } else if b < 220 {
                        s.push('\n');
                    } else if b < 240 {
                        s.push_str("\n\n  ");
                    } else {
                        s.push_str("  \t ");
                    }
                }
            }
            if comments && t.chance(18) {
                match t.below(9) {
                    | 0 => s.push_str("-- line comment\n"),
                    | 1 => s.push_str("/- block -/ "),
                    | 2 => s.push_str("/- nested /- inner -/ outer -/\n"),
                    | 3 => s.push_str("--| text block\n"),
                    | 4 => s.push_str("-- see [note] ) } end\n"),
                    | 5 => s.push_str("/- keep [as written] ( { -/ "),
                    | 6 => s.push_str("--\n"),
                    | 7 => s.push_str("--| doc ] text\n--|\n"),
                    | _ => s.push_str("/- multi\n   line -/ "),
                }
            }
        }
        s.push_str(tok);
    }
    if t.flag() {
        s.push('\n');
    }
    s
}
