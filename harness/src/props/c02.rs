//! C02 — interpreter behaviour equals call-by-push-value reference semantics.

use crate::core::eval::REnd;
use crate::core::generate::Cfg;
use crate::core::harness as h;
use crate::core::print::{self, Names, Style};
use crate::drive::{Analyzed, RunEnd};
use crate::engine::*;
use serde_json::{Value, json};

pub fn style_from(t: &mut Tape) -> Style {
    Style {
        regroup: t.flag(),
        extra_parens: t.chance(60),
        merge_fn: t.flag(),
        def_values: t.chance(60),
        annotate_coparams: t.flag(),
        blocks: t.chance(50),
        fn_as_comatch: t.chance(70),
    }
}

pub fn nontrivial(feats: &std::collections::BTreeMap<&'static str, u32>, stdout: &[u8]) -> bool {
    let lines = stdout.iter().filter(|b| **b == b'\n').count();
    let interesting = [
        "comatch", "destructor", "fix-counter", "fix-structural", "fix-codata", "tuple-pattern", "alias-pattern",
        "call", "nested-pattern", "type-application", "thunk", "beta-redex",
    ]
    .iter()
    .filter(|f| feats.contains_key(*f))
    .count();
    lines >= 2 && interesting >= 2
}

/// One case: program from the tape, printed under several styles, each compared with R-sem.
pub fn check_case(ctx: &Ctx, tape: &[u8], cfg: &Cfg, stats: &mut Stats) -> Result<(), Fail> {
    let g = h::generate(tape, cfg);
    let reference = h::reference_run(&g.prog, &g.stdin, 300_000);
    match &reference.end {
        | REnd::OutOfFuel | REnd::Undetermined(_) => {
            stats.inconclusive += 1;
            stats.count("reference-inconclusive");
            return Ok(());
        }
        | REnd::Stuck(why) => {
            // the generator produced something its own semantics cannot run: harness defect
            return Err(Fail::new(
                "harness-reference-stuck",
                "generated programs to be runnable by the reference machine",
                why.clone(),
            )
            .with(h::render_case(&h::default_print(&ctx.repo_root, &g.prog), &g.stdin, json!({}))));
        }
        | _ => {}
    }
    let names = Names::unique(&g.prog);
    let mut st = Tape::new(if tape.len() > 8 { &tape[tape.len() - 8..] } else { tape });
    let styles = [Style::default(), style_from(&mut st), style_from(&mut st)];
    let dir = thread_dir(ctx);
    for (k, style) in styles.iter().enumerate() {
        stats.eval();
        let text = print::print_program(&ctx.repo_root, &g.prog, &names, style);
        let (_session, analyzed) = h::write_and_analyze(&dir, &text);
        let case = |extra: Value| h::render_case(&text, &g.stdin, extra);
        match analyzed {
            | Analyzed::Panic(p) => {
                return Err(Fail::new(format!("analysis-{}", p.signature()), "analysis to return", p.describe())
                    .with(case(json!({"style": format!("{style:?}")}))));
            }
            | Analyzed::NotAccepted(front) => {
                // completeness of the checker is C03's subject; here the case is discarded
                stats.count("discarded:rejected-by-checker");
                stats.sample(|| json!({"discarded": front.kinds, "source": text}));
                continue;
            }
            | Analyzed::AcceptedOther(_, why) => {
                stats.count("discarded:not-executable");
                let _ = why;
                continue;
            }
            | Analyzed::Executable(exe, _) => {
                let run = h::interp_run(exe, &g.stdin, 3_000_000);
                if matches!(run.end, RunEnd::OutOfFuel) {
                    stats.inconclusive += 1;
                    continue;
                }
                let agree = h::ends_agree(&reference.end, &run.end) && reference.stdout == run.stdout;
                if !agree {
                    let sig = match &run.end {
                        | RunEnd::Stuck { msg, .. } => {
                            format!("interpreter-stuck[{}]", msg.chars().take(40).collect::<String>())
                        }
                        | _ if reference.stdout != run.stdout => "stdout-differs".to_string(),
                        | _ => "end-differs".to_string(),
                    };
                    return Err(Fail::new(
                        sig,
                        format!(
                            "reference: {:?} stdout={:?}",
                            reference.end,
                            String::from_utf8_lossy(&reference.stdout)
                        ),
                        format!("interpreter: {:?} stdout={:?}", run.end, String::from_utf8_lossy(&run.stdout)),
                    )
                    .with(case(json!({"style": format!("{style:?}"), "printing": k}))));
                }
                stats.count(match reference.end {
                    | REnd::Exit(_) => "agree:exit",
                    | REnd::Trap => "agree:trap",
                    | _ => "agree:other",
                });
                if k == 0 {
                    for f in g.feats.keys() {
                        stats.count(&format!("feature:{f}"));
                    }
                    if nontrivial(&g.feats, &reference.stdout) {
                        stats.nontrivial(hash_of(&text));
                        stats.sample(|| {
                            json!({"source": text[text.find("begin\n").unwrap_or(0)..].to_string(),
                                   "stdin": String::from_utf8_lossy(&g.stdin),
                                   "stdout": String::from_utf8_lossy(&reference.stdout),
                                   "end": format!("{:?}", reference.end)})
                        });
                    }
                }
            }
        }
    }
    Ok(())
}

pub fn run(ctx: &Ctx) -> Report {
    let mut report = Report::new(
        "type-directed generated OS programs of the core language (ints at 8 widths, floats, strings, chars, unit, \
         n-ary products in both groupings, recursive data, codata with arguments, higher-order functions, \
         forall over VType/CType, fix, alias/tuple/nested patterns, host operations, stdin), each printed under 3 \
         style combinations and run on a generated stdin; oracle = independent CK machine + host model on the AST; \
         compared: stdout bytes and exit code / trap; plus records: random nested named products (a record in first, middle and last position), values written flat / with nested literal tails / with tail variables, every field path projected in one chain or stepwise, expected = the stored integer; non-trivial = ≥2 output lines and ≥2 of {codata, fix, tuple or \
         alias pattern, call of a bound function, nested pattern, type application, thunk, redex}; distinct by source hash",
    );
    let cfg = ctx.tier.pick(Cfg::quick(), Cfg::thorough());
    let cases = ctx.tier.pick(2_500, 60_000);
    let r = run_tapes(ctx, "generated", cases, 700, |tape, stats| check_case(ctx, tape, &cfg, stats));
    report.absorb(r);
    let cases = ctx.tier.pick(1_200, 40_000);
    let r = run_tapes(ctx, "records", cases, 60, |tape, stats| crate::props::records::check_records(ctx, tape, stats, false));
    report.absorb(r);
    report.assume("R-sem (harness/src/core/eval.rs) and H-model implement Levy's CBPV CK machine and the declared host contracts");
    report.assume("both machines are fuel-bounded; exhaustion is counted as inconclusive, never as agreement");
    report
}

pub fn replay(ctx: &Ctx, doc: &Value) -> Result<(), Fail> {
    if doc["stage"] == "records" {
        return crate::props::records::replay(ctx, doc, false);
    }
    let tape = unhex(doc["tape_hex"].as_str().unwrap_or(""));
    let mut stats = Stats::new();
    // the replay file records the tier through its tape length only; try both configurations
    check_case(ctx, &tape, &Cfg::quick(), &mut stats)?;
    check_case(ctx, &tape, &Cfg::thorough(), &mut stats)
}
