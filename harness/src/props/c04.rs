//! C04 — exhaustiveness checking is sound and complete.
//!
//! Domain: data types built from sums, products, unit, named fields, packages and nesting (a catalogue
//! plus random compositions) × finite pattern rows (exhaustively up to a size bound, randomly beyond).
//! Oracle: brute force — enumerate the values of the scrutinee type to depth (max pattern depth + 1),
//! deeper positions filled with one canonical inhabitant; a row list is exhaustive iff every value is
//! matched by some row.  Obligations: accept ⇔ exhaustive; every reported missing pattern denotes an
//! enumerated value no row matches; an accepted match, run on every enumerated value, takes the first
//! matching row.  Comatch: accepted ⇔ every destructor exactly once.

use crate::core::print;
use crate::drive::{self, Analyzed, RunEnd, Verdict};
use crate::engine::*;
use serde_json::{Value, json};
use zydeco_session::CompilerSession;
use zydeco_statics::validate::{CoverageError, CoveragePattern};

/* ------------------------------- types ---------------------------------- */

#[derive(Clone, Debug, PartialEq, Eq, Hash)]
pub enum Ty {
    Unit,
    Data(usize),
    /// n ≥ 2 components; the last one is never a product (right-associated canonical form)
    Prod(Vec<Ty>),
    Named(String, Box<Ty>),
    /// exists (X : VType) . T
    Pack(Box<Ty>),
}

#[derive(Clone, Debug)]
pub struct Data {
    pub name: String,
    pub ctors: Vec<(String, Ty)>,
    pub recursive: bool,
}

#[derive(Clone, Debug)]
pub struct World {
    pub datas: Vec<Data>,
}

fn prod(mut items: Vec<Ty>) -> Ty {
    loop {
        match items.pop() {
            | Some(Ty::Prod(inner)) => items.extend(inner),
            | Some(other) => {
                items.push(other);
                break;
            }
            | None => break,
        }
    }
    match items.len() {
        | 0 => Ty::Unit,
        | 1 => items.pop().unwrap(),
        | _ => Ty::Prod(items),
    }
}

#[derive(Clone, Debug, PartialEq, Eq, Hash)]
pub enum P {
    Wild,
    Var,
    Unit,
    Ctor(usize, usize, Box<P>),
    /// k ≥ 2 items against a product of n ≥ k components: the last item observes the remaining product
    Tuple(Vec<P>),
    Named(String, Box<P>),
    Pack(Box<P>),
}

#[derive(Clone, Debug, PartialEq, Eq, Hash)]
pub enum V {
    Unit,
    Ctor(usize, usize, Box<V>),
    /// n ≥ 2, last never a tuple
    Tuple(Vec<V>),
    Named(String, Box<V>),
    Pack(Box<V>),
}

fn vtuple(mut items: Vec<V>) -> V {
    loop {
        match items.pop() {
            | Some(V::Tuple(inner)) => items.extend(inner),
            | Some(other) => {
                items.push(other);
                break;
            }
            | None => break,
        }
    }
    match items.len() {
        | 0 => V::Unit,
        | 1 => items.pop().unwrap(),
        | _ => V::Tuple(items),
    }
}

impl P {
    fn depth(&self) -> usize {
        match self {
            | P::Wild | P::Var | P::Unit => 0,
            | P::Ctor(_, _, p) => 1 + p.depth(),
            | P::Tuple(items) => items.iter().map(|p| p.depth()).max().unwrap_or(0),
            | P::Named(_, p) | P::Pack(p) => p.depth(),
        }
    }
    fn has_pack(&self) -> bool {
        match self {
            | P::Pack(_) => true,
            | P::Ctor(_, _, p) | P::Named(_, p) => p.has_pack(),
            | P::Tuple(items) => items.iter().any(|p| p.has_pack()),
            | _ => false,
        }
    }
    fn refutable(&self) -> bool {
        match self {
            | P::Wild | P::Var | P::Unit => false,
            | P::Ctor(..) => true,
            | P::Tuple(items) => items.iter().any(|p| p.refutable()),
            | P::Named(_, p) | P::Pack(p) => p.refutable(),
        }
    }
}

pub fn matches(p: &P, v: &V) -> bool {
    match (p, v) {
        | (P::Wild | P::Var, _) => true,
        | (P::Unit, V::Unit) => true,
        | (P::Ctor(d, c, p), V::Ctor(d2, c2, v)) => d == d2 && c == c2 && matches(p, v),
        | (P::Tuple(items), V::Tuple(vals)) => {
            let k = items.len();
            if vals.len() < k {
                return false;
            }
            for i in 0..k - 1 {
                if !matches(&items[i], &vals[i]) {
                    return false;
                }
            }
            let rest = vtuple(vals[k - 1..].to_vec());
            matches(&items[k - 1], &rest)
        }
        | (P::Named(n, p), V::Named(n2, v)) => n == n2 && matches(p, v),
        | (P::Pack(p), V::Pack(v)) => matches(p, v),
        | _ => false,
    }
}

/// Does the reported missing pattern denote this value?
pub fn denotes(cp: &CoveragePattern, v: &V, w: &World) -> bool {
    match (cp, v) {
        | (CoveragePattern::Wildcard, _) => true,
        | (CoveragePattern::Unit, V::Unit) => true,
        | (CoveragePattern::Constructor(name, arg), V::Ctor(d, c, v)) => {
            let want = w.datas[*d].ctors[*c].0.trim_start_matches('+').to_string();
            let got = format!("{name}");
            got.trim_start_matches('+') == want && denotes(arg, v, w)
        }
        | (CoveragePattern::Product(items), V::Tuple(vals)) => {
            let k = items.len();
            if k == 0 || vals.len() < k {
                return false;
            }
            for i in 0..k - 1 {
                if !denotes(&items[i], &vals[i], w) {
                    return false;
                }
            }
            let rest = vtuple(vals[k - 1..].to_vec());
            denotes(&items[k - 1], &rest, w)
        }
        | (CoveragePattern::Named(name, p), V::Named(n2, v)) => format!("{name}") == *n2 && denotes(p, v, w),
        | (CoveragePattern::Package(p), V::Pack(v)) => denotes(p, v, w),
        | _ => false,
    }
}

impl World {
    fn mentions_rec(&self, t: &Ty, d: usize, seen: &mut Vec<usize>) -> bool {
        match t {
            | Ty::Unit => false,
            | Ty::Data(e) => {
                if *e == d {
                    return true;
                }
                if seen.contains(e) {
                    return false;
                }
                seen.push(*e);
                self.datas[*e].ctors.iter().any(|c| self.mentions_rec(&c.1, d, seen))
            }
            | Ty::Prod(items) => items.iter().any(|t| self.mentions_rec(t, d, seen)),
            | Ty::Named(_, t) | Ty::Pack(t) => self.mentions_rec(t, d, seen),
        }
    }

    /// one canonical inhabitant (every catalogue payload type is inhabited)
    pub fn canonical(&self, t: &Ty) -> V {
        match t {
            | Ty::Unit => V::Unit,
            | Ty::Data(d) => {
                // first constructor whose payload does not mention d again
                let (c, payload) = self.datas[*d]
                    .ctors
                    .iter()
                    .enumerate()
                    .find(|(_, (_, p))| !self.mentions_rec(p, *d, &mut vec![]))
                    .map(|(i, (_, p))| (i, p.clone()))
                    .expect("catalogue types are inhabited");
                V::Ctor(*d, c, Box::new(self.canonical(&payload)))
            }
            | Ty::Prod(items) => vtuple(items.iter().map(|t| self.canonical(t)).collect()),
            | Ty::Named(n, t) => V::Named(n.clone(), Box::new(self.canonical(t))),
            | Ty::Pack(t) => V::Pack(Box::new(self.canonical(t))),
        }
    }

    /// all values whose constructor nesting is at most `depth`; below, the canonical inhabitant
    pub fn values(&self, t: &Ty, depth: usize, cap: usize) -> Vec<V> {
        match t {
            | Ty::Unit => vec![V::Unit],
            | Ty::Data(d) => {
                if depth == 0 {
                    return if self.datas[*d].ctors.is_empty() { vec![] } else { vec![self.canonical(t)] };
                }
                let mut out = vec![];
                for (c, (_, payload)) in self.datas[*d].ctors.iter().enumerate() {
                    for v in self.values(payload, depth - 1, cap) {
                        out.push(V::Ctor(*d, c, Box::new(v)));
                        if out.len() >= cap {
                            return out;
                        }
                    }
                }
                out
            }
            | Ty::Prod(items) => {
                let mut acc: Vec<Vec<V>> = vec![vec![]];
                for it in items {
                    let vs = self.values(it, depth, cap);
                    let mut next = vec![];
                    for a in &acc {
                        for v in &vs {
                            let mut a2 = a.clone();
                            a2.push(v.clone());
                            next.push(a2);
                            if next.len() >= cap {
                                break;
                            }
                        }
                        if next.len() >= cap {
                            break;
                        }
                    }
                    acc = next;
                }
                acc.into_iter().map(vtuple).collect()
            }
            | Ty::Named(n, t) => self.values(t, depth, cap).into_iter().map(|v| V::Named(n.clone(), Box::new(v))).collect(),
            | Ty::Pack(t) => self.values(t, depth, cap).into_iter().map(|v| V::Pack(Box::new(v))).collect(),
        }
    }

    /* ------------------------------ printing ----------------------------- */

    pub fn ty(&self, t: &Ty, atom: bool) -> String {
        match t {
            | Ty::Unit => "Unit".into(),
            | Ty::Data(d) => self.datas[*d].name.clone(),
            | Ty::Prod(items) => {
                let s = items.iter().map(|t| self.ty(t, true)).collect::<Vec<_>>().join(" * ");
                if atom { format!("({s})") } else { s }
            }
            | Ty::Named(n, t) => format!("({n} :: {})", self.ty(t, false)),
            | Ty::Pack(t) => format!("(exists (W : VType) . {})", self.ty(t, false)),
        }
    }

    pub fn decls(&self) -> String {
        let mut s = String::new();
        for d in &self.datas {
            s.push_str(&format!("{} {} : VType = data", if d.recursive { "def" } else { "let" }, d.name));
            for (c, t) in &d.ctors {
                s.push_str(&format!(" | {c} : {}", self.ty(t, false)));
            }
            s.push_str(" end that\n");
        }
        s
    }

    pub fn pat(&self, p: &P, n: &mut usize) -> String {
        match p {
            | P::Wild => "_".into(),
            | P::Var => {
                *n += 1;
                format!("x{}", *n)
            }
            | P::Unit => "()".into(),
            | P::Ctor(d, c, p) => {
                let name = &self.datas[*d].ctors[*c].0;
                match &**p {
                    | P::Unit => format!("{name}()"),
                    | P::Tuple(_) => format!("{name}{}", self.pat(p, n)),
                    | other => format!("{name}({})", self.pat(other, n)),
                }
            }
            | P::Tuple(items) => format!("({})", items.iter().map(|p| self.pat(p, n)).collect::<Vec<_>>().join(", ")),
            | P::Named(f, p) => format!("({f} = {})", self.pat(p, n)),
            | P::Pack(p) => {
                *n += 1;
                let k = *n;
                format!("(W{k}, {})", self.pat(p, n))
            }
        }
    }

    pub fn val(&self, v: &V) -> String {
        match v {
            | V::Unit => "()".into(),
            | V::Ctor(d, c, v) => {
                let name = &self.datas[*d].ctors[*c].0;
                match &**v {
                    | V::Unit => format!("{name}()"),
                    | V::Tuple(_) => format!("{name}{}", self.val(v)),
                    | other => format!("{name}({})", self.val(other)),
                }
            }
            | V::Tuple(items) => format!("({})", items.iter().map(|v| self.val(v)).collect::<Vec<_>>().join(", ")),
            | V::Named(f, v) => format!("({f} = {})", self.val(v)),
            | V::Pack(v) => format!("(Unit, {})", self.val(v)),
        }
    }

    /// The same value written with its product tails nested: as nested literals (style 1) or through
    /// let-bound variables (style 2, bindings pushed to `lets`); style 0 is the flat spelling.  All three
    /// denote the same value of the same right-associated product type.
    pub fn val_styled(&self, v: &V, t: &Ty, style: u8, lets: &mut Vec<String>, counter: &mut usize) -> String {
        match (v, t) {
            | (V::Tuple(vals), Ty::Prod(tys)) if style > 0 && vals.len() >= 3 && vals.len() == tys.len() => {
                // (v0, tail) with tail = the remaining product, recursively
                let head = self.val_styled(&vals[0], &tys[0], style, lets, counter);
                let tail_v = vtuple(vals[1..].to_vec());
                let tail_t = prod(tys[1..].to_vec());
                let tail = self.val_styled(&tail_v, &tail_t, style, lets, counter);
                if style == 2 {
                    *counter += 1;
                    let name = format!("tl{}", *counter);
                    lets.push(format!("let {name} : {} = {tail} in", self.ty(&tail_t, false)));
                    format!("({head}, {name})")
                } else {
                    format!("({head}, {tail})")
                }
            }
            | (V::Tuple(vals), Ty::Prod(tys)) if vals.len() == tys.len() => {
                format!("({})", vals.iter().zip(tys.iter()).map(|(v, t)| self.val_styled(v, t, style, lets, counter)).collect::<Vec<_>>().join(", "))
            }
            | (V::Ctor(d, c, inner), _) => {
                let (name, pty) = &self.datas[*d].ctors[*c];
                match &**inner {
                    | V::Unit => format!("{name}()"),
                    | other => format!("{name}({})", self.val_styled(other, pty, style, lets, counter)),
                }
            }
            | (V::Named(f, inner), Ty::Named(_, it)) => format!("({f} = {})", self.val_styled(inner, it, style, lets, counter)),
            | (V::Pack(inner), Ty::Pack(it)) => format!("(Unit, {})", self.val_styled(inner, it, style, lets, counter)),
            | _ => self.val(v),
        }
    }

    /* --------------------------- pattern spaces --------------------------- */

    /// every pattern of constructor depth ≤ `depth` for `t` (tuple patterns in full arity and, for
    /// products of ≥ 3 components, also with a grouped tail)
    pub fn patterns(&self, t: &Ty, depth: usize, cap: usize) -> Vec<P> {
        let mut out = vec![P::Wild];
        match t {
            | Ty::Unit => out.push(P::Unit),
            | Ty::Data(d) => {
                if depth > 0 {
                    for (c, (_, payload)) in self.datas[*d].ctors.iter().enumerate() {
                        for p in self.patterns(payload, depth - 1, cap) {
                            out.push(P::Ctor(*d, c, Box::new(p)));
                        }
                    }
                }
            }
            | Ty::Prod(items) => {
                let mut acc: Vec<Vec<P>> = vec![vec![]];
                for it in items {
                    let ps = self.patterns(it, depth, cap);
                    let mut next = vec![];
                    for a in &acc {
                        for p in &ps {
                            let mut a2 = a.clone();
                            a2.push(p.clone());
                            next.push(a2);
                        }
                    }
                    acc = next;
                    if acc.len() > cap * 4 {
                        acc.truncate(cap * 4);
                    }
                }
                for a in acc {
                    if a.iter().all(|p| *p == P::Wild) {
                        continue; // same as the wildcard for coverage; kept once as a tuple below
                    }
                    if a.len() >= 3 {
                        // grouped tail spelling of the same row: (a, (b, c))
                        let mut grouped = a[..a.len() - 2].to_vec();
                        grouped.push(P::Tuple(a[a.len() - 2..].to_vec()));
                        if hash_of(&a) % 3 == 0 {
                            out.push(if grouped.len() == 1 { grouped.pop().unwrap() } else { P::Tuple(grouped) });
                            continue;
                        }
                    }
                    out.push(P::Tuple(a));
                }
                out.push(P::Tuple(items.iter().map(|_| P::Wild).collect()));
            }
            | Ty::Named(f, t) => {
                for p in self.patterns(t, depth, cap) {
                    out.push(P::Named(f.clone(), Box::new(p)));
                }
            }
            | Ty::Pack(t) => {
                for p in self.patterns(t, depth, cap) {
                    out.push(P::Pack(Box::new(p)));
                }
            }
        }
        if out.len() > cap {
            // keep a spread: deterministic thinning
            let step = out.len() as f64 / cap as f64;
            out = (0..cap).map(|i| out[(i as f64 * step) as usize].clone()).collect();
        }
        out
    }

    /// A list of rows that together cover `t` (a partition obtained by recursive splitting).
    pub fn split(&self, t: &Ty, depth: usize, tape: &mut Tape) -> Vec<P> {
        if depth == 0 || tape.chance(50) {
            return vec![if tape.chance(60) { P::Var } else { P::Wild }];
        }
        match t {
            | Ty::Unit => vec![if tape.flag() { P::Unit } else { P::Wild }],
            | Ty::Data(d) => {
                let mut rows = vec![];
                for (c, (_, payload)) in self.datas[*d].ctors.iter().enumerate() {
                    for p in self.split(payload, depth - 1, tape) {
                        rows.push(P::Ctor(*d, c, Box::new(p)));
                    }
                }
                rows
            }
            | Ty::Prod(items) => {
                // split at most two components, the others stay wild
                let a = tape.below(items.len());
                let b = tape.below(items.len());
                let mut acc: Vec<Vec<P>> = vec![vec![]];
                for (i, it) in items.iter().enumerate() {
                    let ps = if i == a || i == b { self.split(it, depth, tape) } else { vec![P::Wild] };
                    let mut next = vec![];
                    for x in &acc {
                        for p in &ps {
                            let mut x2 = x.clone();
                            x2.push(p.clone());
                            next.push(x2);
                        }
                    }
                    acc = next;
                    if acc.len() > 24 {
                        // too many rows: stop splitting further components
                        return acc.into_iter().map(|mut x| {
                            while x.len() < items.len() {
                                x.push(P::Wild);
                            }
                            P::Tuple(x)
                        }).collect::<Vec<_>>();
                    }
                }
                let group = items.len() >= 3 && tape.chance(80);
                acc.into_iter()
                    .map(|x| {
                        if group {
                            let mut g = x[..x.len() - 2].to_vec();
                            g.push(P::Tuple(x[x.len() - 2..].to_vec()));
                            P::Tuple(g)
                        } else {
                            P::Tuple(x)
                        }
                    })
                    .collect()
            }
            | Ty::Named(f, t) => self.split(t, depth, tape).into_iter().map(|p| P::Named(f.clone(), Box::new(p))).collect(),
            | Ty::Pack(t) => self.split(t, depth, tape).into_iter().map(|p| P::Pack(Box::new(p))).collect(),
        }
    }

    /// one random pattern for `t`
    pub fn random_pattern(&self, t: &Ty, depth: usize, tape: &mut Tape) -> P {
        if depth == 0 || tape.chance(70) {
            return if tape.flag() { P::Wild } else { P::Var };
        }
        match t {
            | Ty::Unit => P::Unit,
            | Ty::Data(d) => {
                let n = self.datas[*d].ctors.len();
                if n == 0 {
                    return P::Wild;
                }
                let c = tape.below(n);
                let payload = self.datas[*d].ctors[c].1.clone();
                P::Ctor(*d, c, Box::new(self.random_pattern(&payload, depth - 1, tape)))
            }
            | Ty::Prod(items) => P::Tuple(items.iter().map(|t| self.random_pattern(t, depth, tape)).collect()),
            | Ty::Named(f, t) => P::Named(f.clone(), Box::new(self.random_pattern(t, depth, tape))),
            | Ty::Pack(t) => P::Pack(Box::new(self.random_pattern(t, depth, tape))),
        }
    }
}

/* ------------------------------ catalogue -------------------------------- */

pub fn catalogue() -> (World, Vec<(&'static str, Ty)>) {
    let named = |n: &str, t: Ty| Ty::Named(n.to_string(), Box::new(t));
    let datas = vec![
        /* 0 */ Data { name: "Bool".into(), ctors: vec![("+F".into(), Ty::Unit), ("+T".into(), Ty::Unit)], recursive: false },
        /* 1 */ Data { name: "Tri".into(), ctors: vec![("+R".into(), Ty::Unit), ("+G".into(), Ty::Unit), ("+B".into(), Ty::Unit)], recursive: false },
        /* 2 */ Data { name: "Pair".into(), ctors: vec![("+Pair".into(), prod(vec![Ty::Data(0), Ty::Data(0)]))], recursive: false },
        /* 3 */ Data { name: "Opt".into(), ctors: vec![("+None".into(), Ty::Unit), ("+Some".into(), Ty::Data(0))], recursive: false },
        /* 4 */ Data { name: "Either".into(), ctors: vec![("+L".into(), Ty::Data(0)), ("+Rt".into(), Ty::Data(3))], recursive: false },
        /* 5 */ Data { name: "Rec".into(), ctors: vec![("+N".into(), Ty::Unit), ("+S".into(), named("x", Ty::Data(0))), ("+Q".into(), prod(vec![named("p", Ty::Data(0)), named("q", Ty::Data(1))]))], recursive: false },
        /* 6 */ Data { name: "Nat".into(), ctors: vec![("+Z".into(), Ty::Unit), ("+Su".into(), Ty::Data(6))], recursive: true },
        /* 7 */ Data { name: "List".into(), ctors: vec![("+Nil".into(), Ty::Unit), ("+Cons".into(), prod(vec![Ty::Data(0), Ty::Data(7)]))], recursive: true },
        /* 8 */ Data { name: "Empty".into(), ctors: vec![], recursive: false },
        /* 9 */ Data { name: "Boxed".into(), ctors: vec![("+Box".into(), Ty::Pack(Box::new(Ty::Data(0)))), ("+Two".into(), prod(vec![Ty::Data(3), Ty::Data(1)]))], recursive: false },
        /* 10 */ Data { name: "One".into(), ctors: vec![("+Only".into(), Ty::Data(1))], recursive: false },
    ];
    let b = Ty::Data(0);
    let types = vec![
        ("Bool", b.clone()),
        ("Tri", Ty::Data(1)),
        ("Pair", Ty::Data(2)),
        ("Bool*Bool", prod(vec![b.clone(), b.clone()])),
        ("Bool*Bool*Bool", prod(vec![b.clone(), b.clone(), b.clone()])),
        ("(Bool*Bool)*Bool", prod(vec![prod(vec![b.clone(), b.clone()]), b.clone()])),
        ("Opt", Ty::Data(3)),
        ("Either", Ty::Data(4)),
        ("record", prod(vec![named("a", b.clone()), named("b", b.clone())])),
        ("Rec", Ty::Data(5)),
        ("package", Ty::Pack(Box::new(b.clone()))),
        ("package-of-product", Ty::Pack(Box::new(prod(vec![b.clone(), Ty::Data(3)])))),
        ("Nat", Ty::Data(6)),
        ("List", Ty::Data(7)),
        ("Empty", Ty::Data(8)),
        ("Boxed", Ty::Data(9)),
        ("Tri*Opt", prod(vec![Ty::Data(1), Ty::Data(3)])),
        ("Unit", Ty::Unit),
        ("One", Ty::Data(10)),
        ("named-product", named("outer", prod(vec![b.clone(), Ty::Data(1)]))),
        ("package-of-One", Ty::Pack(Box::new(Ty::Data(10)))),
        ("package-of-Pair", Ty::Pack(Box::new(Ty::Data(2)))),
    ];
    (World { datas }, types)
}

fn random_type(w: &World, tape: &mut Tape, depth: usize) -> Ty {
    let leaf = |tape: &mut Tape| -> Ty {
        // inhabited payloads only (not Empty)
        tape.pick(&[Ty::Data(0), Ty::Data(1), Ty::Data(2), Ty::Data(3), Ty::Data(4), Ty::Data(5), Ty::Data(6), Ty::Data(7), Ty::Data(9), Ty::Data(10), Ty::Unit]).clone()
    };
    let _ = w;
    if depth == 0 {
        return leaf(tape);
    }
    match tape.below(6) {
        | 0 | 1 => leaf(tape),
        | 2 | 3 => {
            let n = 2 + tape.below(2);
            prod((0..n).map(|_| random_type(w, tape, depth - 1)).collect())
        }
        | 4 => Ty::Named(["a", "b", "c"][tape.below(3)].to_string(), Box::new(random_type(w, tape, depth - 1))),
        | _ => Ty::Pack(Box::new(random_type(w, tape, depth - 1))),
    }
}

/* ------------------------------ the checks -------------------------------- */

const MINI_PRELUDE: &str = "let VType = @(intrinsic(vtype)) in\nlet CType = @(intrinsic(ctype)) in\nlet Unit = @(intrinsic(unit)) in\nlet Thk = @(intrinsic(thk)) in\nlet Ret = @(intrinsic(ret)) in\nlet Int64 = @(intrinsic(i64)) in\n";

#[derive(Clone, Copy, Debug, PartialEq, Eq, Hash)]
pub enum Form {
    Match,
    /// `comatch | p1 => … | p2 => … end` at `T -> Ret Int64`
    Copattern,
    /// `fn (p : T) => …` (single row)
    FnParam,
    /// `let p = v in …` (single row)
    LetBinder,
    /// `do p <- ret v ; …` (single row)
    DoBinder,
    /// value-level function `fn (p : T) => …` of type `T -> Int64` (single row)
    PureFn,
    /// value-level `let p = v in …` (single row)
    ValueLet,
}

fn program_text(w: &World, t: &Ty, rows: &[P], form: Form) -> String {
    let mut n = 0usize;
    let mut s = String::from(MINI_PRELUDE);
    s.push_str("begin\n");
    s.push_str(&w.decls());
    let ty = w.ty(t, false);
    match form {
        | Form::Match => {
            s.push_str(&format!("{{ fn (v : {ty}) => ( match v"));
            for (i, p) in rows.iter().enumerate() {
                s.push_str(&format!("\n  | {} => ret {}", w.pat(p, &mut n), i + 1));
            }
            s.push_str("\n  end : Ret Int64 ) }\n");
        }
        | Form::Copattern => {
            s.push_str("{ ( comatch");
            for (i, p) in rows.iter().enumerate() {
                s.push_str(&format!("\n  | ({} : {ty}) => ret {}", w.pat(p, &mut n), i + 1));
            }
            s.push_str(&format!("\n  end : {} -> Ret Int64 ) }}\n", w.ty(t, true)));
        }
        | Form::FnParam => {
            s.push_str(&format!("{{ fn ({} : {ty}) => ret 1 }}\n", w.pat(&rows[0], &mut n)));
        }
        | Form::LetBinder => {
            s.push_str(&format!("{{ fn (v : {ty}) => let {} = v in ret 1 }}\n", w.pat(&rows[0], &mut n)));
        }
        | Form::DoBinder => {
            s.push_str(&format!("{{ fn (v : {ty}) => do {} <- (ret v : Ret {}) ; ret 1 }}\n", w.pat(&rows[0], &mut n), w.ty(t, true)));
        }
        | Form::PureFn => {
            s.push_str(&format!("( fn ({} : {ty}) => 1 : {} -> Int64 )\n", w.pat(&rows[0], &mut n), w.ty(t, true)));
        }
        | Form::ValueLet => {
            s.push_str(&format!("{{ fn (v : {ty}) => ret ( let {} = v in 1 ) }}\n", w.pat(&rows[0], &mut n)));
        }
    }
    s.push_str("end\n");
    s
}

/// A runnable program (full prelude) that applies the rows, in the given form, to each value and prints
/// the index of the arm taken; returns (text, expected stdout when every value finds its first matching row).
pub fn run_program_text(ctx: &Ctx, w: &World, t: &Ty, rows: &[P], form: Form, values: &[V]) -> (String, Option<String>) {
    let mut n = 0usize;
    let ty = w.ty(t, false);
    let aty = w.ty(t, true);
    let mut s = print::prelude(&ctx.repo_root);
    s.push_str("begin\n");
    s.push_str(&w.decls());
    s.push_str(&format!("let f : Thk ({aty} -> Ret String) = {{ "));
    match form {
        | Form::Match => {
            s.push_str(&format!("fn (v : {ty}) => match v"));
            for (i, p) in rows.iter().enumerate() {
                s.push_str(&format!("\n  | {} => ret \"{}\"", w.pat(p, &mut n), i + 1));
            }
            s.push_str("\n  end");
        }
        | Form::Copattern => {
            s.push_str("comatch");
            for (i, p) in rows.iter().enumerate() {
                s.push_str(&format!("\n  | ({} : {ty}) => ret \"{}\"", w.pat(p, &mut n), i + 1));
            }
            s.push_str("\n  end");
        }
        | Form::FnParam => s.push_str(&format!("fn ({} : {ty}) => ret \"1\"", w.pat(&rows[0], &mut n))),
        | Form::LetBinder => s.push_str(&format!("fn (v : {ty}) => let {} = v in ret \"1\"", w.pat(&rows[0], &mut n))),
        | Form::DoBinder => s.push_str(&format!("fn (v : {ty}) => do {} <- (ret v : Ret {aty}) ; ret \"1\"", w.pat(&rows[0], &mut n))),
        | Form::PureFn => s.push_str(&format!("fn (v : {ty}) => let g : {aty} -> String = fn ({} : {ty}) => \"1\" in ret ( g v )", w.pat(&rows[0], &mut n))),
        | Form::ValueLet => s.push_str(&format!("fn (v : {ty}) => ret ( let {} = v in \"1\" )", w.pat(&rows[0], &mut n))),
    }
    s.push_str(" } that\n(");
    let mut expected = Some(String::new());
    let mut counter = 0usize;
    for (i, v) in values.iter().enumerate() {
        let mut lets = vec![];
        let text = w.val_styled(v, t, (i % 3) as u8, &mut lets, &mut counter);
        for l in &lets {
            s.push(' ');
            s.push_str(l);
        }
        s.push_str(&format!(" do a{i} <- ! f {text} ; ! (stdio/write_line) a{i} {{\n"));
        match (rows.iter().position(|p| matches(p, v)), expected.as_mut()) {
            | (Some(idx), Some(e)) => e.push_str(&format!("{}\n", idx + 1)),
            | _ => expected = None,
        }
    }
    s.push_str(" ! (process/exit) 0");
    for _ in values {
        s.push_str(" }");
    }
    s.push_str(" : OS )\nend\n");
    (s, expected)
}

fn describe_rows(w: &World, rows: &[P]) -> Vec<String> {
    let mut n = 0;
    rows.iter().map(|p| w.pat(p, &mut n)).collect()
}

fn effective_form(form: Form, rows: &[P]) -> Form {
    if matches!(form, Form::FnParam | Form::Copattern | Form::PureFn) && rows.iter().any(|p| p.has_pack()) {
        if form == Form::Copattern { Form::Match } else { Form::LetBinder }
    } else {
        form
    }
}

/// Check one (type, rows) case in one form.
pub fn check_rows(ctx: &Ctx, w: &World, tname: &str, t: &Ty, rows: &[P], form: Form, stats: &mut Stats) -> Result<bool, Fail> {
    // a function parameter that opens a package makes the function package-dependent (a pi type); the
    // elaborator supports that only for a whole-parameter package, so such rows are checked as match / let / do
    if effective_form(form, rows) != form {
        stats.count("form-changed:package-pattern-in-a-function-parameter");
    }
    let form = effective_form(form, rows);
    let depth = rows.iter().map(|p| p.depth()).max().unwrap_or(0) + 1;
    const CAP: usize = 6000;
    let values = w.values(t, depth, CAP);
    let unmatched: Vec<&V> = values.iter().filter(|v| !rows.iter().any(|p| matches(p, v))).collect();
    let exhaustive = unmatched.is_empty();
    if values.len() >= CAP {
        // the enumeration was cut: nothing can be concluded from it
        stats.inconclusive += 1;
        stats.count("inconclusive:value-space-larger-than-the-enumeration-cap");
        return Ok(false);
    }
    stats.eval();
    let text = program_text(w, t, rows, form);
    let case = || json!({"type": tname, "type_text": w.ty(t, false), "rows": describe_rows(w, rows), "form": format!("{form:?}"), "source": text[MINI_PRELUDE.len()..].to_string(),
        "brute_force": if exhaustive { "exhaustive".to_string() } else { format!("{} of {} values unmatched, e.g. {}", unmatched.len(), values.len(), w.val(unmatched[0])) }});
    let path = thread_dir(ctx).join("cov.zy");
    std::fs::write(&path, &text).unwrap();
    let session = CompilerSession::default();
    let (front, coverage) = catch(|| {
        let r = session.analyze(&path);
        let f = drive::summarize(&session, &r);
        let c = session.coverage(&path).unwrap_or_default();
        (f, c)
    })
    .map_err(|p| Fail::new(format!("coverage-{}", p.signature()), "a verdict", p.describe()).with(case()))?;
    let accepted = matches!(front.verdict, Verdict::Checked(_));
    if let Verdict::Error(phase) = &front.verdict {
        return Err(Fail::new("harness-generated-program-did-not-reach-the-checker", "a typed program", format!("{phase}: {:?}", front.kinds.first())).with(case()));
    }
    if !accepted {
        // rejected: must be for coverage only (rows are well typed by construction)
        let other: Vec<&String> = front.kinds.iter().filter(|k| !k.contains("Non-exhaustive")).collect();
        if !other.is_empty() {
            return Err(Fail::new("well-typed-patterns-rejected-for-another-reason", "only coverage diagnostics", format!("{other:?}")).with(case()));
        }
    }
    if accepted != exhaustive {
        let sig = if accepted { "non-exhaustive-match-accepted" } else { "exhaustive-match-rejected" };
        return Err(Fail::new(
            sig,
            if exhaustive { "accepted: every enumerated value is matched by some row".to_string() } else { format!("rejected: {} matches no row", w.val(unmatched[0])) },
            format!("{:?} {:?}", front.verdict, front.kinds.iter().take(2).collect::<Vec<_>>()),
        )
        .with(case()));
    }
    if !accepted {
        // every reported missing pattern denotes an unmatched value
        let mut n_missing = 0;
        for e in &coverage {
            let (missing, truncated) = match e {
                | CoverageError::NonExhaustiveMatch { missing, truncated, .. } => (missing, *truncated),
                | CoverageError::NonExhaustiveCopatternMatch { missing, truncated, .. } => (missing, *truncated),
                | other if format!("{other}").starts_with("Non-exhaustive match") => {
                    // a report kind this harness does not destructure (value-level binders): counted as a report,
                    // its witnesses are not examined
                    n_missing += 1;
                    stats.count("coverage-report-of-another-kind(witnesses-not-examined)");
                    continue;
                }
                | other => {
                    return Err(Fail::new("unexpected-coverage-error-kind", "a non-exhaustive match report", format!("{other}")).with(case()));
                }
            };
            if missing.is_empty() {
                return Err(Fail::new("empty-missing-list", "at least one missing pattern", format!("{e}")).with(case()));
            }
            let _ = truncated;
            for cp in missing {
                n_missing += 1;
                let cp_for = |v: &V| match form {
                    // a single-argument copattern reports the argument pattern itself
                    | _ => denotes(cp, v, w),
                };
                if !unmatched.iter().any(|v| cp_for(v)) {
                    return Err(Fail::new(
                        "reported-missing-pattern-is-covered",
                        "every reported missing pattern denotes at least one value that no arm matches",
                        format!("`{cp}` denotes no unmatched value (unmatched: {})", unmatched.iter().take(4).map(|v| w.val(v)).collect::<Vec<_>>().join(" ")),
                    )
                    .with(case()));
                }
            }
            // (the statement does not require an untruncated list to be complete: only counted)
            if !truncated && unmatched.iter().any(|v| !missing.iter().any(|cp| denotes(cp, v, w))) {
                stats.count("note:untruncated-report-does-not-denote-every-gap");
            }
        }
        if n_missing == 0 {
            return Err(Fail::new("rejected-without-coverage-report", "session.coverage(root) lists the gap", format!("{:?}", front.kinds)).with(case()));
        }
        stats.count("rejected-with-truthful-witnesses");
    } else {
        if !coverage.is_empty() {
            return Err(Fail::new("accepted-with-coverage-errors", "no coverage error for an accepted program", format!("{}", coverage[0])).with(case()));
        }
        stats.count("accepted-exhaustive");
    }
    // non-trivial: the verdict differs from the constructor-name heuristic, or nesting ≥ 2, or a wildcard row not last
    let names_only = {
        // heuristic: every constructor name of every data type mentioned appears somewhere, or a wildcard row exists
        rows.iter().any(|p| !p.refutable())
    };
    let nested = rows.iter().any(|p| p.depth() >= 2);
    let wild_not_last = rows.iter().rev().skip(1).any(|p| !p.refutable());
    let correlated = rows.len() >= 2 && (!names_only || !exhaustive);
    if correlated || nested || wild_not_last {
        stats.nontrivial(hash_of(&(tname, rows, format!("{form:?}"))));
        stats.sample(|| json!({"type": w.ty(t, false), "rows": describe_rows(w, rows), "form": format!("{form:?}"), "verdict": if accepted { "accepted" } else { "rejected" }, "unmatched_example": unmatched.first().map(|v| w.val(v))}));
    }
    Ok(accepted)
}

/// Run an accepted match on every enumerated value: the arm taken is the first matching row.
pub fn check_run(ctx: &Ctx, w: &World, tname: &str, t: &Ty, rows: &[P], form: Form, stats: &mut Stats) -> Result<(), Fail> {
    let form = effective_form(form, rows);
    let depth = rows.iter().map(|p| p.depth()).max().unwrap_or(0) + 1;
    let mut values = w.values(t, depth, 6000);
    if values.len() > 48 {
        // spread
        let step = values.len() as f64 / 48.0;
        values = (0..48).map(|i| values[(i as f64 * step) as usize].clone()).collect();
    }
    if values.is_empty() {
        return Ok(());
    }
    stats.eval();
    let (s, expected) = run_program_text(ctx, w, t, rows, form, &values);
    let expected = expected.expect("accepted ⇒ exhaustive (checked before)");
    let path = thread_dir(ctx).join("covrun.zy");
    std::fs::write(&path, &s).unwrap();
    let session = CompilerSession::default();
    let case = || json!({"type": tname, "rows": describe_rows(w, rows), "form": format!("{form:?}"), "values": values.iter().map(|v| w.val(v)).collect::<Vec<_>>(), "source": s[s.find("begin\n").unwrap_or(0)..].to_string()});
    match drive::analyze_executable(&session, &path) {
        | Analyzed::Panic(p) => Err(Fail::new(format!("analysis-{}", p.signature()), "analysis to return", p.describe()).with(case())),
        | Analyzed::NotAccepted(f) => Err(Fail::new("run-program-rejected", "accepted (the same rows were accepted in the check-only program)", format!("{:?}", f.kinds.iter().take(2).collect::<Vec<_>>())).with(case())),
        | Analyzed::AcceptedOther(_, why) => Err(Fail::new("run-program-not-executable", "an executable", why).with(case())),
        | Analyzed::Executable(exe, _) => {
            let run = drive::run_executable(exe, b"", &[], 2_000_000);
            let out = String::from_utf8_lossy(&run.stdout).to_string();
            if !matches!(run.end, RunEnd::Exit(0)) || out != expected {
                return Err(Fail::new(
                    "arm-taken-at-run-time",
                    format!("exit 0 and arm indices {:?} (first matching row per value)", expected.replace('\n', " ")),
                    format!("{:?} arm indices {:?}", run.end, out.replace('\n', " ")),
                )
                .with(case()));
            }
            stats.count("run:arms-agree");
            stats.add("run:values", values.len() as u64);
            Ok(())
        }
    }
}

/* ------------------------------- comatch ---------------------------------- */

pub fn check_comatch(ctx: &Ctx, n_dtors: usize, arms: &[usize], run: bool, stats: &mut Stats) -> Result<(), Fail> {
    stats.eval();
    let names = [".alpha", ".beta", ".gamma", ".delta"];
    let mut count = vec![0usize; n_dtors];
    for a in arms {
        count[*a] += 1;
    }
    let complete = count.iter().all(|c| *c == 1);
    let decl = format!("let Obj : CType = codata{} end that\n", (0..n_dtors).map(|i| format!(" | {} : Ret Int64", names[i])).collect::<String>());
    let comatch = format!("comatch{} end", arms.iter().enumerate().map(|(k, a)| format!(" | {} => ret {}", names[*a], 10 * (k + 1) + a)).collect::<String>());
    let text = format!("{MINI_PRELUDE}begin\n{decl}{{ ( {comatch} : Obj ) }}\nend\n");
    let case = || json!({"destructors": n_dtors, "arms": arms.iter().map(|a| names[*a]).collect::<Vec<_>>(), "source": text[MINI_PRELUDE.len()..].to_string()});
    let path = thread_dir(ctx).join("cov.zy");
    std::fs::write(&path, &text).unwrap();
    let session = CompilerSession::default();
    let (front, coverage) = catch(|| {
        let r = session.analyze(&path);
        let f = drive::summarize(&session, &r);
        let c = session.coverage(&path).unwrap_or_default();
        (f, c)
    })
    .map_err(|p| Fail::new(format!("coverage-{}", p.signature()), "a verdict", p.describe()).with(case()))?;
    let accepted = matches!(front.verdict, Verdict::Checked(_));
    if accepted != complete {
        return Err(Fail::new(
            if accepted { "incomplete-or-duplicated-comatch-accepted" } else { "complete-comatch-rejected" },
            if complete { "accepted: one arm per destructor".to_string() } else { format!("rejected: arm counts per destructor {count:?}") },
            format!("{:?} {:?}", front.verdict, front.kinds.iter().take(2).collect::<Vec<_>>()),
        )
        .with(case()));
    }
    if !accepted {
        let mut said_something = false;
        for e in &coverage {
            match e {
                | CoverageError::NonExhaustiveCoMatch { missing, .. } => {
                    for m in missing {
                        let name = format!(".{}", format!("{m}").trim_start_matches('.'));
                        let idx = names.iter().position(|n| *n == name);
                        if idx.map(|i| i >= n_dtors || count[i] != 0).unwrap_or(true) {
                            return Err(Fail::new("reported-missing-destructor-is-present", "only destructors without an arm", format!("{e}")).with(case()));
                        }
                        said_something = true;
                    }
                }
                | CoverageError::DuplicateCoMatchArms { duplicates, .. } => {
                    for m in duplicates {
                        let name = format!(".{}", format!("{m}").trim_start_matches('.'));
                        let idx = names.iter().position(|n| *n == name);
                        if idx.map(|i| i >= n_dtors || count[i] < 2).unwrap_or(true) {
                            return Err(Fail::new("reported-duplicate-destructor-is-not-duplicated", "only destructors with two or more arms", format!("{e}")).with(case()));
                        }
                        said_something = true;
                    }
                }
                | other => return Err(Fail::new("unexpected-coverage-error-kind", "a comatch report", format!("{other}")).with(case())),
            }
        }
        if !said_something && front.n_reports == 0 {
            return Err(Fail::new("rejected-without-a-report", "a diagnostic", "none").with(case()));
        }
        stats.count("comatch:rejected");
        stats.nontrivial(hash_of(&(n_dtors, arms)));
        return Ok(());
    }
    stats.count("comatch:accepted");
    stats.nontrivial(hash_of(&(n_dtors, arms)));
    stats.sample(|| json!({"destructors": n_dtors, "arms": arms.iter().map(|a| names[*a]).collect::<Vec<_>>(), "verdict": "accepted"}));
    if run && n_dtors > 0 {
        // every destructor selects its own arm
        stats.eval();
        let mut s = print::prelude(&ctx.repo_root);
        s.push_str("begin\n");
        s.push_str(&decl);
        s.push_str(&format!("let o : Thk Obj = {{ {comatch} }} that\n("));
        let mut expected = String::new();
        for i in 0..n_dtors {
            s.push_str(&format!(" do a{i} <- ! o {} ; do s{i} <- ! (int64/to_string) a{i} ; ! (stdio/write_line) s{i} {{\n", names[i]));
            let k = arms.iter().position(|a| *a == i).unwrap();
            expected.push_str(&format!("{}\n", 10 * (k + 1) + i));
        }
        s.push_str(" ! (process/exit) 0");
        for _ in 0..n_dtors {
            s.push_str(" }");
        }
        s.push_str(" : OS )\nend\n");
        let path = thread_dir(ctx).join("covrun.zy");
        std::fs::write(&path, &s).unwrap();
        let session = CompilerSession::default();
        match drive::analyze_executable(&session, &path) {
            | Analyzed::Executable(exe, _) => {
                let run = drive::run_executable(exe, b"", &[], 500_000);
                let out = String::from_utf8_lossy(&run.stdout).to_string();
                if !matches!(run.end, RunEnd::Exit(0)) || out != expected {
                    return Err(Fail::new("comatch-arm-taken-at-run-time", format!("{expected:?}"), format!("{:?} {out:?}", run.end)).with(case()));
                }
                stats.count("comatch:run-agrees");
            }
            | Analyzed::Panic(p) => return Err(Fail::new(format!("analysis-{}", p.signature()), "analysis to return", p.describe()).with(case())),
            | Analyzed::NotAccepted(f) => return Err(Fail::new("run-program-rejected", "accepted", format!("{:?}", f.kinds.first())).with(case())),
            | Analyzed::AcceptedOther(_, why) => return Err(Fail::new("run-program-not-executable", "an executable", why).with(case())),
        }
    }
    Ok(())
}

/* ------------------------------- stages ----------------------------------- */

pub fn random_case(w: &World, types: &[(&'static str, Ty)], tape: &[u8]) -> (String, Ty, Vec<P>, Form) {
    let mut t = Tape::new(tape);
    let (tname, ty) = if t.chance(110) {
        let ty = random_type(w, &mut t, 2);
        ("random".to_string(), ty)
    } else {
        let (n, ty) = t.pick(types).clone();
        (n.to_string(), ty)
    };
    let depth = 1 + t.below(4);
    let mut rows = w.split(&ty, depth, &mut t);
    // perturb the partition
    let edits = t.below(4);
    for _ in 0..edits {
        if rows.is_empty() {
            break;
        }
        match t.below(6) {
            | 0 | 1 => {
                let k = t.below(rows.len());
                rows.remove(k);
            }
            | 2 => {
                let k = t.below(rows.len());
                let p = w.random_pattern(&ty, depth, &mut t);
                rows.insert(k, p);
            }
            | 3 => {
                let a = t.below(rows.len());
                let b = t.below(rows.len());
                rows.swap(a, b);
            }
            | 4 => {
                let k = t.below(rows.len());
                let r = rows[k].clone();
                rows.push(r);
            }
            | _ => {
                let p = w.random_pattern(&ty, depth, &mut t);
                rows.push(p);
            }
        }
    }
    rows.truncate(14);
    let form = match t.below(6) {
        | 0 if !rows.is_empty() => Form::Copattern,
        | 1 | 2 if rows.len() == 1 => *t.pick(&[Form::FnParam, Form::LetBinder, Form::DoBinder, Form::PureFn, Form::ValueLet]),
        | 1 if !rows.is_empty() => {
            // a binder takes one row
            rows.truncate(1);
            *t.pick(&[Form::FnParam, Form::LetBinder, Form::DoBinder, Form::PureFn, Form::ValueLet])
        }
        | _ => Form::Match,
    };
    (tname, ty, rows, form)
}

pub fn run(ctx: &Ctx) -> Report {
    let mut report = Report::new(
        "(a) exhaustive small scope: per catalogue type (Bool, 3-way enum, Pair, Bool*Bool, Bool*Bool*Bool in both \
         groupings, Option, Either, record of named fields, data with named payloads, packages, recursive Nat and \
         List, the empty type, nested mixes) every list of ≤ 3 rows (≤ 4 in thorough for types with ≤ 9 patterns) over all patterns of \
         constructor depth ≤ 2 (thinned to 12 / 24 per type); (b) random: catalogue or random composite types, rows \
         from a recursive-splitting partition perturbed by dropping / inserting / swapping / duplicating rows, \
         depth ≤ 4, ≤ 14 rows, as `match`, as comatch argument patterns, or as a `fn` parameter; oracle: brute-force \
         enumeration of values to depth (max pattern depth + 1): accept ⇔ all values matched; each reported missing \
         pattern denotes an unmatched value; (c) accepted rows run on \
         every enumerated value (≤ 48 per program) take the first matching row; (d) comatch: all arm sequences of \
         length ≤ n+1 over 0–4 destructors: accepted ⇔ each exactly once, reported missing/duplicate destructors \
         truthful, each arm selected at run time; non-trivial = ≥ 2 rows with a verdict the wildcard/name heuristic \
         cannot give, nesting ≥ 2, or an irrefutable row not last",
    );
    let (w, types) = catalogue();
    // (a) exhaustive small scope
    let max_rows = 3;
    let cap = ctx.tier.pick(12, 24);
    let four = ctx.tier == Tier::Thorough;
    let mut items: Vec<(usize, Vec<P>)> = vec![];
    for (ti, (_, ty)) in types.iter().enumerate() {
        let pats = w.patterns(ty, 2, cap);
        items.push((ti, vec![]));
        for a in &pats {
            items.push((ti, vec![a.clone()]));
            if max_rows >= 2 {
                for b in &pats {
                    items.push((ti, vec![a.clone(), b.clone()]));
                    if max_rows >= 3 {
                        for c in &pats {
                            items.push((ti, vec![a.clone(), b.clone(), c.clone()]));
                            if four && pats.len() <= 9 {
                                for d in &pats {
                                    items.push((ti, vec![a.clone(), b.clone(), c.clone(), d.clone()]));
                                }
                            }
                        }
                    }
                }
            }
        }
    }
    let r = run_items(ctx, "small-scope", items, |(ti, rows), stats| {
        let (name, ty) = &types[*ti];
        let accepted = check_rows(ctx, &w, name, ty, rows, Form::Match, stats)?;
        // the same rows as comatch argument patterns (a sample)
        if !rows.is_empty() && hash_of(rows) % 4 == 0 {
            check_rows(ctx, &w, name, ty, rows, Form::Copattern, stats)?;
        }
        if rows.len() == 1 {
            let form = [Form::FnParam, Form::LetBinder, Form::DoBinder, Form::PureFn, Form::ValueLet][(hash_of(rows) % 5) as usize];
            let ok = check_rows(ctx, &w, name, ty, rows, form, stats)?;
            if ok && hash_of(rows) % 4 == 0 {
                check_run(ctx, &w, name, ty, rows, form, stats)?;
            }
        }
        if accepted && rows.len() >= 2 && hash_of(rows) % 16 == 0 {
            check_run(ctx, &w, name, ty, rows, Form::Match, stats)?;
        }
        Ok(())
    });
    report.absorb(r);
    // (b) random
    let cases = ctx.tier.pick(20_000, 600_000);
    let r = run_tapes(ctx, "random-rows", cases, 120, |tape, stats| {
        let (tname, ty, rows, form) = random_case(&w, &types, tape);
        let accepted = check_rows(ctx, &w, &tname, &ty, &rows, form, stats)?;
        if accepted && tape.first().map(|b| b % 5 == 0).unwrap_or(false) {
            check_run(ctx, &w, &tname, &ty, &rows, form, stats)?;
        }
        Ok(())
    });
    report.absorb(r);
    // (d) comatch completeness
    let mut citems: Vec<(usize, Vec<usize>)> = vec![];
    for n in 0..=4usize {
        let mut seqs: Vec<Vec<usize>> = vec![vec![]];
        let mut frontier: Vec<Vec<usize>> = vec![vec![]];
        for _ in 0..(n + 1).min(5) {
            let mut next = vec![];
            for s in &frontier {
                for d in 0..n {
                    let mut s2 = s.clone();
                    s2.push(d);
                    next.push(s2);
                }
            }
            seqs.extend(next.iter().cloned());
            frontier = next;
        }
        for s in seqs {
            citems.push((n, s));
        }
    }
    let r = run_items(ctx, "comatch", citems, |(n, arms), stats| check_comatch(ctx, *n, arms, true, stats));
    report.absorb(r);
    report.assume("payload types are inhabited (the documented algorithm is shape based; the empty type appears only as a scrutinee); values are enumerated to depth max-pattern-depth + 1 with canonical inhabitants below, which patterns of that depth cannot distinguish");
    report
}

pub fn replay(ctx: &Ctx, doc: &Value) -> Result<(), Fail> {
    let mut stats = Stats::new();
    let (w, types) = catalogue();
    if doc["stage"] == "random-rows" {
        let tape = unhex(doc["tape_hex"].as_str().unwrap_or(""));
        let (tname, ty, rows, form) = random_case(&w, &types, &tape);
        let accepted = check_rows(ctx, &w, &tname, &ty, &rows, form, &mut stats)?;
        if accepted {
            check_run(ctx, &w, &tname, &ty, &rows, form, &mut stats)?;
        }
        return Ok(());
    }
    // enumerated stages are cheap enough to re-run whole at quick size
    let report = run(ctx);
    match report.violations.into_iter().next() {
        | Some(v) => Err(v.fail),
        | None => Ok(()),
    }
}
