//! C09 — imports are hygienic splices over an acyclic, deduplicated source graph.

use crate::core::eval::REnd;
use crate::core::generate::Cfg;
use crate::core::harness as h;
use crate::core::print::{self, Exporter, Names, Style};
use crate::drive::{self, Analyzed, RunEnd, Verdict};
use crate::engine::*;
use serde_json::{Value, json};
use std::collections::{BTreeMap, BTreeSet};
use std::path::{Path, PathBuf};
use zydeco_session::{CompilerSession, SourceLoadError};

/* ------------------------------ (a) file graphs --------------------------- */

const NAMES: [&str; 12] = ["a.zy", "a.zyi", "b.zy", "b.zyi", "c.zy", "c.zyi", "e.zy", "e.zyi", "f.zy", "f.zyi", "g.zy", "g.zyi"];

#[derive(Clone, Debug)]
pub struct FileGraph {
    /// edges[i] = list of imported file indices (occurrences, in order)
    pub edges: Vec<Vec<usize>>,
    pub exists: Vec<bool>,
    pub root: usize,
    /// spelling style per occurrence
    pub spelling: u8,
    /// the real file lives in the sibling directory `s/`; `d/<name>` is a symlink to it (so a companion
    /// `.zyi` can be a link into another directory, and the same file is reachable under two paths)
    pub linked: Vec<bool>,
    /// the file also imports `x.zy` by its plain name: `d/x.zy` and `s/x.zy` are different files, and the
    /// one beside the importer's *canonical* location is meant
    pub decoy: Vec<bool>,
}

fn content(g: &FileGraph, i: usize, dir: &Path) -> String {
    if g.edges[i].is_empty() && !g.decoy[i] {
        return "0\n".into();
    }
    let mut parts = vec![];
    for (k, j) in g.edges[i].iter().enumerate() {
        let name = NAMES[*j];
        let mut kind = (g.spelling as usize + k + i) % 6;
        if g.linked[i] {
            // written in s/: a plain name reaches only files that live there too
            kind = match kind {
                | 0 | 1 if !g.linked[*j] => 2,
                | 5 => 2,
                | other => other,
            };
        }
        let s = match kind {
            | 0 => name.to_string(),
            | 1 => format!("./{name}"),
            | 2 => format!("../d/{name}"),
            | 3 => dir.join(name).display().to_string(),
            | 4 => format!("../ld/{name}"),
            | _ => format!("s_{name}"),
        };
        parts.push(if k % 2 == 0 { format!("@(import(\"{s}\"))") } else { format!("@[import(\"{s}\")] _") });
    }
    if g.decoy[i] {
        parts.push("@(import(\"x.zy\"))".to_string());
    }
    format!("( {} , 0 )\n", parts.join(" , "))
}

/// dependency edges of the *spec*: imports of existing files, plus implementation → existing companion
fn spec_deps(g: &FileGraph, i: usize) -> Vec<(usize, bool)> {
    let mut d = vec![];
    // companion first (a .zy file with an existing .zyi)
    // (adjacent to the implementation's *canonical* location: an implementation that really lives in s/
    // has a companion only if the signature lives there too; an implementation in d/ finds d/<name>.zyi
    // even when that is a link into s/)
    if i % 2 == 0 && g.exists[i + 1] && (!g.linked[i] || g.linked[i + 1]) {
        d.push((i + 1, true));
    }
    for j in &g.edges[i] {
        d.push((*j, false));
    }
    d
}

fn node_name(i: usize) -> &'static str {
    match i {
        | 100 => "s/x.zy",
        | 101 => "d/x.zy",
        | _ => NAMES[i],
    }
}

fn check_file_graph(ctx: &Ctx, g: &FileGraph, stats: &mut Stats) -> Result<(), Fail> {
    stats.eval();
    let base = thread_dir(ctx).join("fg");
    let _ = std::fs::remove_dir_all(&base);
    let dir = base.join("d");
    std::fs::create_dir_all(&dir).unwrap();
    let dir = dir.canonicalize().unwrap();
    let n = g.edges.len();
    std::os::unix::fs::symlink(&dir, base.join("ld")).unwrap();
    let sdir = base.join("s");
    std::fs::create_dir_all(&sdir).unwrap();
    let sdir = sdir.canonicalize().unwrap();
    std::fs::write(sdir.join("x.zy"), "0\n").unwrap();
    std::fs::write(dir.join("x.zy"), "0\n").unwrap();
    for i in 0..n {
        if g.exists[i] {
            if g.linked[i] {
                std::fs::write(sdir.join(NAMES[i]), content(g, i, &dir)).unwrap();
                std::os::unix::fs::symlink(format!("../s/{}", NAMES[i]), dir.join(NAMES[i])).unwrap();
            } else {
                std::fs::write(dir.join(NAMES[i]), content(g, i, &dir)).unwrap();
            }
        }
        // a file symlink beside every (possibly missing) file
        std::os::unix::fs::symlink(NAMES[i], dir.join(format!("s_{}", NAMES[i]))).unwrap();
    }
    let case = json!({"files": (0..n).filter(|i| g.exists[*i]).map(|i| (if g.linked[i] { format!("s/{} (d/{} links to it)", NAMES[i], NAMES[i]) } else { format!("d/{}", NAMES[i]) }, content(g, i, &dir).replace(&dir.display().to_string(), "$D"))).collect::<BTreeMap<_, _>>(), "also": "d/x.zy and s/x.zy (different files)", "root": NAMES[g.root]});
    // spec: reachability, missing imports, cycles
    let mut reach = BTreeSet::new();
    let mut missing = false;
    let mut stack = vec![g.root];
    while let Some(i) = stack.pop() {
        if !reach.insert(i) {
            continue;
        }
        for (j, _) in spec_deps(g, i) {
            if !g.exists[j] {
                missing = true;
            } else {
                stack.push(j);
            }
        }
    }
    // cycle among reachable nodes
    let mut color = [0u8; 12];
    fn dfs(g: &FileGraph, i: usize, color: &mut [u8; 12]) -> bool {
        color[i] = 1;
        for (j, _) in spec_deps(g, i) {
            if !g.exists[j] {
                continue;
            }
            if color[j] == 1 || (color[j] == 0 && dfs(g, j, color)) {
                return true;
            }
        }
        color[i] = 2;
        false
    }
    let cyclic = dfs(g, g.root, &mut color);
    let session = CompilerSession::default();
    let got = catch(|| session.graph(dir.join(NAMES[g.root])));
    let got = got.map_err(|p| Fail::new(format!("graph-{}", p.signature()), "a graph or an error value", p.describe()).with(case.clone()))?;
    // canonical path → node; 100 = s/x.zy, 101 = d/x.zy
    let idx = |p: &Path| -> Option<usize> {
        if p == sdir.join("x.zy") {
            return Some(100);
        }
        if p == dir.join("x.zy") {
            return Some(101);
        }
        (0..n).find(|i| if g.linked[*i] { sdir.join(NAMES[*i]) == p } else { dir.join(NAMES[*i]) == p })
    };
    match got {
        | Err(e) => match &*e {
            | SourceLoadError::Cycle(cycle) => {
                if !cyclic {
                    return Err(Fail::new("cycle-reported-for-acyclic-graph", "a loaded graph (no cycle is reachable from the root)", format!("{cycle}").replace(&dir.display().to_string(), "$D")).with(case));
                }
                // steps are real edges, chain head-to-tail, and close
                let steps = &cycle.steps;
                if steps.is_empty() {
                    return Err(Fail::new("empty-cycle", "at least one step", "none").with(case));
                }
                for (k, s) in steps.iter().enumerate() {
                    let (Some(a), Some(b)) = (idx(&s.dependent), idx(&s.dependency)) else {
                        return Err(Fail::new("cycle-step-unknown-file", "files of the generated graph", format!("{} -> {}", s.dependent.display(), s.dependency.display())).with(case));
                    };
                    let is_sig = matches!(s.kind, zydeco_session::source::SourceDependencyKind::Signature);
                    if !spec_deps(g, a).contains(&(b, is_sig)) {
                        return Err(Fail::new("cycle-step-not-an-edge", "every reported step is an edge of the generated graph", format!("{} -> {} (signature: {is_sig})", NAMES[a], NAMES[b])).with(case));
                    }
                    let next = &steps[(k + 1) % steps.len()];
                    if s.dependency != next.dependent {
                        return Err(Fail::new("cycle-steps-do-not-chain", "steps chain head to tail and close", format!("step {k} ends at {} but the next starts at {}", s.dependency.display(), next.dependent.display())).with(case));
                    }
                }
                stats.count("graph:cycle");
                stats.nontrivial(hash_of(&format!("{g:?}")));
            }
            | other => {
                if !missing {
                    return Err(Fail::new("graph-error-without-cause", "a loaded graph", format!("{other}").replace(&dir.display().to_string(), "$D")).with(case));
                }
                stats.count("graph:missing-import");
            }
        },
        | Ok(graph) => {
            if cyclic && !missing {
                return Err(Fail::new("cycle-not-detected", "SourceLoadError::Cycle (a dependency cycle is reachable from the root)", "graph loaded").with(case));
            }
            if missing {
                // a missing import before the cycle is found may legitimately win; but a loaded graph is wrong
                return Err(Fail::new("missing-import-not-reported", "an error for the missing import", "graph loaded").with(case));
            }
            let got_sources: BTreeSet<usize> = graph.sources.iter().filter_map(|(_, f)| idx(&f.path)).collect();
            let mut reach = reach.clone();
            let decoy_importers: Vec<usize> = reach.iter().copied().filter(|i| g.decoy[*i]).collect();
            for i in &decoy_importers {
                reach.insert(if g.linked[*i] { 100 } else { 101 });
            }
            if got_sources != reach || graph.sources.len() != reach.len() {
                return Err(Fail::new(
                    "sources-not-exactly-reachable-set",
                    format!("one source per reachable file: {:?}", reach.iter().map(|i| node_name(*i)).collect::<Vec<_>>()),
                    format!("{:?} ({} entries)", got_sources.iter().map(|i| node_name(*i)).collect::<Vec<_>>(), graph.sources.len()),
                )
                .with(case));
            }
            let want_imports: usize = reach.iter().filter(|i| **i < 100).map(|i| g.edges[*i].len() + g.decoy[*i] as usize).sum();
            if graph.imports.len() != want_imports {
                return Err(Fail::new("import-occurrences", format!("{want_imports} import occurrences"), format!("{}", graph.imports.len())).with(case));
            }
            // provider order: every provider before each consumer
            let order: Vec<usize> = graph.provider_order().iter().filter_map(|id| idx(&graph.sources[id].path)).collect();
            if order.len() != reach.len() {
                return Err(Fail::new("provider-order-incomplete", format!("{} entries", reach.len()), format!("{order:?}")).with(case));
            }
            for (pos, i) in order.iter().enumerate() {
                if *i >= 100 {
                    continue;
                }
                for (j, _) in spec_deps(g, *i) {
                    let pj = order.iter().position(|x| *x == j).unwrap_or(usize::MAX);
                    if pj > pos {
                        return Err(Fail::new("provider-after-consumer", format!("{} before {}", NAMES[j], NAMES[*i]), format!("order {:?}", order.iter().map(|i| node_name(*i)).collect::<Vec<_>>())).with(case));
                    }
                }
            }
            stats.count("graph:loaded");
            let interesting = reach.len() >= 3 || reach.iter().any(|i| *i < 100 && g.edges[*i].len() >= 2);
            if reach.iter().any(|i| *i < 100 && g.linked[*i]) {
                stats.count("graph:loaded-with-a-file-that-is-a-link-into-another-directory");
            }
            if interesting {
                stats.count("graph:loaded-with-3+-files-or-repeated-imports");
                stats.nontrivial(hash_of(&format!("{g:?}")));
                stats.sample(|| case.clone());
            }
        }
    }
    Ok(())
}

/// Random graphs of 2..=12 files with a per-case edge density, so that acyclic multi-file graphs, graphs with
/// one cycle and graphs with a missing file all get a fair share.
fn random_file_graph(tape: &[u8]) -> FileGraph {
    let mut t = Tape::new(tape);
    let pairs = 1 + t.below(6);
    let n = pairs * 2;
    let density = [24u32, 48, 80, 128][t.below(4)];
    let forward_only = t.chance(128); // mostly-DAG shapes: edges only to higher indices, plus a few extras
    let mut exists: Vec<bool> = (0..n).map(|i| i % 2 == 0 || t.chance(128)).collect();
    let root = t.below(n);
    exists[root] = true;
    let allow_missing = t.chance(40);
    let mut edges = vec![vec![]; n];
    for i in 0..n {
        for j in 0..n {
            let allowed = (!forward_only || j > i + (i % 2 == 0) as usize) && (exists[j] || allow_missing);
            if allowed && (t.byte() as u32) < density {
                edges[i].push(j);
                if t.chance(42) {
                    edges[i].push(j); // the same file twice in one importer
                }
            }
        }
    }
    if forward_only && t.chance(85) {
        // one back edge or signature-entered cycle candidate
        let i = t.below(n);
        let j = t.below(n);
        if exists[j] {
            edges[i].push(j);
        }
    }
    let link_some = t.chance(110);
    let linked: Vec<bool> = (0..n).map(|i| link_some && exists[i] && t.chance(if i % 2 == 1 { 150 } else { 50 })).collect();
    // an implementation that is a link keeps its signature (if any) in the same real directory, so that
    // "adjacent" means the same file whether it is read beside the written or beside the canonical path
    let mut linked = linked;
    for i in (0..n).step_by(2) {
        if linked[i] && exists[i + 1] {
            linked[i + 1] = true;
        }
    }
    let decoy: Vec<bool> = (0..n).map(|i| exists[i] && t.chance(30)).collect();
    FileGraph { edges, exists, root, spelling: t.below(6) as u8, linked, decoy }
}

fn decode_file_graph(code: u32) -> FileGraph {
    // 16 edge bits, 2 companion-existence bits, 2 root bits, 2 spelling bits
    let mut edges = vec![vec![]; 4];
    for i in 0..4 {
        for j in 0..4 {
            if code >> (i * 4 + j) & 1 == 1 {
                edges[i].push(j);
            }
        }
    }
    let mut exists = vec![true, code >> 16 & 1 == 1, true, code >> 17 & 1 == 1];
    let root = (code >> 18 & 3) as usize;
    exists[root] = true;
    FileGraph { edges, exists, root, spelling: (code >> 20 & 3) as u8, linked: vec![false; 4], decoy: vec![false; 4] }
}

/* ------------------------- (b) split vs inlined --------------------------- */

pub fn check_split(ctx: &Ctx, tape: &[u8], cfg: &Cfg, stats: &mut Stats) -> Result<(), Fail> {
    let g = h::generate(tape, cfg);
    let reference = h::reference_run(&g.prog, &g.stdin, 300_000);
    if matches!(reference.end, REnd::OutOfFuel | REnd::Undetermined(_) | REnd::Stuck(_)) {
        stats.inconclusive += 1;
        return Ok(());
    }
    let names = Names::unique(&g.prog);
    let style = Style::default();
    let base = thread_dir(ctx).join("split");
    let _ = std::fs::remove_dir_all(&base);
    std::fs::create_dir_all(base.join("sub")).unwrap();
    let base = base.canonicalize().unwrap();
    // plan from the tail of the tape
    let tail = if tape.len() > 40 { &tape[tape.len() - 40..] } else { tape };
    let plan: Vec<u8> = tail.iter().map(|b| if *b % 3 == 0 { 1 + (*b / 3) % 8 } else { 0 }).collect();
    let mut pr = print::Printer::new(&g.prog, &names, &style);
    pr.exporter = Some(Exporter { plan, ..Default::default() });
    pr.program();
    let ex = pr.exporter.take().unwrap();
    if ex.providers.is_empty() {
        stats.count("discarded:no-closed-literal-to-export");
        return Ok(());
    }
    let split_text = format!("{}{}", print::prelude(&ctx.repo_root), print::join(&pr.out));
    let inline_text = h::default_print(&ctx.repo_root, &g.prog);
    for (name, text, _) in &ex.providers {
        std::fs::write(base.join(name), format!("{text}\n")).unwrap();
    }
    let companions = tape.first().map(|b| b % 3).unwrap_or(0); // 0 none, 1 exact companions, 2 one wrong companion
    if companions >= 1 {
        for (i, (name, _, sig)) in ex.providers.iter().enumerate() {
            let wrong = companions == 2 && i == 0;
            let sig_text = if wrong {
                if sig.contains("string") && !sig.contains('*') { "(@(intrinsic(i64)))".to_string() } else { "(@(intrinsic(string)))".to_string() }
            } else {
                sig.clone()
            };
            std::fs::write(base.join(name.replace(".zy", ".zyi")), format!("{sig_text}\n")).unwrap();
        }
    }
    let run_one = |text: &str, stats: &mut Stats| -> Result<(bool, Vec<u8>, String), Fail> {
        stats.eval();
        let path = base.join("case.zy");
        std::fs::write(&path, text).unwrap();
        let session = CompilerSession::default();
        match drive::analyze_executable(&session, &path) {
            | Analyzed::Panic(p) => Err(Fail::new(format!("analysis-{}", p.signature()), "analysis to return", p.describe())),
            | Analyzed::Executable(exe, _) => {
                let run = h::interp_run(exe, &g.stdin, 3_000_000);
                Ok((true, run.stdout, format!("{:?}", run.end)))
            }
            | Analyzed::NotAccepted(front) => Ok((false, vec![], format!("rejected: {:?}", front.kinds.iter().take(2).collect::<Vec<_>>()))),
            | Analyzed::AcceptedOther(_, why) => Ok((false, vec![], why)),
        }
    };
    let companion_label = ["none", "exact", "first one wrong"][companions as usize];
    let case = json!({"split_root": split_text[split_text.find("begin\n").unwrap_or(0)..].to_string(), "providers": ex.providers.iter().map(|p| (p.0.clone(), p.1.clone())).collect::<BTreeMap<_, _>>(), "companions": companion_label, "stdin": String::from_utf8_lossy(&g.stdin)});
    let inline = run_one(&inline_text, stats).map_err(|f| f.with(case.clone()))?;
    if !inline.0 {
        stats.count("discarded:inline-version-rejected");
        return Ok(());
    }
    let split = run_one(&split_text, stats).map_err(|f| f.with(case.clone()))?;
    if companions == 2 {
        if split.0 {
            return Err(Fail::new("wrong-companion-accepted", "rejected: an adjacent .zyi makes the import mean (implementation : signature)", "accepted").with(case));
        }
        stats.count("split:wrong-companion-rejected");
        stats.nontrivial(hash_of(&split_text));
        return Ok(());
    }
    if split.0 != inline.0 || split.1 != inline.1 || split.2 != inline.2 {
        return Err(Fail::new(
            "split-differs-from-inlined",
            format!("single file: accepted={} {} stdout={:?}", inline.0, inline.2, String::from_utf8_lossy(&inline.1)),
            format!("multi-file: accepted={} {} stdout={:?}", split.0, split.2, String::from_utf8_lossy(&split.1)),
        )
        .with(case));
    }
    stats.count(if companions == 1 { "split:agree-with-exact-companions" } else { "split:agree" });
    if ex.providers.len() >= 2 || ex.occurrences > ex.providers.len() {
        stats.nontrivial(hash_of(&split_text));
        stats.sample(|| case.clone());
    }
    let _ = RunEnd::OutOfFuel;
    Ok(())
}

/* --------------------------- (c) generativity ----------------------------- */

const GENERATIVITY: &[(&str, &str, bool, &str)] = &[
    // (provider t.zy, root, accepted?, what)
    ("begin def T = @(intrinsic(i64)) that T end", "let Ret = @(intrinsic(ret)) in\nlet A = @(import(\"t.zy\")) in\nlet B = @(import(\"t.zy\")) in\n{ fn (x : A) => ret (x : B) }", false, "a generative definition imported twice yields two distinct types"),
    ("begin def T = @(intrinsic(i64)) that T end", "let Ret = @(intrinsic(ret)) in\nlet A = @(import(\"t.zy\")) in\nlet B = A in\n{ fn (x : A) => ret (x : B) }", true, "one import bound to a name is shared"),
    ("begin let T = @(intrinsic(i64)) that T end", "let Ret = @(intrinsic(ret)) in\nlet A = @(import(\"t.zy\")) in\nlet B = @(import(\"./t.zy\")) in\n{ fn (x : A) => ret (x : B) }", true, "a transparent definition imported twice is the same type"),
    ("begin def T = @(intrinsic(i64)) that T end", "let Ret = @(intrinsic(ret)) in\nlet A = @(import(\"t.zy\")) in\n{ fn (x : A) => ret (x : A) }", true, "one occurrence is equal to itself"),
    ("begin def T = @(intrinsic(i64)) that T end", "let Ret = @(intrinsic(ret)) in\nlet A = @(import(\"t.zy\")) in\n{ fn (x : A) => ret (x : @(import(\"t.zy\"))) }", false, "an inline second occurrence is a fresh copy too"),
];

pub fn run(ctx: &Ctx) -> Report {
    let mut report = Report::new(
        "(a) file graphs over {a.zy, a.zyi, b.zy, b.zyi}: 16 import-edge bits × companion existence × root × 4 \
         spelling mixes (relative, ./, ../d/, absolute, through a directory symlink, through a file symlink; both \
         import spellings) — sampled in quick, exhaustive in thorough; plus random graphs of 2–12 files with \
         per-case edge density, duplicate occurrences and missing files; oracle: own reachability and cycle computation (imports + implementation→companion edges): \
         Cycle ⇔ a cycle is reachable, steps are real edges that chain and close, else sources = reachable files \
         once each, imports = occurrences, providers before consumers; (b) generated core programs with closed \
         literal sub-values exported to provider files (imported 1–3 times under 3 path spellings and both import \
         forms) vs the same program in one file: same verdict and (stdout, exit); with exact companions the same; \
         with one wrong companion rejected; (c) 5 generativity probes; non-trivial = ≥3 reachable files or repeated \
         imports or a cycle; split with ≥2 providers or a provider imported twice",
    );
    // (a)
    let total: u32 = 1 << 22;
    let codes: Vec<u32> = if ctx.tier == Tier::Thorough {
        (0..total).collect()
    } else {
        // sparse edge sets are the informative ones (dense ones are almost all cyclic): and two or three draws
        (0..20_000u32)
            .map(|k| {
                let r = |j: u64| mix(ctx.seed, (k as u64) * 4 + j) as u32;
                let edges = match k % 3 {
                    | 0 => r(0) & r(1),
                    | 1 => r(0) & r(1) & r(2),
                    | _ => r(0),
                } & 0xffff;
                (r(3) << 16 | edges) % total
            })
            .collect()
    };
    if ctx.tier == Tier::Thorough {
        report.exhaustive = Some(true);
    }
    let chunks: Vec<Vec<u32>> = codes.chunks(256).map(|c| c.to_vec()).collect();
    let r = run_items(ctx, "file-graphs", chunks, |chunk, stats| {
        for code in chunk {
            check_file_graph(ctx, &decode_file_graph(*code), stats)?;
        }
        Ok(())
    });
    report.absorb(r);
    let cases = ctx.tier.pick(6_000, 400_000);
    let r = run_tapes(ctx, "random-file-graphs", cases, 200, |tape, stats| check_file_graph(ctx, &random_file_graph(tape), stats));
    report.absorb(r);
    // (b)
    let cfg = ctx.tier.pick(Cfg::quick(), Cfg::thorough());
    let cases = ctx.tier.pick(700, 20_000);
    let r = run_tapes(ctx, "split-programs", cases, 700, |tape, stats| check_split(ctx, tape, &cfg, stats));
    report.absorb(r);
    // (c)
    let items: Vec<(String, String, bool, String)> = GENERATIVITY.iter().map(|(p, r, a, w)| (p.to_string(), r.to_string(), *a, w.to_string())).collect();
    let r = run_items(ctx, "generativity", items, |(provider, root, accepted, what), stats| {
        stats.eval();
        let dir = thread_dir(ctx).join("gen");
        let _ = std::fs::remove_dir_all(&dir);
        std::fs::create_dir_all(&dir).unwrap();
        std::fs::write(dir.join("t.zy"), format!("{provider}\n")).unwrap();
        std::fs::write(dir.join("root.zy"), format!("{root}\n")).unwrap();
        let session = CompilerSession::default();
        let front = catch(|| {
            let r = session.analyze(dir.join("root.zy"));
            drive::summarize(&session, &r)
        })
        .map_err(|p| Fail::new(format!("generativity-{}", p.signature()), "a verdict", p.describe()))?;
        let got = matches!(front.verdict, Verdict::Checked(_));
        if got != *accepted {
            return Err(Fail::new("generativity", format!("accepted = {accepted}: {what}"), format!("{:?} {:?}", front.verdict, front.kinds.first())).with(json!({"t.zy": provider, "root.zy": root})));
        }
        stats.nontrivial(hash_of(root));
        Ok(())
    });
    report.absorb(r);
    report.assume("providers are closed literal values (Int64, String, Char, Unit and products): an imported source starts from an empty environment, so it cannot mention the prelude");
    let _: Option<PathBuf> = None;
    report
}

pub fn replay(ctx: &Ctx, doc: &Value) -> Result<(), Fail> {
    let mut stats = Stats::new();
    if doc["stage"] == "split-programs" {
        let tape = unhex(doc["tape_hex"].as_str().unwrap_or(""));
        check_split(ctx, &tape, &Cfg::quick(), &mut stats)?;
        return check_split(ctx, &tape, &Cfg::thorough(), &mut stats);
    }
    if doc["stage"] == "random-file-graphs" {
        let tape = unhex(doc["tape_hex"].as_str().unwrap_or(""));
        return check_file_graph(ctx, &random_file_graph(&tape), &mut stats);
    }
    // file graphs are cheap: sweep them all
    for code in 0..(1u32 << 22) {
        check_file_graph(ctx, &decode_file_graph(code), &mut stats)?;
    }
    Ok(())
}
