//! Shared machinery of the formatter properties C12 (meaning), C13 (no lost text), C14 (idempotent /
//! canonical).

use crate::core::generate::Cfg;
use crate::core::harness as h;
use crate::core::print::{self, Names};
use crate::drive::{self, FmtOutcome};
use crate::engine::*;
use crate::props::c02::style_from;
use crate::scan::{self, CommentKind, Item, Kind};
use crate::surfgen;
use serde_json::{Value, json};
use std::path::PathBuf;

pub struct Bases {
    pub corpus: Vec<(PathBuf, String)>,
}

impl Bases {
    pub fn load(ctx: &Ctx) -> Bases {
        // only files that parse (all maintained sources should)
        let corpus = drive::corpus_texts(&ctx.repo_root)
            .into_iter()
            .filter(|(_, t)| matches!(drive::parse_unit(t), drive::ParseOutcome::Ok(_)))
            .collect();
        Bases { corpus }
    }
}

#[derive(Clone, Debug)]
pub struct FmtCase {
    pub text: String,
    pub origin: Value,
    pub has_directive: bool,
    pub odd_comment: bool,
}

const WIDTHS: &[&str] = &["1", "2", "3", "5", "8", "13", "20", "40", "79", "80", "100", "200"];

fn format_directive(t: &mut Tape) -> String {
    let mut opts = vec![];
    if t.chance(180) {
        opts.push(format!("width({})", t.pick(WIDTHS)));
    }
    if t.chance(100) {
        opts.push(format!("indent({})", 1 + t.below(8)));
    }
    if t.chance(100) {
        opts.push(format!("layout({})", ["preserve", "blank_lines", "ignore"][t.below(3)]));
    }
    if t.chance(100) {
        opts.push(format!("parentheses({})", ["minimal", "preserve"][t.below(2)]));
    }
    if t.chance(25) {
        opts.push("verbatim".to_string());
    }
    if opts.is_empty() {
        opts.push(format!("width({})", t.pick(WIDTHS)));
    }
    format!("@[format({})]", opts.join(", "))
}

const COMMENTS: &[&str] = &[
    "-- note\n",
    "--   spaced   \n",
    "/- block -/",
    "/- nested /- inner -/ tail -/",
    "/- multi\n   line\n -/",
    "--| text block\n",
    "--\n",
    "/--/",
    "-- a -/ b\n",
    "/- -- not a line comment -/ -/",
    // comment text that looks like code: delimiters, keywords, annotation brackets, string quotes
    "-- see [note] ) } end\n",
    "/- keep [as written] ( { -/",
    "--| doc ] with @[format(verbatim)] inside\n",
    "-- \"unterminated string\n",
    "/- end that in => -/",
    "--\n--\n",
    "-- last line empty\n--\n",
];

/// Positions (byte offsets of token starts) where a full term may start: after `=>`, `in`, `that`, `;`, `{`, `<-`.
fn term_starts(text: &str) -> Vec<usize> {
    let toks = scan::tokens(text);
    let mut out = vec![];
    let mut depth_meta = 0i32;
    for w in toks.windows(2) {
        let a = &text[w[0].start..w[0].end];
        if a == "[" {
            depth_meta += 1;
        }
        if a == "]" {
            depth_meta -= 1;
        }
        if depth_meta > 0 {
            continue;
        }
        if matches!(a, "=>" | "in" | "that" | ";" | "{" | "<-") {
            let b = &text[w[1].start..w[1].end];
            if !matches!(b, "}" | "end" | "|" | ")" | "in" | "that") {
                out.push(w[1].start);
            }
        }
    }
    out
}

fn relayout(t: &mut Tape, text: &str) -> String {
    let items = scan::scan(text);
    let mut out = String::new();
    let mode = t.below(4);
    let mut prev_end = 0usize;
    for (i, it) in items.iter().enumerate() {
        let (s, e, is_line) = match it {
            | Item::Tok(k) => (k.start, k.end, false),
            | Item::Com(c) => (c.start, c.end, !matches!(c.kind, CommentKind::Block)),
        };
        if i > 0 {
            let orig = &text[prev_end..s];
            let sep: String = match mode {
                | 0 => orig.to_string(),
                | 1 => if orig.contains('\n') { "\n".into() } else { " ".into() },
                | 2 => {
                    let b = t.byte();
                    if b < 150 { " ".into() } else if b < 215 { "\n".into() } else if b < 240 { format!("\n{}", " ".repeat(t.below(9))) } else { "\n\n".into() }
                }
                | _ => {
                    if orig.is_empty() { String::new() } else if t.chance(30) { "\n".into() } else if t.chance(30) { "   ".into() } else { orig.to_string() }
                }
            };
            // never glue two items that were separated
            if sep.is_empty() && !orig.is_empty() {
                out.push(' ');
            } else {
                out.push_str(&sep);
            }
        }
        let piece = &text[s..e];
        out.push_str(piece);
        if is_line && !piece.ends_with('\n') {
            out.push('\n');
        }
        prev_end = e;
    }
    if text.ends_with('\n') && !out.ends_with('\n') {
        out.push('\n');
    }
    out
}

fn gaps(text: &str) -> Vec<usize> {
    let mut g = vec![0usize];
    for it in scan::scan(text) {
        match it {
            | Item::Tok(t) => {
                g.push(t.start);
                g.push(t.end);
            }
            | Item::Com(c) => {
                g.push(c.start);
                g.push(c.end);
            }
        }
    }
    g.push(text.len());
    g.sort();
    g.dedup();
    g
}

fn insert_comments(t: &mut Tape, text: &str) -> (String, bool) {
    let mut cur = text.to_string();
    let mut odd = false;
    for _ in 0..1 + t.below(4) {
        let g = gaps(&cur);
        let toks = scan::tokens(&cur);
        // unconventional gap classes get extra weight: after the last token, right after `|`, `(`, `{`, `begin`,
        // before `end`, `)`, `}`, before `in`/`that`, between `]` and its payload
        let special: Vec<usize> = toks
            .iter()
            .filter_map(|k| {
                let s = &cur[k.start..k.end];
                if matches!(s, "|" | "(" | "{" | "begin" | "]" | "=" | "=>" | "<-" | "comatch" | "match") {
                    Some(k.end)
                } else if matches!(s, "end" | ")" | "}" | "in" | "that" | ";" | ",") {
                    Some(k.start)
                } else {
                    None
                }
            })
            .collect();
        let at = if !special.is_empty() && t.chance(160) {
            odd = true;
            special[t.below(special.len())]
        } else if t.chance(40) {
            odd = true;
            cur.len()
        } else {
            g[t.below(g.len())]
        };
        let c = t.pick(COMMENTS);
        cur = format!("{} {c} {}", &cur[..at], &cur[at..]);
    }
    (cur, odd)
}

fn wrap_literals(t: &mut Tape, text: &str) -> String {
    let toks = scan::tokens(text);
    let mut depth_meta = 0i32;
    let mut cands = vec![];
    for k in &toks {
        let s = &text[k.start..k.end];
        if s == "[" {
            depth_meta += 1;
        }
        if s == "]" {
            depth_meta -= 1;
        }
        if depth_meta == 0 && matches!(k.kind, Kind::Int | Kind::Str | Kind::Float | Kind::Char) {
            cands.push((k.start, k.end));
        }
    }
    if cands.is_empty() {
        return text.to_string();
    }
    let (s, e) = cands[t.below(cands.len())];
    let n = 1 + t.below(2);
    format!("{}{}{}{}{}", &text[..s], "(".repeat(n), &text[s..e], ")".repeat(n), &text[e..])
}

/// Build one case from the tape.
pub fn gen_case(_ctx: &Ctx, bases: &Bases, tape: &[u8]) -> FmtCase {
    let mut t = Tape::new(tape);
    let (mut text, mut origin) = match t.below(10) {
        | 0..=4 => {
            let (p, s) = &bases.corpus[t.below(bases.corpus.len())];
            (s.clone(), json!({"base": p}))
        }
        | 5..=6 => {
            let depth = 2 + t.below(5);
            let toks = {
                let mut g = surfgen::Gen::new(&mut t, 90, false);
                g.term(depth);
                g.out
            };
            (surfgen::layout(&mut t, &toks, true), json!({"base": "generated surface term"}))
        }
        | 7 => {
            // type- and pattern-heavy terms: `( x : T )`, `fn p => x`, `let p : T = x in x`
            let depth = 2 + t.below(4);
            let shape = t.below(3);
            let toks = {
                let mut g = surfgen::Gen::new(&mut t, 90, false);
                match shape {
                    | 0 => {
                        g.out.push("(".into());
                        g.out.push("x".into());
                        g.out.push(":".into());
                        g.ty(depth);
                        g.out.push(")".into());
                    }
                    | 1 => {
                        g.out.push("fn".into());
                        g.pattern(depth);
                        g.out.push("=>".into());
                        g.out.push("x".into());
                    }
                    | _ => {
                        g.out.push("let".into());
                        g.pattern(depth.min(3));
                        g.out.push(":".into());
                        g.ty(depth);
                        g.out.push("=".into());
                        g.out.push("x".into());
                        g.out.push("in".into());
                        g.out.push("x".into());
                    }
                }
                g.out
            };
            (surfgen::layout(&mut t, &toks, true), json!({"base": "generated type/pattern-heavy term"}))
        }
        | _ => {
            let g = h::generate(&tape[t.pos.min(tape.len())..], &Cfg::quick());
            t.pos = tape.len().saturating_sub(24);
            let style = style_from(&mut t);
            let names = Names::unique(&g.prog);
            let mut pr = print::Printer::new(&g.prog, &names, &style);
            pr.program();
            (print::join(&pr.out), json!({"base": "generated core program"}))
        }
    };
    let mut muts = vec![];
    let mut has_directive = false;
    let mut odd_comment = false;
    if t.chance(140) {
        text = relayout(&mut t, &text);
        muts.push("relayout");
    }
    if t.chance(150) {
        let (x, odd) = insert_comments(&mut t, &text);
        text = x;
        odd_comment = odd;
        muts.push("comments");
    }
    if t.chance(60) {
        text = wrap_literals(&mut t, &text);
        muts.push("parens");
    }
    if t.chance(110) {
        let starts = term_starts(&text);
        if !starts.is_empty() {
            let at = starts[t.below(starts.len())];
            text = format!("{}{} {}", &text[..at], format_directive(&mut t), &text[at..]);
            has_directive = true;
            muts.push("nested-directive");
        }
    }
    if t.chance(130) {
        // leading comments of the file stay in front
        text = format!("{} {}", format_directive(&mut t), text);
        has_directive = true;
        muts.push("root-directive");
    }
    origin["mutations"] = json!(muts);
    FmtCase { text, origin, has_directive, odd_comment }
}

/* ------------------------------ oracles ----------------------------------- */

#[derive(Clone, Debug, PartialEq)]
pub enum Atom {
    Ident(String),
    Int(i128),
    BigInt(String),
    Float(u64),
    Str(String),
    Char(String),
    Comment(CommentKind, String),
}

fn norm_comment(kind: CommentKind, raw: &str) -> String {
    match kind {
        | CommentKind::Line | CommentKind::Text => raw.trim_end().to_string(),
        | CommentKind::Block => raw.lines().map(|l| l.trim()).collect::<Vec<_>>().join("\n"),
    }
}

fn unescape(s: &str) -> String {
    let inner = &s[1..s.len() - 1];
    let mut out = String::new();
    let mut it = inner.chars();
    while let Some(c) = it.next() {
        if c == '\\' {
            match it.next() {
                | Some('n') => out.push('\n'),
                | Some('r') => out.push('\r'),
                | Some('t') => out.push('\t'),
                | Some(o) => out.push(o),
                | None => {}
            }
        } else {
            out.push(c);
        }
    }
    out
}

/// The interleaving of comments with atoms (identifiers, constructor/destructor names, literals by
/// value), after the symmetric pun normalisation `f = f` ≡ `= f`, `/f = f` ≡ `/f`.
pub fn atom_stream(text: &str) -> Vec<Atom> {
    let items = scan::scan(text);
    let mut out: Vec<Atom> = vec![];
    let mut i = 0;
    let tok_text = |it: &Item| match it {
        | Item::Tok(k) => Some((k.kind, &text[k.start..k.end])),
        | _ => None,
    };
    while i < items.len() {
        match &items[i] {
            | Item::Com(c) => out.push(Atom::Comment(c.kind, norm_comment(c.kind, &text[c.start..c.end]))),
            | Item::Tok(k) => {
                let s = &text[k.start..k.end];
                match k.kind {
                    | Kind::Upper | Kind::Lower | Kind::Ctor | Kind::Dtor => {
                        // pun normalisation: `ID = ID` (comments allowed in between; a comment there is
                        // what keeps the formatter from punning) counts as the comments, then ID once —
                        // the same stream the pun spelling `= ID` yields
                        // `ID )* = comments (* ID`: the pun spelling `= ID` and the explicit spelling `ID = ID` are
                        // the same field; the formatter converts between them (a comment keeps it from punning)
                        // and adds or removes redundant parentheses around either side, so those are skipped.
                        // The rule is context free on purpose: it reads input and output alike.
                        let mut j = i + 1;
                        let mut between: Vec<Atom> = vec![];
                        let mut seen_eq = false;
                        let mut matched = None;
                        while j < items.len() {
                            match &items[j] {
                                // (comments may sit on either side of the `=`: the formatter moves them across it)
                                | Item::Com(c) => between.push(Atom::Comment(c.kind, norm_comment(c.kind, &text[c.start..c.end]))),
                                | Item::Tok(k2) => {
                                    let s2 = &text[k2.start..k2.end];
                                    if !seen_eq && s2 == ")" {
                                    } else if !seen_eq && s2 == "=" {
                                        seen_eq = true;
                                    } else if seen_eq && s2 == "(" {
                                    } else if seen_eq && s2 == s && matches!(k2.kind, Kind::Upper | Kind::Lower) {
                                        matched = Some(j);
                                        break;
                                    } else {
                                        break;
                                    }
                                }
                            }
                            j += 1;
                        }
                        let _ = &tok_text;
                        if let Some(j) = matched {
                            out.extend(between);
                            out.push(Atom::Ident(s.to_string()));
                            i = j + 1;
                            continue;
                        }
                        out.push(Atom::Ident(s.to_string()))
                    }
                    | Kind::Int => match s.trim_start_matches('+').parse::<i128>() {
                        | Ok(v) => out.push(Atom::Int(v)),
                        | Err(_) => out.push(Atom::BigInt(s.trim_start_matches('+').trim_start_matches('0').to_string())),
                    },
                    | Kind::Float => out.push(Atom::Float(s.parse::<f64>().map(|f| f.to_bits()).unwrap_or(0))),
                    | Kind::Str => out.push(Atom::Str(unescape(s))),
                    | Kind::Char => out.push(Atom::Char(unescape(s))),
                    | _ => {}
                }
            }
        }
        i += 1;
    }
    out
}

pub fn comments_only(a: &[Atom]) -> Vec<Atom> {
    a.iter().filter(|x| matches!(x, Atom::Comment(..))).cloned().collect()
}

/// Verbatim regions: source slices of `@[format(... verbatim ...)] payload` are not easy to delimit
/// without the parser; we use the parsed tree: every Meta term whose meta is `format` with `verbatim`.
pub fn verbatim_slices(text: &str) -> Vec<String> {
    use zydeco_surface::textual::syntax::{EntityId, Term};
    use zydeco_syntax::MetaT;
    let drive::ParseOutcome::Ok(parsed) = drive::parse_unit(text) else { return vec![] };
    let mut out = vec![];
    for (_id, term) in parsed.parser.arena.terms.iter() {
        if let Term::Meta(MetaT(meta, payload)) = term {
            // only a directive that decodes (no duplicate / unknown options) is in force
            let is_verbatim = matches!(
                meta.specialize::<zydeco_surface::metadata::FormatMeta>(),
                Ok(Some(zydeco_surface::metadata::FormatMeta { verbatim: true, .. }))
            );
            if is_verbatim {
                let (s, e) = parsed.parser.spans[&EntityId::Term(*payload)].get_cursor1();
                if let Some(slice) = text.get(s..e) {
                    out.push(slice.to_string());
                }
            }
        }
    }
    out
}

pub fn fmt_ok(text: &str) -> Result<String, FmtOutcome> {
    match drive::format_text(text) {
        | FmtOutcome::Ok(s) => Ok(s),
        | other => Err(other),
    }
}

pub fn first_diff<T: PartialEq + std::fmt::Debug>(a: &[T], b: &[T]) -> String {
    for i in 0..a.len().max(b.len()) {
        if a.get(i) != b.get(i) {
            let lo = i.saturating_sub(2);
            return format!(
                "first difference at item {i}: input …{:?} vs output …{:?}",
                &a[lo.min(a.len())..(i + 2).min(a.len())],
                &b[lo.min(b.len())..(i + 2).min(b.len())]
            );
        }
    }
    "equal".into()
}

/// Run the real CLI.
pub fn run_cli(ctx: &Ctx, args: &[&str], stdin: &[u8]) -> (i32, Vec<u8>, Vec<u8>) {
    use std::io::Write;
    use std::process::{Command, Stdio};
    let mut child = Command::new(ctx.zydeco_bin())
        .args(args)
        .stdin(Stdio::piped())
        .stdout(Stdio::piped())
        .stderr(Stdio::piped())
        .env("NO_COLOR", "1")
        .spawn()
        .expect("spawn zydeco");
    let _ = child.stdin.take().unwrap().write_all(stdin);
    let out = child.wait_with_output().expect("wait zydeco");
    (out.status.code().unwrap_or(-1), out.stdout, out.stderr)
}

/// Comments of `text` that sit inside a metadata annotation (`@[ … ]` or `@( … )`), normalised.
pub fn metadata_comments(text: &str) -> Vec<Atom> {
    let items = scan::scan(text);
    let mut out = vec![];
    let mut depth = 0i32;
    let mut pending_at = false;
    let mut close: Vec<&str> = vec![];
    for it in &items {
        match it {
            | Item::Tok(k) => {
                let s = &text[k.start..k.end];
                if depth == 0 {
                    if s == "@" {
                        pending_at = true;
                        continue;
                    }
                    if pending_at && (s == "[" || s == "(") {
                        depth = 1;
                        close.push(if s == "[" { "]" } else { ")" });
                    }
                    pending_at = false;
                } else if s == "[" || s == "(" {
                    depth += 1;
                    close.push(if s == "[" { "]" } else { ")" });
                } else if Some(&s) == close.last() {
                    depth -= 1;
                    close.pop();
                }
            }
            | Item::Com(c) => {
                // a comment between `@` and its bracket counts as inside as well
                if depth > 0 || pending_at {
                    out.push(Atom::Comment(c.kind, norm_comment(c.kind, &text[c.start..c.end])));
                }
            }
        }
    }
    out
}

/// Remove every comment whose (kind, content) equals one of the listed comments.
pub fn without(stream: &[Atom], drop: &[Atom]) -> Vec<Atom> {
    stream.iter().filter(|a| !drop.contains(a)).cloned().collect()
}

/// Lexical context (previous token, next token) of the `k`-th comment of `text`, as a short class
/// string such as `|_Dtor` or `=_Lower`: keywords and punctuation by spelling, names by kind.
pub fn comment_context(text: &str, k: usize) -> String {
    let items = scan::scan(text);
    let class = |it: &Item| match it {
        | Item::Tok(t) => match t.kind {
            | Kind::Keyword | Kind::Punct => text[t.start..t.end].to_string(),
            | other => format!("{other:?}"),
        },
        | Item::Com(_) => "comment".to_string(),
    };
    let mut n = 0;
    for (i, it) in items.iter().enumerate() {
        if let Item::Com(_) = it {
            if n == k {
                let prev = items[..i].iter().rev().find(|x| matches!(x, Item::Tok(_))).map(class).unwrap_or_else(|| "START".into());
                let next = items[i + 1..].iter().find(|x| matches!(x, Item::Tok(_))).map(class).unwrap_or_else(|| "END".into());
                return format!("{prev}_{next}");
            }
            n += 1;
        }
    }
    "?".into()
}

/// Index (among comments) of the first comment whose neighbouring atoms differ between two streams
/// with equal comment sequences.
pub fn first_displaced_comment(a: &[Atom], b: &[Atom]) -> Option<usize> {
    let neigh = |s: &[Atom]| -> Vec<(Option<Atom>, Option<Atom>)> {
        let mut out = vec![];
        for (i, x) in s.iter().enumerate() {
            if matches!(x, Atom::Comment(..)) {
                let prev = s[..i].iter().rev().find(|y| !matches!(y, Atom::Comment(..))).cloned();
                let next = s[i + 1..].iter().find(|y| !matches!(y, Atom::Comment(..))).cloned();
                out.push((prev, next));
            }
        }
        out
    };
    let (na, nb) = (neigh(a), neigh(b));
    (0..na.len().min(nb.len())).find(|i| na[*i] != nb[*i])
}

/// Interleaving of comments with *separator* tokens (the boundaries of arms, bindings, statements and
/// tuple components): `;` `in` `that` `|` `=>` `,` `<-` `end` `begin`.
pub fn separator_stream(text: &str) -> Vec<Atom> {
    let mut out = vec![];
    for it in scan::scan(text) {
        match it {
            | Item::Com(c) => out.push(Atom::Comment(c.kind, norm_comment(c.kind, &text[c.start..c.end]))),
            | Item::Tok(k) => {
                let s = &text[k.start..k.end];
                if matches!(s, ";" | "in" | "that" | "|" | "=>" | "," | "<-" | "end" | "begin") {
                    out.push(Atom::Ident(s.to_string()));
                }
            }
        }
    }
    out
}

/// All comment indices whose neighbouring non-comment items differ between two streams.
pub fn displaced_comments(a: &[Atom], b: &[Atom]) -> Vec<usize> {
    let neigh = |s: &[Atom]| -> Vec<(Option<Atom>, Option<Atom>)> {
        let mut out = vec![];
        for (i, x) in s.iter().enumerate() {
            if matches!(x, Atom::Comment(..)) {
                let prev = s[..i].iter().rev().find(|y| !matches!(y, Atom::Comment(..))).cloned();
                let next = s[i + 1..].iter().find(|y| !matches!(y, Atom::Comment(..))).cloned();
                out.push((prev, next));
            }
        }
        out
    };
    let (na, nb) = (neigh(a), neigh(b));
    (0..na.len().min(nb.len())).filter(|i| na[*i] != nb[*i]).collect()
}
