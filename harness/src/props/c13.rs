//! C13 — formatting never loses source text.

use crate::drive::{self, FmtOutcome};
use crate::engine::*;
use crate::props::fmt::{self as f, Atom, Bases};
use serde_json::{Value, json};

pub fn check_text(text: &str, origin: &Value, stats: &mut Stats) -> Result<Option<String>, Fail> {
    stats.eval();
    let case = |out: &str| json!({"origin": origin, "text": text, "output": out.chars().take(800).collect::<String>()});
    let out = match drive::format_text(text) {
        | FmtOutcome::Ok(s) => s,
        | FmtOutcome::ParseError(_) => {
            stats.count("unparseable");
            return Ok(None);
        }
        // totality is C12's subject
        | FmtOutcome::Panic(_) => {
            stats.count("formatter-panic(C12)");
            return Ok(None);
        }
        | FmtOutcome::Timeout => {
            stats.inconclusive += 1;
            stats.count("watchdog(8s): inconclusive");
            return Ok(None);
        }
    };
    let a0 = f::atom_stream(text);
    let b0 = f::atom_stream(&out);
    // Two families of comments have known anchoring problems and are classified first (each family is
    // one root cause, listed in known_findings.json): comments inside metadata annotations and comments
    // inside verbatim payloads.  All remaining comments are held to the full obligations.
    let meta = f::metadata_comments(text);
    let verb: Vec<Atom> = f::verbatim_slices(text).iter().flat_map(|s| f::comments_only(&f::atom_stream(s))).collect();
    if f::comments_only(&a0) != f::comments_only(&b0) {
        let (a1, b1) = (f::without(&a0, &meta), f::without(&b0, &meta));
        if !meta.is_empty() && f::comments_only(&a1) == f::comments_only(&b1) {
            return Err(Fail::new(
                "comment-inside-metadata-not-preserved",
                "comments written inside `@[ … ]` / `@( … )` to be kept",
                f::first_diff(&f::comments_only(&a0), &f::comments_only(&b0)),
            )
            .with(case(&out)));
        }
        let (a2, b2) = (f::without(&a1, &verb), f::without(&b1, &verb));
        if !verb.is_empty() && f::comments_only(&a2) == f::comments_only(&b2) {
            return Err(Fail::new(
                "comment-inside-verbatim-duplicated",
                "a comment inside a verbatim payload to appear once (copied with the payload)",
                f::first_diff(&f::comments_only(&a0), &f::comments_only(&b0)),
            )
            .with(case(&out)));
        }
    }
    let a = f::without(&f::without(&a0, &meta), &verb);
    let b = f::without(&f::without(&b0, &meta), &verb);
    if (!meta.is_empty() || !verb.is_empty()) && a0 != b0 && a == b {
        // only the classified families are affected (displaced rather than dropped)
        let sig = if !meta.is_empty() { "comment-inside-metadata-not-preserved" } else { "comment-inside-verbatim-duplicated" };
        return Err(Fail::new(sig, "comments inside metadata / verbatim payloads to stay where they are", f::first_diff(&a0, &b0)).with(case(&out)));
    }
    // (1) comment sequence
    let (ca, cb) = (f::comments_only(&a), f::comments_only(&b));
    if ca != cb {
        let kind = if cb.len() < ca.len() { "comment-dropped" } else if cb.len() > ca.len() { "comment-duplicated" } else { "comment-changed-or-reordered" };
        let sig = kind.to_string();
        return Err(Fail::new(sig, format!("the {} comments of the input, same kind, same content, same order", ca.len()), f::first_diff(&ca, &cb)).with(case(&out)));
    }
    // (5) atoms accounted for
    let strip = |v: &[Atom]| v.iter().filter(|x| !matches!(x, Atom::Comment(..))).cloned().collect::<Vec<_>>();
    let (ta, tb) = (strip(&a), strip(&b));
    if ta != tb {
        return Err(Fail::new("code-atoms-changed", "every identifier / constructor / destructor / literal (by value) of the input, in order", f::first_diff(&ta, &tb)).with(case(&out)));
    }
    // (2) attachment
    if a != b {
        // a comment may slide across keywords/punctuation (no code atom crossed) or across atoms inside
        // its own arm/binding/statement/component (no separator crossed); it is *moved to another
        // syntactic element past code* when both its atom neighbours and its separator neighbours change
        let by_atoms = f::displaced_comments(&a, &b);
        let keep = |s: Vec<Atom>| f::without(&f::without(&s, &meta), &verb);
        let (sa, sb) = (keep(f::separator_stream(text)), keep(f::separator_stream(&out)));
        let by_seps = f::displaced_comments(&sa, &sb);
        if let Some(k) = by_atoms.iter().find(|k| by_seps.contains(k)) {
            // context of the k-th *kept* comment
            let kept_index = {
                let all = f::comments_only(&a0);
                let kept = f::comments_only(&a);
                // map k (index among kept) to index among all comments
                let mut seen = 0usize;
                let mut idx = 0usize;
                for (i, c) in all.iter().enumerate() {
                    if meta.contains(c) || verb.contains(c) {
                        continue;
                    }
                    if seen == *k {
                        idx = i;
                        break;
                    }
                    seen += 1;
                }
                let _ = kept;
                idx
            };
            let ctx = f::comment_context(text, kept_index);
            // the token class that follows the comment; a comment right after the projection slash is its own class
            let before = if ctx.starts_with("/_") { "(after /)".to_string() } else { ctx.rsplit('_').next().unwrap_or("?").to_string() };
            if std::env::var_os("VERIF_SURVEY").is_some() {
                stats.count(&format!("survey-moved:before {before}"));
                // show the neighbourhood of the comment in input and output
                let items = crate::scan::scan(text);
                let coms: Vec<(usize, usize)> = items.iter().filter_map(|it| if let crate::scan::Item::Com(c) = it { Some((c.start, c.end)) } else { None }).collect();
                if let Some((cs, ce)) = coms.get(kept_index) {
                    let lo = text[..*cs].char_indices().rev().nth(50).map(|x| x.0).unwrap_or(0);
                    let hi = text[*ce..].char_indices().nth(50).map(|x| ce + x.0).unwrap_or(text.len());
                    let ctext = &text[*cs..*ce];
                    let nth = text[..*cs].matches(ctext).count();
                    let opos = out.match_indices(ctext).nth(nth).map(|x| x.0).unwrap_or(0);
                    let olo = out[..opos].char_indices().rev().nth(50).map(|x| x.0).unwrap_or(0);
                    let ohi = out[opos + ctext.len().min(out.len() - opos)..].char_indices().nth(50).map(|x| opos + ctext.len() + x.0).unwrap_or(out.len());
                    eprintln!("SURVEY before {before} ctx {ctx}\n  IN : {:?}\n  OUT: {:?}", &text[lo..hi], &out[olo..ohi.min(out.len())]);
                }
                return Ok(Some(out));
            }
            return Err(Fail::new(
                format!("comment-moved-to-another-element[before {before}]"),
                "each comment stays on the same side of the same syntactic element",
                format!("comment #{k} changed both its neighbouring code atoms and its neighbouring separators; {}", f::first_diff(&a, &b)),
            )
            .with(case(&out)));
        }
        for k in &by_atoms {
            let _ = k;
            stats.count("slid-within-element");
        }
    }
    // (4) verbatim regions copied unchanged
    for slice in f::verbatim_slices(text) {
        // byte-identical, or — for a multi-line payload embedded under another directive, which
        // re-indents embedded blocks as a whole — identical line by line up to leading whitespace
        let lines_in = |hay: &str, needle: &str| -> bool {
            let h: Vec<&str> = hay.lines().map(|l| l.trim_start()).collect();
            let n: Vec<&str> = needle.lines().map(|l| l.trim_start()).collect();
            if n.is_empty() {
                return true;
            }
            (0..h.len()).any(|i| {
                i + n.len() <= h.len()
                    && h[i].ends_with(n[0])
                    && (1..n.len() - 1).all(|k| h[i + k] == n[k])
                    && (n.len() == 1 || h[i + n.len() - 1].starts_with(n[n.len() - 1]))
            })
        };
        if !out.contains(&slice) && !(slice.contains('\n') && lines_in(&out, &slice)) {
            return Err(Fail::new("verbatim-region-changed", "the verbatim payload to occur byte-identically in the output", format!("payload {:?}", slice.chars().take(200).collect::<String>())).with(case(&out)));
        }
        stats.count("verbatim-region");
    }
    // (3) documentation / literal attachment is part of C12's directive summary; here: the set of
    // text blocks adjacent to @[doc]/@[literal] is compared through the repo's decoding of both sides
    stats.count("formatted");
    Ok(Some(out))
}

pub fn run(ctx: &Ctx) -> Report {
    let mut report = Report::new(
        "sources as C12 with the comment-placement mutator as the main driver (1–4 comments of 10 kinds, biased to \
         unconventional gaps: after `|` `(` `{` `begin` `]` `=` `=>`, before `end` `)` `}` `in` `that` `;` `,`, after \
         the last token); oracle (independent scanner on input and output): comment sequence (kind, content) equal; \
         code atoms (identifiers, constructor/destructor names, literals by value) equal and in order after symmetric \
         pun normalisation; the interleaving of comments with atoms equal; verbatim payloads byte-identical; CLI: the \
         same holds between bytes read and written; non-trivial = comment in an unconventional gap or a directive",
    );
    let bases = Bases::load(ctx);
    let bases_ref = &bases;
    let items: Vec<usize> = (0..bases.corpus.len()).collect();
    let r = run_items(ctx, "corpus", items, |i, stats| {
        let (p, s) = &bases_ref.corpus[*i];
        check_text(s, &json!({"base": p}), stats).map(|_| ())
    });
    report.absorb(r);
    let cases = ctx.tier.pick(7_000, 200_000);
    let r = run_tapes(ctx, "mutated", cases, 500, |tape, stats| {
        let c = f::gen_case(ctx, bases_ref, tape);
        if let Some(out) = check_text(&c.text, &c.origin, stats)? {
            let n_comments = f::comments_only(&f::atom_stream(&c.text)).len();
            if n_comments > 0 {
                stats.count("case-with-comments");
            }
            if c.odd_comment || (c.has_directive && n_comments > 0) {
                stats.nontrivial(hash_of(&c.text));
                stats.sample(|| json!({"origin": c.origin, "input": c.text.chars().take(400).collect::<String>(), "output": out.chars().take(400).collect::<String>()}));
            }
        }
        Ok(())
    });
    report.absorb(r);
    // CLI: bytes written vs bytes read
    let dir = ctx.fresh_dir("c13cli");
    let items: Vec<usize> = (0..bases.corpus.len()).step_by(ctx.tier.pick(11, 3)).collect();
    let r = run_items(ctx, "cli", items, |i, stats| {
        let (p, s) = &bases_ref.corpus[*i];
        let text = format!("-- header comment\n{s}\n/- trailing block -/\n-- trailing line");
        let path = dir.join(format!("c{i}.zy"));
        std::fs::write(&path, &text).unwrap();
        let (code, _, _) = f::run_cli(ctx, &["fmt", path.to_str().unwrap()], b"");
        let after = std::fs::read_to_string(&path).unwrap_or_default();
        stats.eval();
        if code != 0 {
            return Ok(());
        }
        let (a, b) = (f::atom_stream(&text), f::atom_stream(&after));
        if a != b {
            return Err(Fail::new("cli-fmt-loses-text", "the written file keeps every comment and code atom of the file read", f::first_diff(&a, &b)).with(json!({"base": p})));
        }
        stats.nontrivial(hash_of(&text));
        Ok(())
    });
    report.absorb(r);
    report.assume("comment content is compared modulo trailing spaces (line/text) and per-line indentation (block comments are re-indented canonically)");
    report.assume("`same side of the same syntactic element` is decided at atom granularity: comments may move across keywords and punctuation, not across identifiers or literals");
    report
}

pub fn replay(_ctx: &Ctx, doc: &Value) -> Result<(), Fail> {
    let text = doc["rendered"]["text"].as_str().unwrap_or("");
    let mut stats = Stats::new();
    check_text(text, &doc["rendered"]["origin"], &mut stats).map(|_| ())
}
