//! C11 — a source is parsed in full or rejected: no silent truncation.
//!
//! Oracle: S-scan (independent scanner).  Whenever `SourceUnitParser` accepts a text, the root term's
//! span must start at the first and end at the last token *outside comments* of the whole text.

use crate::drive::{self, ParseOutcome};
use crate::engine::*;
use crate::scan::{self, Item};
use serde_json::{Value, json};

pub const SNIPPETS: &[&str] = &[
    "ret 1",
    "ret ()",
    "fn x => ret x",
    "fn (x : Int64) (y : Int64) => ret (x, y)",
    "do x <- ret 1; ret x",
    "let x = 1 in ret x",
    "begin let x = 1 that ret x end",
    "match +A() | +A() => ret 1 | +B(x) => ret x end",
    "comatch | .a => ret 1 | .b x => ret x end",
    "{ ret 1 }",
    "! f x y",
    "(f .d) 1",
    "data | +A : Unit | +B : Int64 end",
    "codata | .a : Ret Int64 end",
    "forall (X : VType) . X -> Ret X",
    "exists (X : VType) . X * Thk (X -> Ret Int64)",
    "(x = 1, y = \"two\")",
    "r/x",
    "@[debug(\"x\")] ret 'c'",
    "@(import(\"a.zy\"))",
    "fix (f : Thk (Int64 -> Ret Int64)) => fn n => ! f n",
    "-- leading comment\nret 1 -- trailing comment\n",
    "/- block /- nested -/ comment -/ ret /- inner -/ 1",
    "--| doc\n@[doc] ret 1.5e3",
    "let (a; (b, c)) = (1, 2) in ret a",
    "let ! f (x : Int64) : Ret Int64 = ret x in ! f 1",
    "pi (x : A) . B",
    "def T = Int64 in ret (1 : T)",
    "param (x : Int64) in ret x",
    "ret (1 : Int64)",
];

/// Lexical irregularities (each is inserted surrounded by the given padding).
pub const IRREGULARITIES: &[&str] = &[
    "-/",
    "-/ garbage (((",
    "/-",
    "/- never closed",
    "/- -- hides -/",
    "#",
    "$",
    "`",
    "\\",
    "\u{1}",
    "\u{0}",
    "é",
    "\r",
    "~",
    "^",
    "%",
    "&",
    "?",
    "\"unterminated",
    "\"bad \\\n escape\"",
    "'ab'",
    "'\\q'",
    "'",
    "1e",
    "0x1F",
    "--| text line without newline",
    "-- comment -/",
    "- /",
    "-",
    "\u{2028}",
    // tokens whose *value* the lexer or a grammar action may refuse: the refusal must be an error, not an end of input
    "170141183460469231731687303715884105728",
    "340282366920938463463374607431768211456 ) junk (",
    "/- build 99999999999999999999999999999999999999999 -/",
    "1e999999",
    "'''",
    "'\\'",
    "\u{a0}",
    "\u{b}",
    "\r\n",
    "\u{feff}",
    "\"\\u{110000}\"",
    "\u{feff}",
    "-/-/",
    "/--/ -/",
];

fn code_extent(text: &str) -> Option<(usize, usize)> {
    let items = scan::scan(text);
    let mut first = None;
    let mut last = None;
    for it in &items {
        if let Item::Tok(t) = it {
            if first.is_none() {
                first = Some(t.start);
            }
            last = Some(t.end);
        }
    }
    Some((first?, last?))
}

pub fn check_text(text: &str, origin: &Value, stats: &mut Stats) -> Result<(), Fail> {
    stats.eval();
    match drive::parse_unit(text) {
        | ParseOutcome::Rejected(_) => {
            stats.count("rejected");
            Ok(())
        }
        | ParseOutcome::Panic(_) => {
            // a crash is C10's subject; not a silent truncation
            stats.count("parser_panic(counted under C10)");
            Ok(())
        }
        | ParseOutcome::Ok(parsed) => {
            stats.count("accepted");
            let span = parsed.root_span();
            let Some(extent) = code_extent(text) else {
                return Err(Fail::new(
                    "accepted-empty",
                    "a text without code tokens to be rejected",
                    format!("accepted with root span {span:?}"),
                )
                .with(json!({"origin": origin, "text": text})));
            };
            let has_comment = scan::scan(text).iter().any(|i| matches!(i, Item::Com(_)));
            if has_comment || origin["irregularity"].is_string() {
                stats.nontrivial(hash_of(text));
            }
            if span != extent {
                let ignored = if span.1 < extent.1 { &text[span.1..extent.1] } else { "" };
                let mut shown: String = ignored.chars().take(120).collect();
                if ignored.len() > shown.len() {
                    shown.push('…');
                }
                let sig = if span.1 < extent.1 {
                    let items = scan::scan(text);
                    // which token follows the parsed extent?
                    let next = items.iter().find_map(|i| match i {
                        | Item::Tok(t) if t.start >= span.1 => Some(format!("{:?}", t.kind)),
                        | _ => None,
                    });
                    format!("truncated-after-root[next={}]", next.unwrap_or_default())
                } else if span.0 != extent.0 {
                    "root-span-start-mismatch".to_string()
                } else {
                    "root-span-beyond-tokens".to_string()
                };
                return Err(Fail::new(
                    sig,
                    format!("accepted ⇒ root span == extent of all non-comment tokens {extent:?}"),
                    format!("root span {span:?}; unparsed code text: {shown:?}"),
                )
                .with(json!({"origin": origin, "text": text})));
            }
            Ok(())
        }
    }
}

fn gaps(text: &str) -> Vec<usize> {
    let mut g = vec![0usize];
    for it in scan::scan(text) {
        let (s, e) = match it {
            | Item::Tok(t) => (t.start, t.end),
            | Item::Com(c) => (c.start, c.end),
        };
        g.push(s);
        g.push(e);
    }
    g.push(text.len());
    g.sort();
    g.dedup();
    g.retain(|p| text.is_char_boundary(*p));
    g
}

fn insert(text: &str, at: usize, what: &str, pad: usize) -> String {
    let (l, r) = match pad {
        | 0 => ("", ""),
        | 1 => (" ", " "),
        | 2 => ("\n", "\n"),
        | _ => (" ", ""),
    };
    format!("{}{l}{what}{r}{}", &text[..at], &text[at..])
}

pub fn run(ctx: &Ctx) -> Report {
    let mut report = Report::new(
        "bases = every repository source (lib/**, docs/spell/**) and 30 grammar snippets; cases = base with 0–2 \
         lexical irregularities (44 kinds) inserted at token gaps with 4 paddings, or appended; small bases \
         exhaustively (all gaps × all irregularities × paddings); oracle = independent scanner: accepted ⇒ root \
         span covers first..last non-comment token; non-trivial = accepted text containing a comment or an \
         irregularity; distinct by text hash",
    );
    let corpus = drive::corpus_texts(&ctx.repo_root);
    let mut bases: Vec<(String, String)> =
        SNIPPETS.iter().enumerate().map(|(i, s)| (format!("snippet#{i}"), s.to_string())).collect();
    let n_snip = bases.len();
    for (p, t) in &corpus {
        bases.push((p.display().to_string(), t.clone()));
    }
    // stage 0: every base unmodified (also validates the oracle on the maintained corpus)
    let r = run_items(ctx, "bases", bases.clone(), |(name, text), stats| {
        check_text(text, &json!({"base": name}), stats)
    });
    report.absorb(r);
    // stage 1: exhaustive over snippets
    let mut items = vec![];
    for b in 0..n_snip {
        for (k, _) in IRREGULARITIES.iter().enumerate() {
            items.push((b, k));
        }
    }
    let bases_ref = &bases;
    let r = run_items(ctx, "snippets-exhaustive", items, |(b, k), stats| {
        let (name, text) = &bases_ref[*b];
        for at in gaps(text) {
            for pad in 0..4 {
                let t = insert(text, at, IRREGULARITIES[*k], pad);
                let origin = json!({"base": name, "irregularity": IRREGULARITIES[*k], "at": at, "pad": pad});
                check_text(&t, &origin, stats)?;
                if at == text.len() && pad == 1 && *k % 7 == 0 {
                    stats.sample(|| json!({"origin": origin, "text": t}));
                }
            }
        }
        Ok(())
    });
    report.absorb(r);
    // stage 2: random over all bases, up to two irregularities
    let cases = ctx.tier.pick(150_000, 1_500_000);
    let r = run_tapes(ctx, "corpus-random", cases, 24, |tape, stats| {
        let mut t = Tape::new(tape);
        let b = t.below(bases_ref.len());
        let (name, text) = &bases_ref[b];
        let g = gaps(text);
        // bias towards the end of the file: truncation hides a suffix
        let at = if t.flag() { g[g.len() - 1 - t.below(g.len().min(6))] } else { g[t.below(g.len())] };
        let k = t.below(IRREGULARITIES.len());
        let pad = t.below(4);
        let mut out = insert(text, at, IRREGULARITIES[k], pad);
        let mut origin = json!({"base": name, "irregularity": IRREGULARITIES[k], "at": at, "pad": pad});
        if t.chance(64) {
            let g2 = gaps(&out);
            let at2 = g2[t.below(g2.len())];
            let k2 = t.below(IRREGULARITIES.len());
            out = insert(&out, at2, IRREGULARITIES[k2], t.below(4));
            origin["second"] = json!({"irregularity": IRREGULARITIES[k2], "at": at2});
        }
        check_text(&out, &origin, stats)
    });
    report.absorb(r);
    report.assume("S-scan implements the token definitions of lexer.rs read as specification (cross-checked by `zyverif selftest`)");
    report.assume("an unterminated `/-` comments out the rest of the file (the repo's tooling lexer and its test say so)");
    if ctx.tier == Tier::Thorough && std::env::var_os("VERIF_NO_FUZZ").is_none() {
        crate::fuzzrun::campaign(ctx, "C11", 300_000, &mut report);
    }
    report
}

pub fn replay(_ctx: &Ctx, doc: &Value) -> Result<(), Fail> {
    let text = doc["rendered"]["text"].as_str().unwrap_or("");
    let mut stats = Stats::new();
    check_text(text, &doc["rendered"]["origin"], &mut stats)
}
