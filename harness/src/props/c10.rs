//! C10 — the front end is total: any input yields success or a diagnostic.

use crate::drive::{self, Front, Verdict};
use crate::engine::*;
use crate::scan::{self, Item};
use crate::surfgen;
use serde_json::{Value, json};
use std::path::{Path, PathBuf};
use zydeco_session::CompilerSession;

/// The prelude every generated body is wrapped in (same shape as lang/tests SourceCase::wrap).
pub fn prelude(repo: &Path) -> String {
    let builtin = repo.join("lib/std/builtin.zy");
    format!(
        r#"let Builtin = @[import("{}")] _ in
param (
  (/core; /representations; /numeric; /text; /system; builtin) :
  Builtin
) in
let (/VType; /CType; /Thk; /Ret; /Unit) = core in
let (/Scalar = Int8) = representations/i8 in
let (/Scalar = Int16) = representations/i16 in
let (/Scalar = Int32) = representations/i32 in
let (/Scalar = Int64) = representations/i64 in
let (/Scalar = UInt8) = representations/u8 in
let (/Scalar = UInt16) = representations/u16 in
let (/Scalar = UInt32) = representations/u32 in
let (/Scalar = UInt64) = representations/u64 in
let (/Scalar = Float32) = representations/f32 in
let (/Scalar = Float64) = representations/f64 in
let (/Scalar = Char) = representations/char in
let (/Scalar = String) = representations/string in
let (/Scalar = Bytes) = representations/bytes in
let (Scalar = NumericInt64, int64) = numeric/int64 in
let (/Reader; /Writer; /OS; /process; /stdio) = system in
let exit = process/exit in
"#,
        builtin.display()
    )
}

/// Validate every location the diagnostics mention.
pub fn check_locations(front: &Front, extra_sources: &[(PathBuf, String)]) -> Result<(), (String, String)> {
    let lookup = |p: &Path| -> Option<String> {
        front
            .sources
            .iter()
            .chain(extra_sources.iter())
            .find(|(q, _)| q == p)
            .map(|(_, s)| s.clone())
            .or_else(|| std::fs::read_to_string(p).ok())
    };
    for (path, range) in &front.spans {
        let Some(text) = lookup(path) else {
            return Err((
                "location-in-unknown-file".into(),
                format!("diagnostic names {} which is not a source of the analysis", path.display()),
            ));
        };
        if range.start > range.end
            || range.end > text.len()
            || !text.is_char_boundary(range.start)
            || !text.is_char_boundary(range.end)
        {
            return Err((
                "location-outside-file".into(),
                format!("span {range:?} in {} (len {})", path.display(), text.len()),
            ));
        }
    }
    // textual `path:line:col` mentions
    let plain = drive::strip_ansi(&front.rendered);
    for (path, text) in front.sources.iter().chain(extra_sources.iter()) {
        let p = path.display().to_string();
        let lines: Vec<&str> = text.split('\n').collect();
        // ariadne also breaks lines at VT, FF, CR, NEL, LS and PS; with such characters present only
        // a generous line bound is checked (the structured byte spans above are exact)
        let exotic = text.chars().filter(|c| matches!(c, '\x0b' | '\x0c' | '\r' | '\u{85}' | '\u{2028}' | '\u{2029}')).count();
        let mut from = 0;
        while let Some(i) = plain[from..].find(&p) {
            let rest = &plain[from + i + p.len()..];
            from += i + p.len();
            // parse (:L:C)( - L:C)?
            let mut nums = vec![];
            let mut r = rest;
            loop {
                let Some(stripped) = r.strip_prefix(':') else { break };
                let digits: String = stripped.chars().take_while(|c| c.is_ascii_digit()).collect();
                if digits.is_empty() {
                    break;
                }
                nums.push(digits.parse::<usize>().unwrap_or(usize::MAX));
                r = &stripped[digits.len()..];
                if nums.len() == 2 {
                    if let Some(s2) = r.strip_prefix(" - ") {
                        // second cursor has no path prefix: "L:C"
                        let d1: String = s2.chars().take_while(|c| c.is_ascii_digit()).collect();
                        if !d1.is_empty() && s2[d1.len()..].starts_with(':') {
                            let s3 = &s2[d1.len() + 1..];
                            let d2: String = s3.chars().take_while(|c| c.is_ascii_digit()).collect();
                            if !d2.is_empty() {
                                nums.push(d1.parse().unwrap_or(usize::MAX));
                                nums.push(d2.parse().unwrap_or(usize::MAX));
                            }
                        }
                    }
                    break;
                }
            }
            for pair in nums.chunks(2) {
                if let [l, c] = pair {
                    let ok = if exotic > 0 {
                        *l >= 1 && *l <= lines.len() + exotic && *c >= 1 && *c <= text.len() + 2
                    } else {
                        *l >= 1 && *l <= lines.len() && *c >= 1 && *c <= lines[*l - 1].len() + 2
                    };
                    if !ok {
                        return Err((
                            "line-col-outside-file".into(),
                            format!("{}:{l}:{c} but the file has {} lines", p, lines.len()),
                        ));
                    }
                }
            }
        }
    }
    Ok(())
}

pub struct CaseResult {
    pub phase: String,
    pub kind: String,
}

/// Analyse `text` installed as an overlay at `path` (so relative imports of repository sources keep
/// working) and validate the outcome.
pub fn check_input(path: &Path, text: &str, origin: &Value, stats: &mut Stats) -> Result<CaseResult, Fail> {
    stats.eval();
    let render = |sig: String, exp: &str, obs: String| {
        Fail::new(sig, exp, obs).with(json!({"origin": origin, "path": path, "text": text}))
    };
    let r = catch(|| {
        let mut session = CompilerSession::default();
        session.set_overlay(path, text.to_string()).ok();
        let result = session.analyze(path);
        drive::summarize(&session, &result)
    });
    match r {
        | Err(p) => Err(render(
            p.signature(),
            "success or an error value from parse/desugar/resolve/check/render",
            p.describe(),
        )),
        | Ok(front) => {
            let extra = vec![(path.to_path_buf(), text.to_string())];
            if let Err((sig, obs)) = check_locations(&front, &extra) {
                return Err(render(sig, "every diagnostic location inside the file it names", obs));
            }
            let (phase, kind) = match &front.verdict {
                | Verdict::Checked(sort) => ("checked".to_string(), format!("checked:{sort}")),
                | Verdict::Rejected => {
                    ("tyck".to_string(), front.kinds.first().cloned().unwrap_or_else(|| "rejected".into()))
                }
                | Verdict::Error(phase) => (phase.clone(), front.kinds.first().cloned().unwrap_or_default()),
            };
            stats.count(&format!("phase:{phase}"));
            // non-trivial: got past parsing, or a distinct error kind
            let generic: String = kind.chars().filter(|c| !c.is_ascii_digit()).take(48).collect();
            if phase != "source" {
                stats.nontrivial(hash_of(text));
            } else {
                stats.nontrivial(hash_of(&generic));
            }
            Ok(CaseResult { phase, kind })
        }
    }
}

/// Replace one token by another token of the same lexical kind taken from the same file (keeps the
/// text syntactically valid, so the checker — not the parser — decides).
pub fn mutate_same_kind(t: &mut Tape, text: &str) -> (String, String) {
    let toks = scan::tokens(text);
    let interesting: Vec<&scan::Token> = toks
        .iter()
        .filter(|k| {
            matches!(
                k.kind,
                scan::Kind::Lower | scan::Kind::Upper | scan::Kind::Ctor | scan::Kind::Dtor | scan::Kind::Int | scan::Kind::Str
            )
        })
        .collect();
    if interesting.len() < 2 {
        return (text.to_string(), "none".into());
    }
    let a = interesting[t.below(interesting.len())];
    let same: Vec<&&scan::Token> = interesting
        .iter()
        .filter(|b| b.kind == a.kind && text[b.start..b.end] != text[a.start..a.end])
        .collect();
    if same.is_empty() {
        return (text.to_string(), "none".into());
    }
    let b = same[t.below(same.len())];
    (
        format!("{}{}{}", &text[..a.start], &text[b.start..b.end], &text[a.end..]),
        format!("replace {:?} `{}` at {} by `{}`", a.kind, &text[a.start..a.end], a.start, &text[b.start..b.end]),
    )
}

pub fn mutate_tokens(t: &mut Tape, text: &str) -> (String, String) {
    let items = scan::scan(text);
    let toks: Vec<&scan::Token> = items.iter().filter_map(|i| if let Item::Tok(t) = i { Some(t) } else { None }).collect();
    if toks.is_empty() {
        return (text.to_string(), "none".into());
    }
    let i = t.below(toks.len());
    let a = toks[i];
    let vocab = scan::vocabulary();
    match t.below(7) {
        | 0 => (format!("{}{}", &text[..a.start], &text[a.end..]), format!("delete token {i}")),
        | 1 => (
            format!("{}{} {}", &text[..a.end], "", &text[a.start..]),
            format!("duplicate token {i}"),
        ),
        | 2 if i + 1 < toks.len() => {
            let b = toks[i + 1];
            (
                format!("{}{}{}{}{}", &text[..a.start], &text[b.start..b.end], &text[a.end..b.start], &text[a.start..a.end], &text[b.end..]),
                format!("swap tokens {i},{}", i + 1),
            )
        }
        | 3 => {
            // replace by another token of the same file
            let j = t.below(toks.len());
            let b = toks[j];
            (
                format!("{}{}{}", &text[..a.start], &text[b.start..b.end], &text[a.end..]),
                format!("replace token {i} by token {j}"),
            )
        }
        | 4 => {
            let v = *t.pick(&vocab);
            (format!("{} {} {}", &text[..a.start], v, &text[a.end..]), format!("replace token {i} by `{v}`"))
        }
        | 5 => {
            let v = *t.pick(&vocab);
            (format!("{} {} {}", &text[..a.start], v, &text[a.start..]), format!("insert `{v}` before token {i}"))
        }
        | _ => {
            // truncate after token i
            (text[..a.end].to_string(), format!("truncate after token {i}"))
        }
    }
}

/// Shrunk inputs of defects found (and repaired) earlier: a plain regression tier that bypasses proptest.
pub const REGRESSIONS: &[&str] = &[
    "ret 170141183460469231731687303715884105728",
    "ret -170141183460469231731687303715884105729",
    "@[import(99999999999999999999)] _",
    "@[format(width(99999999999999999999))] ret 1",
    "codata | .a .b : X end",
    "fix () => ret 1",
    "fix _ => ret 1",
    "begin def A : A = A that ret 0 end",
    "! _",
    "_",
    "ret _",
    "ret 1 -/ garbage (((",
    "\x0cA",
    "A\r\nB",
    "\u{2028}x",
];

pub fn run(ctx: &Ctx) -> Report {
    let mut report = Report::new(
        "inputs: (a) grammar-directed surface terms over every production with extreme literals and arbitrary \
         metadata, wrapped in the Builtin prelude or bare; (b) 1–3 token-level mutations (delete/duplicate/swap/\
         replace/insert/truncate) of every repository source, analysed as an overlay at the original path; \
         (c) raw token soup and raw bytes; oracle: analyze + diagnostic rendering return, no unwind, every \
         location inside its file; non-trivial = reaches a phase after parsing (distinct by text) or a distinct \
         parse-error kind",
    );
    let corpus = drive::corpus_texts(&ctx.repo_root);
    let pre = prelude(&ctx.repo_root);
    let dir = ctx.fresh_dir("c10");
    let case_path = dir.join("case.zy");
    std::fs::write(&case_path, "ret 0\n").unwrap();

    // (0) regression tier: earlier findings, bare and under the prelude
    let mut regress: Vec<String> = REGRESSIONS.iter().map(|s| s.to_string()).collect();
    regress.extend(REGRESSIONS.iter().map(|s| format!("{pre}{s}\n")));
    regress.push(format!("{pre}! (process/exit) _\n"));
    regress.push(format!("{pre}let x : _ = 5 in ! (process/exit) x\n"));
    let case_path_ref = &case_path;
    let r = run_items(ctx, "regressions", regress, |text, stats| {
        check_input(case_path_ref, text, &json!({"stage": "regressions"}), stats).map(|_| ())
    });
    report.absorb(r);

    // (a) generated surface terms
    let cases = ctx.tier.pick(12_000, 400_000);
    let r = run_tapes(ctx, "generated-terms", cases, 700, |tape, stats| {
        let mut t = Tape::new(tape);
        let wrap = t.chance(200);
        let depth = 2 + t.below(5);
        let toks = {
            let mut g = surfgen::Gen::new(&mut t, 80, true);
            g.term(depth);
            g.out
        };
        let body = surfgen::layout(&mut t, &toks, true);
        let text = if wrap { format!("{pre}{body}") } else { body };
        let origin = json!({"stage": "generated-terms", "wrapped": wrap});
        let res = check_input(&case_path, &text, &origin, stats)?;
        if res.phase == "tyck" || res.phase == "checked" {
            stats.sample(|| json!({"body": text[if wrap { pre.len() } else { 0 }..].to_string(), "outcome": res.kind}));
        }
        Ok(())
    });
    report.absorb(r);

    // (b) token mutations of repository sources
    let cases = ctx.tier.pick(8_000, 300_000);
    let corpus_ref = &corpus;
    let r = run_tapes(ctx, "corpus-mutations", cases, 40, |tape, stats| {
        let mut t = Tape::new(tape);
        let (path, text) = &corpus_ref[t.below(corpus_ref.len())];
        let mut cur = text.clone();
        let mut descr = vec![];
        for _ in 0..1 + t.below(3) {
            let (next, d) = mutate_tokens(&mut t, &cur);
            cur = next;
            descr.push(d);
        }
        let origin = json!({"stage": "corpus-mutations", "base": path, "mutations": descr});
        check_input(path, &cur, &origin, stats)?;
        Ok(())
    });
    report.absorb(r);

    // (c) token soup / raw bytes
    let cases = ctx.tier.pick(6_000, 300_000);
    let vocab = scan::vocabulary();
    let r = run_tapes(ctx, "token-soup", cases, 120, |tape, stats| {
        let mut t = Tape::new(tape);
        let text = if t.chance(60) {
            String::from_utf8_lossy(&tape[t.pos.min(tape.len())..]).into_owned()
        } else {
            let n = t.below(60);
            let mut toks = vec![];
            for _ in 0..n {
                toks.push(t.pick(&vocab).to_string());
            }
            surfgen::layout(&mut t, &toks, true)
        };
        let origin = json!({"stage": "token-soup"});
        check_input(&case_path, &text, &origin, stats)?;
        Ok(())
    });
    report.absorb(r);
    report.assume("nesting depth of generated inputs ≤ 8 (the property is bounded in nesting depth)");
    report.assume("in-process rendering of ariadne reports into a buffer follows the same code path as the CLI's eprint");
    // (d) checker-deep inputs: mutants of generated well-typed core programs (every C03 operator plus free-form
    // clause edits): whatever the verdict, the front end must return it
    let cfg = ctx.tier.pick(crate::core::generate::Cfg::quick(), crate::core::generate::Cfg::thorough());
    let cases = ctx.tier.pick(400, 20_000);
    let r = run_tapes(ctx, "core-mutants", cases, 700, |tape, stats| {
        let (texts, _) = crate::props::c03::mutant_texts(ctx, tape, &cfg, 8);
        let path = thread_dir(ctx).join("mutant.zy");
        for (text, label) in texts {
            check_input(&path, &text, &json!({"origin": "core-mutant", "mutation": label}), stats)?;
            stats.count("core-mutant");
        }
        Ok(())
    });
    report.absorb(r);
    if ctx.tier == Tier::Thorough && std::env::var_os("VERIF_NO_FUZZ").is_none() {
        crate::fuzzrun::campaign(ctx, "C10", 300_000, &mut report);
    }
    report
}

pub fn replay(_ctx: &Ctx, doc: &Value) -> Result<(), Fail> {
    let text = doc["rendered"]["text"].as_str().unwrap_or("");
    let path = PathBuf::from(doc["rendered"]["path"].as_str().unwrap_or("/tmp/case.zy"));
    let mut stats = Stats::new();
    check_input(&path, text, &doc["rendered"]["origin"], &mut stats).map(|_| ())
}
