//! C08 (b),(c) — permutations of `that` contributions and cycle probes at the language level.

use crate::core::eval::REnd;
use crate::core::generate::{self, Cfg};
use crate::core::harness as h;
use crate::core::print::{self, Names, Style};
use crate::drive::{self, Analyzed, RunEnd, Verdict};
use crate::engine::*;
use serde_json::{Value, json};
use zydeco_session::CompilerSession;

fn permutations(n: usize, t: &mut Tape, limit: usize) -> Vec<Vec<usize>> {
    let mut out = vec![(0..n).collect::<Vec<_>>(), (0..n).rev().collect::<Vec<_>>()];
    if n <= 4 {
        // all permutations
        out.clear();
        let mut cur: Vec<usize> = (0..n).collect();
        fn heap(k: usize, a: &mut Vec<usize>, out: &mut Vec<Vec<usize>>) {
            if k <= 1 {
                out.push(a.clone());
                return;
            }
            for i in 0..k {
                heap(k - 1, a, out);
                if k % 2 == 0 {
                    a.swap(i, k - 1);
                } else {
                    a.swap(0, k - 1);
                }
            }
        }
        heap(n, &mut cur, &mut out);
    } else {
        while out.len() < limit {
            let mut p: Vec<usize> = (0..n).collect();
            for i in (1..n).rev() {
                p.swap(i, t.below(i + 1));
            }
            out.push(p);
        }
    }
    out.truncate(limit.max(2));
    out
}

pub fn check_blocks(ctx: &Ctx, tape: &[u8], cfg: &Cfg, stats: &mut Stats) -> Result<(), Fail> {
    let split = tape.len().saturating_sub(24);
    // every other case has parameters (`param (x : T) that`), the block being applied to their values
    let with_params = tape.first().map(|b| b % 2 == 1).unwrap_or(false);
    let (prog, k, params, _feats) = generate::gen_param_block_program(&tape[..split], cfg, with_params);
    let with_params = params.iter().any(|p| *p);
    let mut st = Tape::new(&tape[split..]);
    let stdin = h::gen_stdin(&mut st);
    let reference = h::reference_run(&prog, &stdin, 300_000);
    if matches!(reference.end, REnd::OutOfFuel | REnd::Undetermined(_)) {
        stats.inconclusive += 1;
        return Ok(());
    }
    if let REnd::Stuck(why) = &reference.end {
        return Err(Fail::new("harness-reference-stuck", "runnable", why.clone()));
    }
    let n = prog.datas.len() + prog.codatas.len() + k;
    let names = Names::unique(&prog);
    let style = Style::default();
    let dir = thread_dir(ctx);
    let mut first: Option<(bool, Vec<u8>, String)> = None;
    let limit = ctx.tier.pick(8, 30);
    let n = if with_params { k } else { n };
    for mut perm in permutations(n, &mut st, limit) {
        let mut pr = print::Printer::new(&prog, &names, &style);
        if with_params {
            // parameters keep their relative order (it fixes the argument order of the block)
            let slots: Vec<usize> = perm.iter().enumerate().filter(|(_, i)| params[**i]).map(|(pos, _)| pos).collect();
            let mut ps: Vec<usize> = slots.iter().map(|pos| perm[*pos]).collect();
            ps.sort();
            for (pos, i) in slots.iter().zip(ps) {
                perm[*pos] = i;
            }
            pr.program_as_param_block(k, &perm, &params);
            stats.count("block-with-parameters");
        } else {
            pr.program_as_block(k, &perm);
        }
        let text = format!("{}{}", print::prelude(&ctx.repo_root), print::join(&pr.out));
        stats.eval();
        let (_s, analyzed) = h::write_and_analyze(&dir, &text);
        let case = |extra: Value| h::render_case(&text, &stdin, json!({"permutation": perm, "info": extra}));
        let observed = match analyzed {
            | Analyzed::Panic(p) => return Err(Fail::new(format!("analysis-{}", p.signature()), "analysis to return", p.describe()).with(case(json!({})))),
            | Analyzed::Executable(exe, _) => {
                let run = h::interp_run(exe, &stdin, 3_000_000);
                if matches!(run.end, RunEnd::OutOfFuel) {
                    stats.inconclusive += 1;
                    return Ok(());
                }
                (true, run.stdout, format!("{:?}", run.end))
            }
            | Analyzed::NotAccepted(front) => (false, vec![], format!("rejected: {:?}", front.kinds.iter().take(2).collect::<Vec<_>>())),
            | Analyzed::AcceptedOther(_, why) => (false, vec![], why),
        };
        let in_source_order = perm.windows(2).all(|w| w[0] < w[1]);
        match &first {
            | None => {
                if !observed.0 {
                    stats.count("discarded:rejected-in-source-order");
                    return Ok(());
                }
                // behaviour equals the reference (definitions established once, in dependency order)
                let ref_desc = match &reference.end {
                    | REnd::Exit(c) => format!("Exit({c})"),
                    | REnd::Trap => "Trap".to_string(),
                    | other => format!("{other:?}"),
                };
                if !observed.2.starts_with(&ref_desc) || observed.1 != reference.stdout {
                    return Err(Fail::new(
                        "block-behaviour-differs-from-reference",
                        format!("reference: {ref_desc} stdout={:?}", String::from_utf8_lossy(&reference.stdout)),
                        format!("{} stdout={:?}", observed.2, String::from_utf8_lossy(&observed.1)),
                    )
                    .with(case(json!({}))));
                }
                first = Some(observed);
            }
            | Some(base) => {
                if base.0 != observed.0 {
                    return Err(Fail::new("permutation-changes-acceptance", "accepted (as in source order)", observed.2.clone()).with(case(json!({}))));
                }
                if base.1 != observed.1 || base.2 != observed.2 {
                    return Err(Fail::new(
                        "permutation-changes-behaviour",
                        format!("source order: {} stdout={:?}", base.2, String::from_utf8_lossy(&base.1)),
                        format!("permuted: {} stdout={:?}", observed.2, String::from_utf8_lossy(&observed.1)),
                    )
                    .with(case(json!({}))));
                }
                if !in_source_order {
                    stats.nontrivial(hash_of(&text));
                    stats.sample(|| json!({"permutation": perm, "source": text[text.find("begin\n").unwrap_or(0)..].chars().take(700).collect::<String>()}));
                }
            }
        }
    }
    Ok(())
}

/// Parameters whose annotations refer to type definitions of the same block.  All parameters have type Int64
/// (directly or through a block-local alias), so any argument order type checks; the arguments are distinct
/// and every parameter is printed, so the output shows which argument each parameter received.  Oracle
/// (metamorphic): every placement of the alias definitions and the other definitions, the parameters keeping
/// their relative order, prints the same lines.
pub fn check_alias_params(ctx: &Ctx, tape: &[u8], stats: &mut Stats) -> Result<(), Fail> {
    let mut t = Tape::new(tape);
    let np = 2 + t.below(3);
    let mut contributions: Vec<(bool, String)> = vec![]; // (is_param, text)
    for i in 0..np {
        match t.below(3) {
            | 0 => contributions.push((true, format!("param ( p{i} : Int64 ) that"))),
            | 1 => {
                contributions.push((false, format!("let Zt{i} : VType = Int64 that")));
                contributions.push((true, format!("param ( p{i} : Zt{i} ) that")));
            }
            | _ => {
                // an alias of an alias: two layers below the parameter
                contributions.push((false, format!("let Zu{i} : VType = Int64 that")));
                contributions.push((false, format!("let Zt{i} : VType = Zu{i} that")));
                contributions.push((true, format!("param ( p{i} : Zt{i} ) that")));
            }
        }
    }
    let nl = t.below(3);
    for k in 0..nl {
        let src = t.below(np);
        contributions.push((false, format!("let q{k} : Int64 = p{src} that")));
    }
    let mut body = String::from("! ( process / exit ) 0");
    for k in (0..nl).rev() {
        body = format!("do sq{k} <- ! ( int64 / to_string ) q{k} ; ! ( stdio / write_line ) sq{k} {{ {body} }}");
    }
    for i in (0..np).rev() {
        body = format!("do sp{i} <- ! ( int64 / to_string ) p{i} ; ! ( stdio / write_line ) sp{i} {{ {body} }}");
    }
    let arrows = "Int64 -> ".repeat(np);
    let args: String = (0..np).map(|i| format!(" {}", 11 * (i + 1))).collect();
    let n = contributions.len();
    let param_slots: Vec<usize> = (0..n).filter(|i| contributions[*i].0).collect();
    let limit = ctx.tier.pick(10, 40);
    let mut first: Option<(String, Vec<u8>, String)> = None;
    for mut perm in permutations(n, &mut t, limit) {
        // parameters keep their relative order
        let slots: Vec<usize> = perm.iter().enumerate().filter(|(_, i)| contributions[**i].0).map(|(pos, _)| pos).collect();
        for (pos, i) in slots.iter().zip(param_slots.iter()) {
            perm[*pos] = *i;
        }
        let inner: String = perm.iter().map(|i| format!("  {}\n", contributions[*i].1)).collect();
        let text = format!("{}( ( begin\n{inner}  ( {body} : OS )\nend : {arrows}OS ){args} : OS )\n", print::prelude(&ctx.repo_root));
        stats.eval();
        let (_s, analyzed) = h::write_and_analyze(&thread_dir(ctx), &text);
        let shown = text[text.find("( ( begin").unwrap_or(0)..].to_string();
        let observed = match analyzed {
            | Analyzed::Panic(p) => return Err(Fail::new(format!("analysis-{}", p.signature()), "analysis to return", p.describe()).with(json!({"source": shown}))),
            | Analyzed::Executable(exe, _) => {
                let run = h::interp_run(exe, b"", 500_000);
                (true, run.stdout, format!("{:?}", run.end))
            }
            | Analyzed::NotAccepted(front) => (false, vec![], format!("rejected: {:?}", front.kinds.iter().take(2).collect::<Vec<_>>())),
            | Analyzed::AcceptedOther(_, why) => (false, vec![], why),
        };
        match &first {
            | None => {
                if !observed.0 {
                    return Err(Fail::new("alias-parameter-block-rejected", "accepted: every argument order type checks (all parameters are Int64)", observed.2).with(json!({"source": shown})));
                }
                first = Some((shown, observed.1, observed.2));
            }
            | Some((base_text, base_out, base_end)) => {
                if !observed.0 || &observed.1 != base_out || &observed.2 != base_end {
                    return Err(Fail::new(
                        "placement-of-a-definition-changes-the-block",
                        format!("as in the first placement: {base_end} stdout={:?}", String::from_utf8_lossy(base_out)),
                        format!("{} stdout={:?}", observed.2, String::from_utf8_lossy(&observed.1)),
                    )
                    .with(json!({"first_placement": base_text, "this_placement": shown})));
                }
                stats.nontrivial(hash_of(&shown));
                stats.sample(|| json!({"source": shown}));
            }
        }
    }
    stats.count("alias-parameter-blocks");
    Ok(())
}

/// (body, expectation): type-only cycles are accepted; cycles through values or parameters are rejected
/// with a diagnostic (never a hang or crash).
const CYCLES: &[(&str, bool, &str)] = &[
    ("begin let x : Int64 = y that let y : Int64 = x that ret x end", false, "value cycle of length 2"),
    ("begin let x : Int64 = x that ret x end", false, "self-referential value"),
    ("begin let a : Int64 = b that let b : Int64 = c that let c : Int64 = a that ret a end", false, "value cycle of length 3"),
    ("begin param ( x : y ) that let y = x that ret 1 end", false, "cycle through a parameter"),
    ("begin param ( x : T ) that let T : VType = data | +A : Int64 end that let y = x that ret 1 end", true, "parameter depending on a later type definition (no cycle)"),
    ("begin let f : Thk ( Ret Int64 ) = { ! g } that let g : Thk ( Ret Int64 ) = { ! f } that ! f end", false, "value cycle through thunks"),
    ("begin def A : VType = data | +MkA : B | +NA : Int64 end that def B : VType = data | +MkB : A end that ret 1 end", true, "mutually recursive type definitions"),
    ("begin def N : VType = data | +Z : Int64 | +S : N end that ret 1 end", true, "self-recursive type definition"),
    ("begin def S : CType = codata | .head : Ret Int64 | .tail : S end that ret 1 end", true, "self-recursive codata"),
    ("begin def A : VType = data | +MkA : Thk B end that def B : CType = codata | .get : Ret A end that ret 1 end", true, "mutual data/codata recursion"),
    ("begin let x : T = 1 that let T : VType = Int64 that ret x end", true, "value whose annotation is defined later"),
    ("begin let T : VType = U that let U : VType = T that ret 1 end", false, "transparent type cycle (needs a seal)"),
    ("begin let x : Int64 = 1 that let x : Int64 = 2 that ret x end", false, "duplicate `that` name in one block"),
];

pub fn run_cycles(ctx: &Ctx, report: &mut Report) {
    let prelude = "let Int64 = @(intrinsic(i64)) in\nlet Ret = @(intrinsic(ret)) in\nlet Thk = @(intrinsic(thk)) in\nlet VType = @(intrinsic(vtype)) in\nlet CType = @(intrinsic(ctype)) in\n";
    let items: Vec<(String, bool, String)> = CYCLES.iter().map(|(b, a, w)| (b.to_string(), *a, w.to_string())).collect();
    let r = run_items(ctx, "cycle-probes", items, |(body, accepted, what), stats| {
        stats.eval();
        let dir = thread_dir(ctx);
        let text = format!("{prelude}{body}\n");
        let path = dir.join("cycle.zy");
        std::fs::write(&path, &text).unwrap();
        let owned = path.clone();
        let front = with_deadline(60, move || {
            let session = CompilerSession::default();
            catch(|| {
                let r = session.analyze(&owned);
                drive::summarize(&session, &r)
            })
        });
        let case = json!({"body": body, "what": what});
        let Some(front) = front else {
            stats.inconclusive += 1;
            return Ok(());
        };
        let front = front.map_err(|p| Fail::new(format!("cycle-{}", p.signature()), "a diagnostic, never a crash", p.describe()).with(case.clone()))?;
        let got = matches!(front.verdict, Verdict::Checked(_));
        if got != *accepted {
            return Err(Fail::new(
                "cycle-verdict",
                if *accepted { format!("accepted: {what}") } else { format!("rejected with a diagnostic: {what}") },
                format!("{:?} {:?}", front.verdict, front.kinds.first()),
            )
            .with(case));
        }
        if !*accepted && front.n_reports == 0 {
            return Err(Fail::new("cycle-without-diagnostic", "at least one diagnostic", "none").with(case));
        }
        stats.nontrivial(hash_of(body));
        Ok(())
    });
    report.absorb(r);
}

pub fn run_blocks(ctx: &Ctx, report: &mut Report) {
    let cfg = ctx.tier.pick(Cfg::quick(), Cfg::thorough());
    let cases = ctx.tier.pick(300, 10_000);
    let r = run_tapes(ctx, "block-permutations", cases, 700, |tape, stats| check_blocks(ctx, tape, &cfg, stats));
    report.absorb(r);
    let cases = ctx.tier.pick(150, 5_000);
    let r = run_tapes(ctx, "alias-parameter-blocks", cases, 40, |tape, stats| check_alias_params(ctx, tape, stats));
    report.absorb(r);
    run_cycles(ctx, report);
}

pub fn replay(ctx: &Ctx, doc: &Value) -> Result<(), Fail> {
    let mut stats = Stats::new();
    if doc["stage"] == "alias-parameter-blocks" {
        let tape = unhex(doc["tape_hex"].as_str().unwrap_or(""));
        return check_alias_params(ctx, &tape, &mut stats);
    }
    if doc["stage"] == "block-permutations" {
        let tape = unhex(doc["tape_hex"].as_str().unwrap_or(""));
        check_blocks(ctx, &tape, &Cfg::quick(), &mut stats)?;
        return check_blocks(ctx, &tape, &Cfg::thorough(), &mut stats);
    }
    let mut report = Report::new("");
    run_cycles(ctx, &mut report);
    match report.violations.pop() {
        | Some(v) => Err(v.fail),
        | None => Ok(()),
    }
}
