//! C05 — fixed-width numeric semantics and exact literal range checking.

use crate::core::harness as h;
use crate::core::print;
use crate::drive::{self, Analyzed, Invoked, RoleArg, RunEnd};
use crate::engine::*;
use crate::hmodel::{self, ARITH, CMP, FARITH, HV, INT_TYS, IntTy};
use serde_json::{Value, json};

fn boundary_values(t: IntTy) -> Vec<i128> {
    let mut v = vec![t.min(), t.min() + 1, -1, 0, 1, 2, t.max() - 1, t.max(), 10, -10, 7, -7];
    for k in [1u32, 7, 8, 15, 16, 31, 32, 62, 63] {
        let p = 1i128 << k;
        v.extend([p - 1, p, p + 1, -p - 1, -p, -p + 1]);
    }
    v.retain(|x| t.contains(*x));
    v.sort();
    v.dedup();
    v
}

fn check_int_pair(t: IntTy, a: i128, b: i128, stats: &mut Stats) -> Result<(), Fail> {
    let render = |op: &str, exp: String, obs: String| {
        Fail::new(format!("int-{}-{op}", t.pkg()), exp, obs).with(json!({"type": t.type_name(), "op": op, "a": a.to_string(), "b": b.to_string()}))
    };
    let va = RoleArg::Val(HV::Int(t, a));
    let vb = RoleArg::Val(HV::Int(t, b));
    let mut interesting = false;
    for op in ARITH {
        stats.eval();
        let (got, _) = drive::invoke_role(drive::int_role(t, op.name()), &[va.clone(), vb.clone()], b"", &[]);
        match hmodel::int_arith(t, op, a, b) {
            | Some(r) => {
                if got != Invoked::Ret(HV::Int(t, r)) {
                    return Err(render(op.name(), format!("{} (Rust's {}::wrapping_{})", r, t.type_name(), op.name()), format!("{got:?}")));
                }
                // does wrapping / truncation matter here?
                let exact = match op {
                    | hmodel::Arith::Add => a + b,
                    | hmodel::Arith::Sub => a - b,
                    | hmodel::Arith::Mul => a.saturating_mul(b),
                    | _ => r,
                };
                if exact != r || b == -1 {
                    interesting = true;
                }
            }
            | None => {
                interesting = true;
                let trapped = matches!(&got, Invoked::Panic { msg, .. }
                    if msg.contains("attempt to divide by zero") || msg.contains("remainder with a divisor of zero"));
                if !trapped {
                    return Err(render(op.name(), "the division trap (and nothing else)".into(), format!("{got:?}")));
                }
            }
        }
    }
    for op in CMP {
        stats.eval();
        let (got, _) = drive::invoke_role(
            drive::int_role(t, op.name()),
            &[va.clone(), vb.clone(), RoleArg::Kont(0), RoleArg::Kont(1)],
            b"",
            &[],
        );
        let want = if hmodel::int_cmp(op, a, b) { 0 } else { 1 };
        if got != Invoked::Select(want, vec![]) {
            return Err(render(op.name(), format!("selects continuation {want} (0 = true branch)"), format!("{got:?}")));
        }
    }
    if (a < 0) != (b < 0) || a >= (1i128 << (t.bits() - 1)) || b >= (1i128 << (t.bits() - 1)) {
        interesting = true;
    }
    if interesting {
        stats.nontrivial(hash_of(&(t as u8, a, b)));
    }
    Ok(())
}

fn check_int_to_string(t: IntTy, a: i128, stats: &mut Stats) -> Result<(), Fail> {
    stats.eval();
    let (got, _) = drive::invoke_role(drive::int_role(t, "to_string"), &[RoleArg::Val(HV::Int(t, a))], b"", &[]);
    let want = hmodel::int_to_string(a);
    if got != Invoked::Ret(HV::Str(want.clone())) {
        return Err(Fail::new(format!("int-{}-to_string", t.pkg()), want, format!("{got:?}"))
            .with(json!({"type": t.type_name(), "a": a.to_string()})));
    }
    Ok(())
}

fn f64_specials() -> Vec<u64> {
    let mut v: Vec<u64> = [
        0.0f64, -0.0, 1.0, -1.0, 0.1, 0.5, 1.5, 2.0, 3.0, 1e308, -1e308, f64::MAX, f64::MIN, f64::MIN_POSITIVE,
        f64::EPSILON, f64::INFINITY, f64::NEG_INFINITY, f64::NAN, 5e-324, 1e-310, 9007199254740992.0, 9007199254740993.0,
        123456789.123456789, 1e21, 1e-7, 0.30000000000000004,
    ]
    .iter()
    .map(|x| x.to_bits())
    .collect();
    v.push(0x7ff8000000000001); // NaN payload
    v.push(0xfff0000000000001); // signalling-ish NaN
    v
}
fn f32_specials() -> Vec<u32> {
    let mut v: Vec<u32> = [
        0.0f32, -0.0, 1.0, -1.0, 0.1, 0.5, 1.5, 3.0, 3.4e38, f32::MAX, f32::MIN, f32::MIN_POSITIVE, f32::EPSILON,
        f32::INFINITY, f32::NEG_INFINITY, f32::NAN, 1e-45, 1e-40, 16777216.0, 16777217.0, 1e10,
    ]
    .iter()
    .map(|x| x.to_bits())
    .collect();
    v.push(0x7fc00001);
    v
}

fn same_f64(a: u64, b: u64) -> bool {
    a == b || (f64::from_bits(a).is_nan() && f64::from_bits(b).is_nan())
}
fn same_f32(a: u32, b: u32) -> bool {
    a == b || (f32::from_bits(a).is_nan() && f32::from_bits(b).is_nan())
}

fn check_f64_pair(a: u64, b: u64, stats: &mut Stats) -> Result<(), Fail> {
    let case = json!({"type": "Float64", "a_bits": format!("{a:#x}"), "b_bits": format!("{b:#x}"), "a": format!("{:?}", f64::from_bits(a)), "b": format!("{:?}", f64::from_bits(b))});
    for op in FARITH {
        stats.eval();
        let (got, _) = drive::invoke_role(drive::float_role(false, op.name()), &[RoleArg::Val(HV::F64(a)), RoleArg::Val(HV::F64(b))], b"", &[]);
        let want = hmodel::f64_arith(op, a, b);
        let ok = matches!(&got, Invoked::Ret(HV::F64(r)) if same_f64(*r, want));
        if !ok {
            return Err(Fail::new(format!("float64-{}", op.name()), format!("{:?} (bits {want:#x})", f64::from_bits(want)), format!("{got:?}")).with(case));
        }
    }
    for op in CMP {
        stats.eval();
        let (got, _) = drive::invoke_role(drive::float_role(false, op.name()), &[RoleArg::Val(HV::F64(a)), RoleArg::Val(HV::F64(b)), RoleArg::Kont(0), RoleArg::Kont(1)], b"", &[]);
        let want = if hmodel::f64_cmp(op, a, b) { 0 } else { 1 };
        if got != Invoked::Select(want, vec![]) {
            return Err(Fail::new(format!("float64-{}", op.name()), format!("selects continuation {want}"), format!("{got:?}")).with(case));
        }
    }
    stats.eval();
    let (got, _) = drive::invoke_role(drive::float_role(false, "to_string"), &[RoleArg::Val(HV::F64(a))], b"", &[]);
    let ok = matches!(&got, Invoked::Ret(HV::Str(s)) if hmodel::f64_render_ok(a, s));
    if !ok {
        return Err(Fail::new("float64-to_string", "a rendering that parses back to exactly the same Float64", format!("{got:?}")).with(case));
    }
    stats.nontrivial(hash_of(&(64u8, a, b)));
    Ok(())
}

fn check_f32_pair(a: u32, b: u32, stats: &mut Stats) -> Result<(), Fail> {
    let case = json!({"type": "Float32", "a_bits": format!("{a:#x}"), "b_bits": format!("{b:#x}"), "a": format!("{:?}", f32::from_bits(a)), "b": format!("{:?}", f32::from_bits(b))});
    for op in FARITH {
        stats.eval();
        let (got, _) = drive::invoke_role(drive::float_role(true, op.name()), &[RoleArg::Val(HV::F32(a)), RoleArg::Val(HV::F32(b))], b"", &[]);
        let want = hmodel::f32_arith(op, a, b);
        let ok = matches!(&got, Invoked::Ret(HV::F32(r)) if same_f32(*r, want));
        if !ok {
            return Err(Fail::new(format!("float32-{}", op.name()), format!("{:?} (bits {want:#x})", f32::from_bits(want)), format!("{got:?}")).with(case));
        }
    }
    for op in CMP {
        stats.eval();
        let (got, _) = drive::invoke_role(drive::float_role(true, op.name()), &[RoleArg::Val(HV::F32(a)), RoleArg::Val(HV::F32(b)), RoleArg::Kont(0), RoleArg::Kont(1)], b"", &[]);
        let want = if hmodel::f32_cmp(op, a, b) { 0 } else { 1 };
        if got != Invoked::Select(want, vec![]) {
            return Err(Fail::new(format!("float32-{}", op.name()), format!("selects continuation {want}"), format!("{got:?}")).with(case));
        }
    }
    stats.eval();
    let (got, _) = drive::invoke_role(drive::float_role(true, "to_string"), &[RoleArg::Val(HV::F32(a))], b"", &[]);
    let ok = matches!(&got, Invoked::Ret(HV::Str(s)) if hmodel::f32_render_ok(a, s));
    if !ok {
        return Err(Fail::new("float32-to_string", "a rendering that parses back to exactly the same Float32", format!("{got:?}")).with(case));
    }
    stats.nontrivial(hash_of(&(32u8, a, b)));
    Ok(())
}

/* ----------------------------- literals ----------------------------------- */

#[derive(Clone, Debug)]
struct LitCase {
    body: String,
    /// Some(lines) = must be accepted and print exactly these lines; None = must be rejected
    expect: Option<Vec<String>>,
    what: String,
}

fn int_literal_cases() -> Vec<LitCase> {
    let mut cases = vec![];
    for t in INT_TYS {
        // accepted literals: one program printing all of them
        let mut body = String::new();
        let mut lines = vec![];
        let mut vals: Vec<i128> = vec![t.min(), t.min() + 1, t.min() + 2, t.max(), t.max() - 1, t.max() - 2, 0, 1];
        if t.signed() {
            vals.push(-1);
        }
        vals.dedup();
        for (i, v) in vals.iter().enumerate() {
            for spelling in [format!("{v}"), if *v >= 0 { format!("+{v}") } else { format!("{v}") }] {
                body.push_str(&format!("let x{i} : {} = {spelling} in do s <- ! ( {} / to_string ) x{i} ; ! ( stdio / write_line ) s {{\n", t.type_name(), t.pkg()));
                lines.push(hmodel::int_to_string(*v));
            }
        }
        body.push_str("! ( process / exit ) 0");
        for _ in 0..lines.len() {
            body.push_str(" }");
        }
        cases.push(LitCase { body: format!("( {body} : OS )"), expect: Some(lines), what: format!("in-range literals at {}", t.type_name()) });
        // rejected literals: each alone
        for v in [t.min() - 1, t.min() - 2, t.max() + 1, t.max() + 2, t.max() * 2 + 1] {
            cases.push(LitCase {
                body: format!("( let x : {} = {v} in ! ( process / exit ) 0 : OS )", t.type_name()),
                expect: None,
                what: format!("{v} is outside {}", t.type_name()),
            });
        }
        // no implicit conversion between widths
        if t != IntTy::I64 {
            cases.push(LitCase {
                body: format!("( let x : {} = 1 in do y <- ! ( int64 / add ) x 1 ; ! ( process / exit ) y : OS )", t.type_name()),
                expect: None,
                what: format!("a {} value used as Int64", t.type_name()),
            });
            cases.push(LitCase {
                body: format!("( let x : Int64 = 1 in do s <- ! ( {} / to_string ) x ; ! ( process / exit ) 0 : OS )", t.pkg()),
                expect: None,
                what: format!("an Int64 value used as {}", t.type_name()),
            });
            // defaulting: an unannotated literal is Int64
            cases.push(LitCase {
                body: format!("( let x = 5 in do s <- ! ( {} / to_string ) x ; ! ( process / exit ) 0 : OS )", t.pkg()),
                expect: None,
                what: format!("an unannotated integer literal used as {}", t.type_name()),
            });
        }
    }
    cases.push(LitCase {
        body: "( let x = 9223372036854775807 in do s <- ! ( int64 / to_string ) x ; ! ( stdio / write_line ) s { ! ( process / exit ) 0 } : OS )".into(),
        expect: Some(vec!["9223372036854775807".into()]),
        what: "defaulting to Int64 at its maximum".into(),
    });
    cases.push(LitCase {
        body: "( let x = 9223372036854775808 in ! ( process / exit ) 0 : OS )".into(),
        expect: None,
        what: "an unannotated literal beyond Int64".into(),
    });
    cases.push(LitCase {
        body: "( let x = -9223372036854775809 in ! ( process / exit ) 0 : OS )".into(),
        expect: None,
        what: "an unannotated literal below Int64".into(),
    });
    // integer literal at a float type and vice versa
    cases.push(LitCase { body: "( let x : Float64 = 1 in ! ( process / exit ) 0 : OS )".into(), expect: None, what: "integer literal at Float64".into() });
    cases.push(LitCase { body: "( let x : Int64 = 1.0 in ! ( process / exit ) 0 : OS )".into(), expect: None, what: "decimal literal at Int64".into() });
    cases
}

/// Float literals: accepted at Float32 exactly when finite after narrowing; value = literal.
fn float_literal_cases() -> Vec<(String, bool, f64, bool)> {
    // (spelling, is32, f64 value, expect accepted)
    let mut v = vec![];
    let spellings = [
        "0.0", "-0.0", "1.5", "+1.5", "-2.25", "1e3", "1.50e+3", "2.5E-3", "3.4028234e38", "3.4028235e38", "3.4028236e38",
        "3.5e38", "-3.5e38", "1e39", "1e-46", "1e-50", "0.1", "16777217.0", "1e308", "1.7976931348623157e308", "4.9e-324",
        "123456789.123456789",
    ];
    for s in spellings {
        let val: f64 = s.parse().unwrap();
        v.push((s.to_string(), false, val, true));
        let narrowed = val as f32;
        v.push((s.to_string(), true, val, narrowed.is_finite()));
    }
    v
}

fn run_literal_case(ctx: &Ctx, c: &LitCase, stats: &mut Stats) -> Result<(), Fail> {
    stats.eval();
    let text = format!("{}{}\n", print::prelude(&ctx.repo_root), c.body);
    let dir = thread_dir(ctx);
    let (_session, analyzed) = h::write_and_analyze(&dir, &text);
    let case = json!({"body": c.body, "what": c.what});
    stats.nontrivial(hash_of(&c.body));
    match (&c.expect, analyzed) {
        | (_, Analyzed::Panic(p)) => Err(Fail::new(format!("literal-{}", p.signature()), "analysis to return", p.describe()).with(case)),
        | (None, Analyzed::NotAccepted(_)) => Ok(()),
        | (None, _) => Err(Fail::new("literal-accepted-out-of-range", format!("rejected: {}", c.what), "accepted").with(case)),
        | (Some(_), Analyzed::NotAccepted(front)) => Err(Fail::new(
            "literal-rejected-in-range",
            format!("accepted: {}", c.what),
            format!("rejected: {:?}", front.kinds.iter().take(2).collect::<Vec<_>>()),
        )
        .with(case)),
        | (Some(_), Analyzed::AcceptedOther(_, why)) => Err(Fail::new("literal-not-executable", "an executable", why).with(case)),
        | (Some(lines), Analyzed::Executable(exe, _)) => {
            let run = h::interp_run(exe, b"", 1_000_000);
            let got = String::from_utf8_lossy(&run.stdout).to_string();
            let want: String = lines.iter().map(|l| format!("{l}\n")).collect();
            if run.end != RunEnd::Exit(0) || got != want {
                return Err(Fail::new("literal-value", format!("prints {want:?}"), format!("{:?} printed {got:?}", run.end)).with(case));
            }
            Ok(())
        }
    }
}

fn run_float_literal(ctx: &Ctx, spelling: &str, is32: bool, val: f64, accept: bool, stats: &mut Stats) -> Result<(), Fail> {
    stats.eval();
    let (ty, pkg) = if is32 { ("Float32", "float32") } else { ("Float64", "float64") };
    // the program prints the literal and compares it with itself through eq (bitwise-independent)
    let body = format!(
        "( let x : {ty} = {spelling} in do s <- ! ( {pkg} / to_string ) x ; ! ( stdio / write_line ) s {{ ! ( process / exit ) 0 }} : OS )"
    );
    let text = format!("{}{}\n", print::prelude(&ctx.repo_root), body);
    let dir = thread_dir(ctx);
    let (_s, analyzed) = h::write_and_analyze(&dir, &text);
    let case = json!({"body": body, "literal": spelling, "type": ty});
    stats.nontrivial(hash_of(&body));
    match analyzed {
        | Analyzed::Panic(p) => Err(Fail::new(format!("float-literal-{}", p.signature()), "analysis to return", p.describe()).with(case)),
        | Analyzed::NotAccepted(_) if !accept => Ok(()),
        | Analyzed::NotAccepted(front) => Err(Fail::new("float-literal-rejected", "accepted (finite after narrowing)", format!("{:?}", front.kinds.first())).with(case)),
        | Analyzed::AcceptedOther(..) => Ok(()),
        | Analyzed::Executable(..) if !accept => Err(Fail::new("float-literal-accepted", "rejected (not finite after narrowing)", "accepted").with(case)),
        | Analyzed::Executable(exe, _) => {
            let run = h::interp_run(exe, b"", 100_000);
            let printed = String::from_utf8_lossy(&run.stdout).trim_end().to_string();
            let ok = if is32 {
                hmodel::f32_render_ok((val as f32).to_bits(), &printed)
            } else {
                hmodel::f64_render_ok(val.to_bits(), &printed)
            };
            if !ok || run.end != RunEnd::Exit(0) {
                return Err(Fail::new(
                    "float-literal-value",
                    format!("prints a text that parses to exactly {spelling} at {ty}"),
                    format!("{:?} printed {printed:?}", run.end),
                )
                .with(case));
            }
            Ok(())
        }
    }
}

pub fn run(ctx: &Ctx) -> Report {
    let mut report = Report::new(
        "(a) host roles invoked through the interpreter's own Prim step: ALL 65,536 operand pairs × 8 binary roles and \
         all 256 to_string values for Int8 and UInt8 (exhaustive); boundary sets squared (≈60 values incl. MIN, MIN+1, \
         −1, 0, 1, MAX−1, MAX, 2^k±1) plus random pairs for the six wider types; float special values squared plus \
         random bit patterns at both widths; oracle: Rust's same-named primitive (wrapping ops, trap only on divisor \
         0, signedness-respecting comparison), exact decimal rendering, float rendering must parse back to the same \
         bits; (b) source-level literals around every range boundary at every type, defaulting, no implicit \
         conversion; non-trivial = operand pair where wrapping/signedness/division edge matters, any float pair, any \
         literal program; distinct by (type, operands) / program",
    );
    report.exhaustive = Some(true);
    // (a1) exhaustive 8-bit
    let mut items = vec![];
    for t in [IntTy::I8, IntTy::U8] {
        for a in t.min()..=t.max() {
            items.push((t, a));
        }
    }
    let r = run_items(ctx, "int8-exhaustive", items, |(t, a), stats| {
        let t = *t;
        for b in t.min()..=t.max() {
            check_int_pair(t, *a, b, stats)?;
        }
        check_int_to_string(t, *a, stats)?;
        if *a == t.min() {
            stats.sample(|| json!({"type": t.type_name(), "a": a.to_string(), "b": "all 256 values", "ops": "add sub mul div mod eq lt gt to_string"}));
        }
        Ok(())
    });
    report.absorb(r);
    // (a2) boundary sets for wider types
    let mut items = vec![];
    for t in INT_TYS {
        if t.bits() == 8 {
            continue;
        }
        for a in boundary_values(t) {
            items.push((t, a));
        }
    }
    let r = run_items(ctx, "int-boundaries", items, |(t, a), stats| {
        for b in boundary_values(*t) {
            check_int_pair(*t, *a, b, stats)?;
        }
        check_int_to_string(*t, *a, stats)
    });
    report.absorb(r);
    // (a3) random pairs
    let cases = ctx.tier.pick(40_000, 6_000_000);
    let r = run_tapes(ctx, "int-random", cases, 20, |tape, stats| {
        let mut t = Tape::new(tape);
        let ty = INT_TYS[t.below(8)];
        let span = ty.max() - ty.min() + 1;
        let a = ty.min() + (t.u64() as i128).rem_euclid(span);
        let b = if t.chance(40) { [0, 1, -1][t.below(3)] } else { ty.min() + (t.u64() as i128).rem_euclid(span) };
        let b = if ty.contains(b) { b } else { 1 };
        check_int_pair(ty, a, b, stats)?;
        check_int_to_string(ty, a, stats)?;
        stats.sample(|| json!({"type": ty.type_name(), "a": a.to_string(), "b": b.to_string()}));
        Ok(())
    });
    report.absorb(r);
    // (a4) floats
    let mut items = vec![];
    for a in f64_specials() {
        items.push(a);
    }
    let r = run_items(ctx, "float64-specials", items, |a, stats| {
        for b in f64_specials() {
            check_f64_pair(*a, b, stats)?;
        }
        Ok(())
    });
    report.absorb(r);
    let items: Vec<u32> = f32_specials();
    let r = run_items(ctx, "float32-specials", items, |a, stats| {
        for b in f32_specials() {
            check_f32_pair(*a, b, stats)?;
        }
        Ok(())
    });
    report.absorb(r);
    let cases = ctx.tier.pick(20_000, 3_000_000);
    let r = run_tapes(ctx, "float-random", cases, 20, |tape, stats| {
        let mut t = Tape::new(tape);
        let a = t.u64();
        let b = t.u64();
        check_f64_pair(a, b, stats)?;
        check_f32_pair(a as u32, (b >> 7) as u32, stats)
    });
    report.absorb(r);
    // (b) literals
    let r = run_items(ctx, "integer-literals", int_literal_cases(), |c, stats| {
        let r = run_literal_case(ctx, c, stats);
        stats.sample(|| json!({"literal_program": c.body.chars().take(300).collect::<String>(), "what": c.what}));
        r
    });
    report.absorb(r);
    let r = run_items(ctx, "float-literals", float_literal_cases(), |(s, is32, val, accept), stats| {
        run_float_literal(ctx, s, *is32, *val, *accept, stats)
    });
    report.absorb(r);
    report.assume("Float32 literal oracle follows the statement: the f64 value of the literal, narrowed; accepted iff finite after narrowing");
    report.assume("literals that are already infinite as f64 (1e999) are outside the stated rule and not demanded either way");
    report
}

pub fn replay(ctx: &Ctx, doc: &Value) -> Result<(), Fail> {
    let r = &doc["rendered"];
    let mut stats = Stats::new();
    if let Some(body) = r["body"].as_str() {
        // literal programs: replay by re-running the whole (small, fixed) literal stages
        let _ = body;
        for c in int_literal_cases() {
            run_literal_case(ctx, &c, &mut stats)?;
        }
        for (s, is32, val, accept) in float_literal_cases() {
            run_float_literal(ctx, &s, is32, val, accept, &mut stats)?;
        }
        return Ok(());
    }
    let ty = r["type"].as_str().unwrap_or("");
    if let Some(t) = INT_TYS.iter().find(|t| t.type_name() == ty) {
        let a: i128 = r["a"].as_str().unwrap_or("0").parse().unwrap_or(0);
        let b: i128 = r["b"].as_str().unwrap_or("0").parse().unwrap_or(0);
        check_int_pair(*t, a, b, &mut stats)?;
        return check_int_to_string(*t, a, &mut stats);
    }
    let parse = |k: &str| u64::from_str_radix(r[k].as_str().unwrap_or("0x0").trim_start_matches("0x"), 16).unwrap_or(0);
    if ty == "Float64" {
        return check_f64_pair(parse("a_bits"), parse("b_bits"), &mut stats);
    }
    check_f32_pair(parse("a_bits") as u32, parse("b_bits") as u32, &mut stats)
}
