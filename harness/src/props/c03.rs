//! C03 — the checker decides exactly the declared typing rules on the core language.
//!
//! Domain: generated core programs (well typed by construction: the generator is type directed and the
//! printer places the annotations bidirectional checking needs) and, per program, localized mutants
//! with a classification known from the derivation: *definite error* or *type preserving*
//! (core/mutate.rs).  Oracle: well typed ⇒ `Checked`; definite error ⇒ `Rejected` by the type checker
//! with at least one report, neither accepted, nor rejected by an earlier phase, nor a panic.

use crate::core::generate::Cfg;
use crate::core::harness as h;
use crate::core::mutate::{KIND_NAMES, KIND_WEIGHTS, Mutator, N_KINDS};
use crate::core::print::{self, Names, Style};
use crate::drive::{self, Verdict};
use crate::engine::*;
use serde_json::{Value, json};

fn analyze(ctx: &Ctx, text: &str) -> Result<drive::Front, PanicInfo> {
    let path = thread_dir(ctx).join("case.zy");
    std::fs::write(&path, text).expect("write case");
    drive::front_end(&path)
}

fn body_of(text: &str) -> String {
    text[text.find("begin\n").unwrap_or(0)..].to_string()
}

pub fn check_case(ctx: &Ctx, tape: &[u8], cfg: &Cfg, mutants: usize, stats: &mut Stats) -> Result<(), Fail> {
    let g = h::generate(tape, cfg);
    let names = Names::unique(&g.prog);
    let style = Style::default();
    // pass 0: unmutated, count sites
    let mut pr = print::Printer::new(&g.prog, &names, &style);
    pr.mutator = Some(Mutator::default());
    pr.program();
    let n_sites = pr.mutator.as_ref().unwrap().sites;
    let base_text = format!("{}{}", print::prelude(&ctx.repo_root), print::join(&pr.out));
    stats.eval();
    let front = analyze(ctx, &base_text).map_err(|p| Fail::new(format!("analysis-{}", p.signature()), "analysis to return", p.describe()).with(json!({"source": body_of(&base_text)})))?;
    if !matches!(front.verdict, Verdict::Checked(_)) {
        return Err(Fail::new(
            "well-typed-program-rejected",
            "Checked: the program is derivable (generated together with its derivation) and carries its annotations",
            format!("{:?} {:?}", front.verdict, front.kinds.iter().take(3).collect::<Vec<_>>()),
        )
        .with(json!({"source": body_of(&base_text)})));
    }
    stats.count("well-typed:accepted");
    if g.feats.len() >= 3 {
        stats.nontrivial(hash_of(&base_text));
    }
    let total_weight: u64 = (0..N_KINDS).filter(|k| n_sites[*k] > 0).map(|k| KIND_WEIGHTS[k] as u64).sum();
    if total_weight == 0 {
        return Ok(());
    }
    let seed = hash_of(tape);
    for k in 0..mutants {
        let r = mix(seed, k as u64);
        // a site kind by weight among the kinds present, then a site of that kind
        let mut w = (mix(r, 1) % total_weight) as i64;
        let mut kind = 0;
        for k2 in 0..N_KINDS {
            if n_sites[k2] == 0 {
                continue;
            }
            w -= KIND_WEIGHTS[k2] as i64;
            if w < 0 {
                kind = k2;
                break;
            }
        }
        let target = (kind, (mix(r, 2) % n_sites[kind] as u64) as usize);
        let choice = (r & 0xffff_ffff) as u32;
        let mut pr = print::Printer::new(&g.prog, &names, &style);
        pr.mutator = Some(Mutator { target: Some(target), choice, ..Default::default() });
        pr.program();
        let m = pr.mutator.take().unwrap();
        let Some(applied) = m.applied else {
            stats.count("mutant:site-not-reached");
            continue;
        };
        if applied.free {
            // free-form edits carry no classification: they are C10's inputs
            stats.count("mutant:free-form(skipped here)");
            continue;
        }
        let text = format!("{}{}", print::prelude(&ctx.repo_root), print::join(&pr.out));
        stats.eval();
        let label = format!("{} @ {} / {}", applied.op, applied.ctx, applied.former);
        let case = |front: Option<&drive::Front>| -> Value {
            json!({
                "mutation": label, "expected": if applied.expect_accept { "accepted" } else { "rejected by the type checker" },
                "site": format!("{} #{}", KIND_NAMES[target.0], target.1), "choice": choice,
                "diagnostics": front.map(|f| f.kinds.iter().take(3).cloned().collect::<Vec<_>>()),
                "source": body_of(&text),
                "original": body_of(&base_text),
            })
        };
        let front = match analyze(ctx, &text) {
            | Ok(f) => f,
            | Err(p) => {
                return Err(Fail::new(format!("checker-crash-{}", p.signature()), "a verdict (accepted or rejected with diagnostics)", p.describe()).with(case(None)));
            }
        };
        match (&front.verdict, applied.expect_accept) {
            | (Verdict::Checked(_), true) => {
                stats.count(&format!("accept:{}", applied.op));
            }
            | (Verdict::Rejected, false) => {
                if front.n_reports == 0 {
                    return Err(Fail::new(format!("rejected-without-a-report[{}]", applied.op), "at least one type diagnostic", "none").with(case(Some(&front))));
                }
                stats.count(&format!("reject:{}", applied.op));
            }
            | (Verdict::Checked(_), false) => {
                return Err(Fail::new(
                    format!("definite-error-accepted[{}]", applied.op),
                    format!("rejected: {label} is a definite type error"),
                    "Checked",
                )
                .with(case(Some(&front))));
            }
            | (Verdict::Rejected, true) => {
                return Err(Fail::new(
                    format!("type-preserving-edit-rejected[{}]", applied.op),
                    format!("Checked: {label} preserves typing"),
                    format!("Rejected {:?}", front.kinds.iter().take(3).collect::<Vec<_>>()),
                )
                .with(case(Some(&front))));
            }
            | (Verdict::Error(phase), _) => {
                return Err(Fail::new(
                    format!("rejected-before-type-checking[{}]", applied.op),
                    if applied.expect_accept { "Checked".to_string() } else { "a type diagnostic (the mutant parses and resolves: only bound names and declared syntax are used)".to_string() },
                    format!("{phase} error {:?}", front.kinds.iter().take(3).collect::<Vec<_>>()),
                )
                .with(case(Some(&front))));
            }
        }
        stats.count(&format!("cell:{} | {} | {}", applied.op, applied.former, applied.ctx));
        stats.nontrivial(hash_of(&(applied.op, &applied.former, applied.ctx, hash_of(&text) % 64)));
        if k == 0 {
            stats.sample(|| json!({"mutation": label, "expected": if applied.expect_accept { "accepted" } else { "rejected" }, "diagnostics": front.kinds.iter().take(2).cloned().collect::<Vec<_>>(), "source": body_of(&text).chars().take(1200).collect::<String>()}));
        }
    }
    Ok(())
}

/// The mutants of one generated program as plain texts (every operator, free-form ones included) with their
/// labels: inputs for C10 (totality) and C01 (accepted ⇒ does not go wrong).
pub fn mutant_texts(ctx: &Ctx, tape: &[u8], cfg: &Cfg, mutants: usize) -> (Vec<(String, String)>, Vec<u8>) {
    let g = h::generate(tape, cfg);
    let names = Names::unique(&g.prog);
    let style = Style::default();
    let mut pr = print::Printer::new(&g.prog, &names, &style);
    pr.mutator = Some(Mutator::default());
    pr.program();
    let n_sites = pr.mutator.as_ref().unwrap().sites;
    let total_weight: u64 = (0..N_KINDS).filter(|k| n_sites[*k] > 0).map(|k| KIND_WEIGHTS[k] as u64).sum();
    let mut out = vec![];
    if total_weight == 0 {
        return (out, g.stdin);
    }
    let seed = hash_of(tape) ^ 0x5bd1e995;
    for k in 0..mutants {
        let r = mix(seed, k as u64);
        let mut w = (mix(r, 1) % total_weight) as i64;
        let mut kind = 0;
        for k2 in 0..N_KINDS {
            if n_sites[k2] == 0 {
                continue;
            }
            w -= KIND_WEIGHTS[k2] as i64;
            if w < 0 {
                kind = k2;
                break;
            }
        }
        // clause sites are where the free-form edits live: give them a fair share
        if n_sites[8] > 0 && k % 3 == 0 {
            kind = 8;
        }
        let target = (kind, (mix(r, 2) % n_sites[kind] as u64) as usize);
        let mut pr = print::Printer::new(&g.prog, &names, &style);
        pr.mutator = Some(Mutator { target: Some(target), choice: (r & 0xffff_ffff) as u32, ..Default::default() });
        pr.program();
        let m = pr.mutator.take().unwrap();
        if let Some(applied) = m.applied {
            out.push((format!("{}{}", print::prelude(&ctx.repo_root), print::join(&pr.out)), format!("{} @ {}", applied.op, applied.ctx)));
        }
    }
    (out, g.stdin)
}

pub fn run(ctx: &Ctx) -> Report {
    let mut report = Report::new(
        "generated core programs (type-directed, annotated: must be Checked) and per program N localized mutants \
         whose classification follows from the derivation (core/mutate.rs): definite errors — value/computation \
         of another type, annotation of a near-miss type (other width, component changed/dropped/added/swapped, \
         other declaration, Thk/Ret/arrow/forall changed), changed let/parameter/fix annotation, flipped type-binder \
         kind, type argument of the wrong kind, unknown constructor/destructor (values, patterns, clauses), \
         eliminations at the wrong former (force of a non-thunk, application of a returner/codata/forall, \
         destructor on a function, bind of a value/function, match on a thunk), sort and kind errors (thunk of a \
         value, computation as value, type as value, ill-kinded annotations), sealed alias used at its \
         representation, structural copy of a sealed declaration, near-miss copy of a declaration, package \
         payload used at the witness type, witness escape, wrong witness — must be Rejected by the type checker; \
         type-preserving edits — redundant annotation, transparent alias, identical copy of a transparent \
         declaration, thunk eta, administrative let/bind, package opened abstractly, manifest package used at \
         its disclosed type — must be Checked; non-trivial = distinct (operator, former, position, text class)",
    );
    let cfg = ctx.tier.pick(Cfg::quick(), Cfg::thorough());
    let cases = ctx.tier.pick(2_000, 40_000);
    let mutants = ctx.tier.pick(14, 20);
    let r = run_tapes(ctx, "programs-and-mutants", cases, 700, |tape, stats| check_case(ctx, tape, &cfg, mutants, stats));
    report.absorb(r);
    report.assume("classification is by construction, not by a second type checker: only edits whose verdict follows from the recorded derivation are generated; programs outside the generated core (inference-heavy code, packages with named fields) are not classified");
    report
}

pub fn replay(ctx: &Ctx, doc: &Value) -> Result<(), Fail> {
    let mut stats = Stats::new();
    let tape = unhex(doc["tape_hex"].as_str().unwrap_or(""));
    check_case(ctx, &tape, &Cfg::quick(), 16, &mut stats)?;
    check_case(ctx, &tape, &Cfg::thorough(), 16, &mut stats)
}
