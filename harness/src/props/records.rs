//! Named products and field projection (shared by C01 and C02): random record types — products of named
//! fields whose field types are Int64 or again records, so that a record sits in first, middle and *last*
//! position of its parent — a value of the type written flat, with nested literal tails or with let-bound
//! tail variables, and every field path projected with `/`.  Oracle: the integer stored at that path.

use crate::core::print;
use crate::drive::{self, Analyzed, RunEnd};
use crate::engine::*;
use serde_json::{Value, json};
use zydeco_session::CompilerSession;

#[derive(Clone, Debug)]
pub enum RTy {
    Int,
    /// named fields in order
    Rec(Vec<(String, RTy)>),
}

#[derive(Clone, Debug)]
pub enum RVal {
    Int(i64),
    Rec(Vec<(String, RVal)>),
}

fn gen_ty(t: &mut Tape, depth: usize, counter: &mut usize) -> RTy {
    let n = 2 + t.below(3);
    let mut fields = vec![];
    for i in 0..n {
        *counter += 1;
        let name = format!("f{}", *counter);
        // bias the last position towards a nested record: that is where the spine and the field meet
        let nested = depth > 0 && if i + 1 == n { t.chance(150) } else { t.chance(70) };
        fields.push((name, if nested { gen_ty(t, depth - 1, counter) } else { RTy::Int }));
    }
    RTy::Rec(fields)
}

fn gen_val(t: &mut Tape, ty: &RTy, counter: &mut i64) -> RVal {
    match ty {
        | RTy::Int => {
            *counter += 1;
            let _ = t;
            RVal::Int(*counter)
        }
        | RTy::Rec(fields) => RVal::Rec(fields.iter().map(|(n, f)| (n.clone(), gen_val(t, f, counter))).collect()),
    }
}

fn ty_text(ty: &RTy) -> String {
    match ty {
        | RTy::Int => "Int64".into(),
        | RTy::Rec(fields) => fields.iter().map(|(n, f)| format!("({n} :: {})", ty_text(f))).collect::<Vec<_>>().join(" * "),
    }
}

/// style 0: flat literal; 1: tails as nested literals `(a = 1, (b = 2, c = 3))`; 2: tails through variables
fn val_text(v: &RVal, ty: &RTy, style: u8, lets: &mut Vec<String>, counter: &mut usize) -> String {
    match (v, ty) {
        | (RVal::Int(n), _) => format!("{n}"),
        | (RVal::Rec(fields), RTy::Rec(tys)) => {
            let comp = |i: usize, lets: &mut Vec<String>, counter: &mut usize| format!("{} = {}", fields[i].0, val_text(&fields[i].1, &tys[i].1, style, lets, counter));
            if style == 0 || fields.len() < 3 {
                let parts: Vec<String> = (0..fields.len()).map(|i| comp(i, lets, counter)).collect();
                return format!("({})", parts.join(", "));
            }
            // (first, tail) where tail is the remaining product
            let first = comp(0, lets, counter);
            let tail_v = RVal::Rec(fields[1..].to_vec());
            let tail_t = RTy::Rec(tys[1..].to_vec());
            let tail = val_text(&tail_v, &tail_t, style, lets, counter);
            if style == 2 {
                *counter += 1;
                let name = format!("tl{}", *counter);
                lets.push(format!("let {name} : {} = {tail} in", ty_text(&tail_t)));
                format!("({first}, {name})")
            } else {
                format!("({first}, {tail})")
            }
        }
        | _ => unreachable!(),
    }
}

fn paths(v: &RVal, prefix: &mut Vec<String>, out: &mut Vec<(Vec<String>, i64)>) {
    match v {
        | RVal::Int(n) => out.push((prefix.clone(), *n)),
        | RVal::Rec(fields) => {
            for (n, f) in fields {
                prefix.push(n.clone());
                paths(f, prefix, out);
                prefix.pop();
            }
        }
    }
}

/// (program text, expected stdout)
pub fn record_program(ctx: &Ctx, tape: &[u8]) -> (String, String, usize) {
    let mut t = Tape::new(tape);
    let mut c = 0usize;
    let ty = gen_ty(&mut t, 2, &mut c);
    let mut n = 0i64;
    let val = gen_val(&mut t, &ty, &mut n);
    let style = t.below(3) as u8;
    let mut lets = vec![];
    let mut lc = 0usize;
    let vt = val_text(&val, &ty, style, &mut lets, &mut lc);
    let mut ps = vec![];
    paths(&val, &mut vec![], &mut ps);
    let mut s = print::prelude(&ctx.repo_root);
    s.push_str("( ");
    for l in &lets {
        s.push_str(l);
        s.push(' ');
    }
    s.push_str(&format!("let r : {} = {vt} in\n", ty_text(&ty)));
    let mut expected = String::new();
    let mut depth_max = 0;
    for (i, (path, n)) in ps.iter().enumerate() {
        depth_max = depth_max.max(path.len());
        // project in one chain, or step by step through let-bound intermediate records
        let stepwise = (tape.get(i % tape.len().max(1)).copied().unwrap_or(0) % 2 == 1) && path.len() > 1;
        if stepwise {
            let mut cur = "r".to_string();
            for (k, f) in path[..path.len() - 1].iter().enumerate() {
                s.push_str(&format!("let q{i}_{k} = {cur} / {f} in "));
                cur = format!("q{i}_{k}");
            }
            s.push_str(&format!("do s{i} <- ! (int64/to_string) ( {cur} / {} ) ; ! (stdio/write_line) s{i} {{\n", path[path.len() - 1]));
        } else {
            s.push_str(&format!("do s{i} <- ! (int64/to_string) ( r / {} ) ; ! (stdio/write_line) s{i} {{\n", path.join(" / ")));
        }
        expected.push_str(&format!("{n}\n"));
    }
    s.push_str("! (process/exit) 0");
    for _ in &ps {
        s.push_str(" }");
    }
    s.push_str(" : OS )\n");
    (s, expected, depth_max)
}

/// Run one record program: it must be accepted, never go wrong, and print the stored integers.
pub fn check_records(ctx: &Ctx, tape: &[u8], stats: &mut Stats, only_safety: bool) -> Result<(), Fail> {
    let (text, expected, depth) = record_program(ctx, tape);
    stats.eval();
    let path = thread_dir(ctx).join("rec.zy");
    std::fs::write(&path, &text).expect("write case");
    let session = CompilerSession::default();
    let case = || json!({"source": text[text.find("( ").unwrap_or(0)..].to_string(), "expected_stdout": expected});
    match drive::analyze_executable(&session, &path) {
        | Analyzed::Panic(p) => Err(Fail::new(format!("analysis-{}", p.signature()), "analysis to return", p.describe()).with(case())),
        | Analyzed::NotAccepted(front) => {
            if only_safety {
                stats.count("records:not-accepted(discarded)");
                return Ok(());
            }
            Err(Fail::new("record-program-rejected", "accepted: every projected field exists at its path", format!("{:?}", front.kinds.iter().take(2).collect::<Vec<_>>())).with(case()))
        }
        | Analyzed::AcceptedOther(_, why) => Err(Fail::new("record-program-not-executable", "an executable", why).with(case())),
        | Analyzed::Executable(exe, _) => {
            let run = drive::run_executable(exe, b"", &[], 500_000);
            if let RunEnd::Stuck { msg, file, line } = &run.end {
                let short: String = msg.chars().take(48).collect();
                return Err(Fail::new(
                    format!("stuck[{short}]@{}", file.rsplit("/repo/").next().unwrap_or(file)),
                    "progress, exit code, returned value, host I/O, or the division trap",
                    format!("interpreter went wrong: `{msg}` at {file}:{line} after {} steps", run.steps),
                )
                .with(case()));
            }
            let out = String::from_utf8_lossy(&run.stdout).to_string();
            if !only_safety && (out != expected || !matches!(run.end, RunEnd::Exit(0))) {
                return Err(Fail::new("projection-selects-another-field", format!("Exit(0) printing {expected:?}"), format!("{:?} printing {out:?}", run.end)).with(case()));
            }
            stats.count("records:ran");
            if depth >= 2 {
                stats.nontrivial(hash_of(&text));
                stats.sample(|| json!({"stream": "records", "source": text[text.find("( ").unwrap_or(0)..].chars().take(700).collect::<String>()}));
            }
            Ok(())
        }
    }
}

pub fn replay(ctx: &Ctx, doc: &Value, only_safety: bool) -> Result<(), Fail> {
    let tape = unhex(doc["tape_hex"].as_str().unwrap_or(""));
    check_records(ctx, &tape, &mut Stats::new(), only_safety)
}
