//! C16 — tool output is a deterministic function of the sources.

use crate::core::generate::Cfg;
use crate::core::harness as h;
use crate::engine::*;
use crate::props::fmt::run_cli;
use serde_json::{Value, json};
use std::path::{Path, PathBuf};

const COMMANDS: &[&[&str]] = &[
    &["check"],
    &["run"],
    &["fmt", "--check"],
    &["build", "-t", "zir"],
    &["build", "-t", "zasm"],
    &["build", "-t", "asm"],
    &["build", "-t", "llvm"],
];

fn run_once(ctx: &Ctx, cmd: &[&str], file: &Path, variant: usize) -> (i32, Vec<u8>, Vec<u8>) {
    use std::io::Write;
    use std::process::{Command, Stdio};
    let mut c = Command::new(ctx.zydeco_bin());
    c.args(cmd).arg(file).stdin(Stdio::piped()).stdout(Stdio::piped()).stderr(Stdio::piped());
    c.env("NO_COLOR", "1");
    // vary what the property names: process instance (hash seeds, ASLR) plus environment order / cwd
    match variant % 3 {
        | 1 => {
            c.env("ZZZ_EXTRA", "1").env("AAA_EXTRA", "2").current_dir(&ctx.scratch);
        }
        | 2 => {
            c.env("HOME", &ctx.scratch).current_dir("/");
        }
        | _ => {}
    }
    let mut child = c.spawn().expect("spawn zydeco");
    let _ = child.stdin.take().unwrap().write_all(b"3\nline\n");
    // bounded wait: a program that never terminates (echo loops on end of input) is not a determinism
    // question; its output is read up to a cap and the process is killed at the deadline
    const CAP: usize = 1 << 20;
    let read_capped = |mut r: Box<dyn std::io::Read + Send>| {
        std::thread::spawn(move || {
            let mut buf = Vec::new();
            let mut chunk = [0u8; 8192];
            loop {
                match r.read(&mut chunk) {
                    | Ok(0) | Err(_) => break,
                    | Ok(n) => {
                        if buf.len() < CAP {
                            buf.extend_from_slice(&chunk[..n.min(CAP - buf.len())]);
                        }
                    }
                }
            }
            buf
        })
    };
    let out_t = read_capped(Box::new(child.stdout.take().unwrap()));
    let err_t = read_capped(Box::new(child.stderr.take().unwrap()));
    let deadline = std::time::Instant::now() + std::time::Duration::from_secs(20);
    let status = loop {
        match child.try_wait() {
            | Ok(Some(st)) => break Some(st),
            | Ok(None) if std::time::Instant::now() >= deadline => {
                let _ = child.kill();
                let _ = child.wait();
                break None;
            }
            | Ok(None) => std::thread::sleep(std::time::Duration::from_millis(5)),
            | Err(_) => break None,
        }
    };
    let (stdout, stderr) = (out_t.join().unwrap_or_default(), err_t.join().unwrap_or_default());
    match status {
        | Some(st) => (st.code().unwrap_or(-1), stdout, mask_thread_ids(stderr)),
        | None => (TIMED_OUT, vec![], vec![]),
    }
}

/// exit status standing for "killed at the deadline": such runs are not compared
const TIMED_OUT: i32 = i32::MIN;

/// A Rust panic message names the OS thread id (`thread 'main' (12345) panicked`), which is not a
/// function of the sources; crashes themselves are C10/C18's subject.  Mask the id.
fn mask_thread_ids(stderr: Vec<u8>) -> Vec<u8> {
    let s = String::from_utf8_lossy(&stderr);
    if !s.contains("panicked at") {
        return stderr;
    }
    let mut out = String::new();
    for line in s.lines() {
        if let (Some(a), Some(b)) = (line.find("' ("), line.find(") panicked at")) {
            if line.starts_with("thread '") && a < b {
                out.push_str(&line[..a + 3]);
                out.push_str("TID");
                out.push_str(&line[b..]);
                out.push('\n');
                continue;
            }
        }
        out.push_str(line);
        out.push('\n');
    }
    out.into_bytes()
}

fn first_diff_line(a: &[u8], b: &[u8]) -> String {
    let (sa, sb) = (String::from_utf8_lossy(a), String::from_utf8_lossy(b));
    for (i, (x, y)) in sa.lines().zip(sb.lines()).enumerate() {
        if x != y {
            return format!("line {}: {:?} vs {:?}", i + 1, x.chars().take(120).collect::<String>(), y.chars().take(120).collect::<String>());
        }
    }
    format!("lengths {} vs {}", a.len(), b.len())
}

pub fn check_file(ctx: &Ctx, file: &Path, runs: usize, stats: &mut Stats) -> Result<(), Fail> {
    for cmd in COMMANDS {
        let first = run_once(ctx, cmd, file, 0);
        stats.eval();
        if first.0 == TIMED_OUT {
            stats.inconclusive += 1;
            stats.count("inconclusive:process-did-not-terminate-within-20s");
            continue;
        }
        for k in 1..runs {
            let next = run_once(ctx, cmd, file, k);
            stats.eval();
            if next.0 == TIMED_OUT {
                stats.inconclusive += 1;
                stats.count("inconclusive:process-did-not-terminate-within-20s");
                break;
            }
            let what = if next.0 != first.0 {
                Some(("exit-status", format!("{} vs {}", first.0, next.0)))
            } else if next.1 != first.1 {
                Some(("stdout", first_diff_line(&first.1, &next.1)))
            } else if next.2 != first.2 {
                Some(("stderr", first_diff_line(&first.2, &next.2)))
            } else {
                None
            };
            if let Some((stream, diff)) = what {
                return Err(Fail::new(
                    format!("nondeterministic-{}-{stream}", cmd.join("_")),
                    format!("byte-identical {stream} across fresh processes of `zydeco {}`", cmd.join(" ")),
                    diff,
                )
                .with(json!({"command": cmd, "file": file, "runs_compared": k + 1})));
            }
        }
        let text = String::from_utf8_lossy(&first.1).to_string() + &String::from_utf8_lossy(&first.2);
        let marks = ["Error", "extern", "block", "label", "__closure", "Warning"].iter().filter(|m| text.contains(*m)).count();
        if first.1.len() + first.2.len() >= 200 && marks >= 1 {
            stats.nontrivial(hash_of(&(cmd.join(" "), file)));
            stats.sample(|| json!({"command": format!("zydeco {}", cmd.join(" ")), "file": file, "exit": first.0, "stdout_bytes": first.1.len(), "stderr_bytes": first.2.len()}));
        }
    }
    Ok(())
}

/// Generated rejected programs with several independent errors / many independent `that` bindings.
fn synthetic_sources(ctx: &Ctx, dir: &Path) -> Vec<PathBuf> {
    let pre = crate::core::print::prelude(&ctx.repo_root);
    let mut out = vec![];
    let mut write = |name: &str, body: String| {
        let p = dir.join(name);
        std::fs::write(&p, format!("{pre}{body}\n")).unwrap();
        out.push(p);
    };
    // two non-exhaustive matches and coverage gaps in one program
    write(
        "coverage.zy",
        "begin\n def B : VType = data | +T : Unit | +F : Unit | +M : B * B end that\n def ! f (b : B) : Ret Int64 = match b | +T() => ret 1 end that\n def ! g (b : B) : Ret Int64 = match b | +M(+T(), x) => ret 1 | +F() => ret 2 end that\n def ! k (p : B * B) : Ret Int64 = match p | (+T(), +F()) => ret 0 end that\n ( ! ( process / exit ) 0 : OS )\nend".into(),
    );
    // many independent that-bindings in scrambled order
    let mut body = String::from("begin\n");
    for i in (0..24).rev() {
        body.push_str(&format!(" let x{i} : Int64 = {i} that\n def ! f{i} (n : Int64) : Ret Int64 = ! ( int64 / add ) n x{} that\n", (i * 7) % 24));
    }
    body.push_str(" ( do r <- ! f3 4 ; ! ( process / exit ) r : OS )\nend");
    write("bindings.zy", body);
    // diagnostics that *list* things: their order must not come from a hash table
    write(
        "missing-destructors.zy",
        "begin\n def Shape : CType = codata | .alpha : Ret Int64 | .beta : Ret Int64 | .gamma : Ret Int64 | .delta : Ret Int64 | .epsilon : Ret Int64 | .zeta : Ret Int64 | .eta : Ret Int64 end that\n def ! obj : Shape = comatch | .gamma => ret 1 end that\n def ! other : Shape = comatch | .eta => ret 1 | .alpha => ret 2 end that\n ( ! ( process / exit ) 0 : OS )\nend".into(),
    );
    write(
        "overlapping-clauses.zy",
        "begin\n def Shape : CType = codata | .alpha : Ret Int64 | .beta : Ret Int64 | .gamma : Ret Int64 | .delta : Ret Int64 end that\n def ! twice : Shape = comatch | .alpha => ret 1 | .beta => ret 1 | .gamma => ret 1 | .delta => ret 1 | .gamma => ret 2 | .beta => ret 2 | .delta => ret 2 | .alpha => ret 2 end that\n ( ! ( process / exit ) 0 : OS )\nend".into(),
    );
    // a recursive group of four type definitions, two of them ill-kinded: which one is blamed first?
    write(
        "recursive-group.zy",
        "begin\n def North : VType = data | +Stop : Unit | +ToEast : East end that\n def East : VType = data | +ToSouth : South end that\n def South : VType = data | +ToWest : Ret West end that\n def West : VType = data | +ToNorth : Ret North end that\n def Up : VType = data | +U1 : Ret Down end that\n def Down : VType = data | +D1 : Ret Left end that\n def Left : VType = data | +L1 : Ret Up end that\n ( ! ( process / exit ) 0 : OS )\nend".into(),
    );
    // many names defined twice in one block
    write(
        "duplicates.zy",
        "begin\n let aaa = 1 that\n let bbb = 2 that\n let ccc = 3 that\n let ddd = 4 that\n let eee = 5 that\n let ( aaa , bbb , ccc , ddd , eee ) = ( 1 , 2 , 3 , 4 , 5 ) that\n ( ! ( process / exit ) 0 : OS )\nend".into(),
    );
    // many unbound names and many unknown constructors
    write(
        "unbound.zy",
        "begin\n let a = u1 that\n let b = u2 that\n let c = u3 that\n let d = u4 that\n let e = u5 that\n let f = u6 that\n ( ! ( process / exit ) 0 : OS )\nend".into(),
    );
    // several type errors
    write("errors.zy", "begin\n let a : Int64 = \"s\" that\n let b : String = 5 that\n let c : Int8 = 300 that\n ( ! ( process / exit ) a : OS )\nend".into());
    // uses many host roles
    write(
        "roles.zy",
        "( do a <- ! ( int8 / add ) 1 2 ; do b <- ! ( uint64 / mul ) 3 4 ; do s <- ! ( string / append ) \"x\" \"y\" ; do n <- ! ( string / length ) s ; do c <- ! ( float64 / add ) 1.5 2.5 ; ! ( stdio / write_line ) s { ! ( stdio / read_line ) { fn ( l : String ) => ! ( int64 / lt ) OS n 5 { ! ( process / exit ) 0 } { ! ( process / exit ) 1 } } } : OS )".into(),
    );
    // generated core programs
    for k in 0..4u64 {
        let mut tape = vec![0u8; 300];
        let mut x = mix(ctx.seed, k);
        for b in tape.iter_mut() {
            x = mix(x, 3);
            *b = (x >> 16) as u8;
        }
        let g = h::generate(&tape, &Cfg::quick());
        let text = h::default_print(&ctx.repo_root, &g.prog);
        let p = dir.join(format!("gen{k}.zy"));
        std::fs::write(&p, text).unwrap();
        out.push(p);
    }
    out
}

pub fn run(ctx: &Ctx) -> Report {
    let mut report = Report::new(
        "files: repository executables and failing fixtures (lib/tests/**), generated rejected programs with several \
         independent errors and coverage gaps, a block with 48 independent `that` bindings, a program using many host \
         roles, generated core programs; commands: check, run (fixed stdin), fmt --check, build -t zir|zasm|asm|llvm; \
         each (command, file) runs in N fresh processes (hash seeds and ASLR differ per process; environment order, \
         HOME and working directory are varied too); oracle: byte equality of stdout, stderr and exit status; \
         non-trivial = ≥200 bytes of output mentioning diagnostics, labels or externs; distinct by (command, file)",
    );
    let runs = ctx.tier.pick(4, 20);
    let dir = ctx.fresh_dir("c16");
    let mut files = synthetic_sources(ctx, &dir);
    let corpus: Vec<PathBuf> = crate::drive::corpus_files(&ctx.repo_root)
        .into_iter()
        .filter(|p| {
            let s = p.display().to_string();
            s.contains("/lib/tests/") && !s.ends_with(".zyi")
        })
        .collect();
    let step = ctx.tier.pick(9, 1);
    files.extend(corpus.into_iter().skip((ctx.seed % step as u64) as usize).step_by(step));
    let _ = run_cli;
    let r = run_items(ctx, "processes", files, |file, stats| check_file(ctx, file, runs, stats));
    report.absorb(r);
    report.extra.insert("runs_per_command_and_file".into(), json!(runs));
    report.assume("determinism across machines or toolchains is not examined; `run` gets a fixed stdin and programs using random_int are not in the sample");
    report
}

pub fn replay(ctx: &Ctx, doc: &Value) -> Result<(), Fail> {
    let file = PathBuf::from(doc["rendered"]["file"].as_str().unwrap_or(""));
    let mut stats = Stats::new();
    if !file.exists() {
        // synthetic files live in the scratch directory of the original run: regenerate them
        let dir = ctx.fresh_dir("c16r");
        for f in synthetic_sources(ctx, &dir) {
            check_file(ctx, &f, 8, &mut stats)?;
        }
        return Ok(());
    }
    check_file(ctx, &file, 8, &mut stats)
}
