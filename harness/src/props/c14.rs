//! C14 — formatting is idempotent and canonical.

use crate::drive::{self, FmtOutcome};
use crate::engine::*;
use crate::props::fmt::{self as f, Bases};
use crate::scan::{self, Item};
use serde_json::{Value, json};

pub fn check_text(text: &str, origin: &Value, stats: &mut Stats) -> Result<Option<String>, Fail> {
    stats.eval();
    let case = || json!({"origin": origin, "text": text});
    let FmtOutcome::Ok(once) = drive::format_text(text) else {
        stats.count("not-formattable");
        return Ok(None);
    };
    if !once.ends_with('\n') || once.ends_with("\n\n") {
        let unterminated = scan::comments(text).iter().any(|c| c.unterminated);
        let sig = if unterminated { "trailing-newline[unterminated-block-comment-at-eof]" } else { "trailing-newline" };
        return Err(Fail::new(sig, "output ends with exactly one newline", format!("{:?}", once.chars().rev().take(6).collect::<String>())).with(case()));
    }
    let mut prev = once.clone();
    let mut seen = vec![once.clone()];
    for round in 2..=4 {
        match drive::format_text(&prev) {
            | FmtOutcome::Ok(next) => {
                if round == 2 && next != once {
                    let la: Vec<&str> = once.lines().collect();
                    let lb: Vec<&str> = next.lines().collect();
                    // classify *how* the second pass differs (each class is one root cause)
                    let verbatim_comments = f::verbatim_slices(text).iter().any(|s| !f::comments_only(&f::atom_stream(s)).is_empty());
                    let has_multiline_block = scan::comments(&once).iter().any(|c| once[c.start..c.end].contains('\n') && matches!(c.kind, scan::CommentKind::Block));
                    let same_len = la.len() == lb.len();
                    let only_trailing = same_len && la.iter().zip(lb.iter()).all(|(x, y)| x.trim_end() == y.trim_end());
                    let only_indent = same_len && la.iter().zip(lb.iter()).all(|(x, y)| x.trim() == y.trim());
                    let nonblank = |v: &Vec<&str>| v.iter().filter(|l| !l.trim().is_empty()).map(|l| l.to_string()).collect::<Vec<_>>();
                    let only_blank = nonblank(&la) == nonblank(&lb);
                    let class = if verbatim_comments {
                        "comment-inside-verbatim-duplicated"
                    } else if only_trailing {
                        "trailing-whitespace"
                    } else if has_multiline_block && only_indent && f::atom_stream(&once) == f::atom_stream(&next) {
                        "block-comment-continuation-indent"
                    } else {
                        // same code tokens (punctuation and parentheses included) ⇒ only the layout moved;
                        // same atoms but other tokens ⇒ a second round of parenthesis / pun canonicalisation
                        let code = |t: &str| scan::tokens(t).iter().map(|k| t[k.start..k.end].to_string()).collect::<Vec<_>>();
                        let same_tokens = code(&once) == code(&next);
                        let same_atoms = f::atom_stream(&once) == f::atom_stream(&next);
                        // a text-block comment (`--|`) that pass 1 had to push onto a line of its own after an operator:
                        // the line before it ends in a blank and the comment is not indented; pass 2 reads it as an
                        // own-line comment and lays the construct out differently (one root cause, listed)
                        let text_block_after_operator = {
                            let l: Vec<&str> = once.lines().collect();
                            let op_then_comment = |line: &str| {
                                // code ending in an operator, then a line / text-block comment on the same line
                                match [line.find("--"), line.find("/-")].iter().flatten().min().copied() {
                                    | Some(i) => {
                                        let code = line[..i].trim_end();
                                        [":", "=", "=>", "<-", "->", ".", "*", "::", "|"].iter().any(|op| code.ends_with(op)) && !code.is_empty()
                                    }
                                    | None => false,
                                }
                            };
                            l.windows(2).any(|w| w[0].ends_with(' ') && w[1].trim_start().starts_with("--|")) || l.iter().any(|x| op_then_comment(x))
                        };
                        // differing lines all inside multi-line block comments
                        let in_block_comment_only = same_len && {
                            let mut inside = vec![false; la.len()];
                            let mut line_start = 0usize;
                            let spans: Vec<(usize, usize)> = scan::comments(&once).iter().filter(|c| matches!(c.kind, scan::CommentKind::Block) && once[c.start..c.end].contains('\n')).map(|c| (c.start, c.end)).collect();
                            for (i, l) in la.iter().enumerate() {
                                let (s0, e0) = (line_start, line_start + l.len());
                                inside[i] = spans.iter().any(|(cs, ce)| *cs < e0 && s0 < *ce);
                                line_start = e0 + 1;
                            }
                            la.iter().zip(lb.iter()).enumerate().all(|(i, (x, y))| x == y || inside[i])
                        };
                        // the first differing line touches a multi-line block comment (its continuation lines are
                        // re-indented on every pass, which can also change where the rest of the line breaks)
                        let at_block_comment = {
                            let i = la.iter().zip(lb.iter()).position(|(x, y)| x != y).unwrap_or(0);
                            let mut line_start = 0usize;
                            let mut hit = false;
                            let spans: Vec<(usize, usize)> = scan::comments(&once).iter().filter(|c| matches!(c.kind, scan::CommentKind::Block) && once[c.start..c.end].contains('\n')).map(|c| (c.start, c.end)).collect();
                            for (k, l) in la.iter().enumerate() {
                                let (s0, e0) = (line_start, line_start + l.len());
                                if k + 1 >= i && k <= i + 1 && spans.iter().any(|(cs, ce)| *cs <= e0 && s0 <= *ce) {
                                    hit = true;
                                }
                                line_start = e0 + 1;
                            }
                            hit
                        };
                        match (same_tokens, same_atoms) {
                            | (true, _) if in_block_comment_only || at_block_comment => "block-comment-continuation-indent",
                            | (true, _) if text_block_after_operator => "layout-only:comment-after-operator",
                            | (true, _) if only_blank => "layout-only:blank-lines",
                            | (true, _) if only_indent => "layout-only:indentation",
                            | (true, _) => "layout-only:line-breaks",
                            | (false, true) => "second-round-of-parenthesis-or-pun-canonicalisation",
                            | (false, false) => "content",
                        }
                    };
                    // layout-only differences are keyed by the joint at which the two passes part: the token that ends
                    // the shorter of the first differing lines, and whether pass 2 splits there or joins
                    let class: String = if matches!(class, "layout-only:line-breaks" | "layout-only:indentation" | "layout-only:blank-lines") {
                        let i = la.iter().zip(lb.iter()).position(|(x, y)| x != y).unwrap_or(0);
                        let (a, b) = (la.get(i).copied().unwrap_or("").trim(), lb.get(i).copied().unwrap_or("").trim());
                        let last = |l: &str| l.split_whitespace().last().unwrap_or("").chars().rev().take(2).collect::<String>().chars().rev().collect::<String>();
                        if a != b && a.starts_with(b) {
                            format!("{class}:pass2-splits-after[{}]", last(b))
                        } else if a != b && b.starts_with(a) {
                            { let _ = last(a); format!("{class}:pass2-joins") }
                        } else {
                            format!("{class}:other")
                        }
                    } else {
                        class.to_string()
                    };
                    let class = class.as_str();
                    if std::env::var_os("VERIF_SURVEY").is_some() {
                        stats.count(&format!("survey-not-idempotent:{class}"));
                        if class.starts_with("layout-only") && class != "layout-only:comment-after-operator" && text.len() < 100000 {
                            eprintln!("SURVEY14 {class} ORIGIN {} DIFF {}", origin, f::first_diff(&la, &lb));
                        }
                        return Ok(None);
                    }
                    let sig = format!("not-idempotent[{class}]");
                    return Err(Fail::new(sig, "fmt(fmt(x)) == fmt(x)", f::first_diff(&la, &lb)).with(case()));
                }
                if next != prev && seen.contains(&next) {
                    return Err(Fail::new("fmt-cycles", "convergence", format!("round {round} returns to an earlier text")).with(case()));
                }
                seen.push(next.clone());
                prev = next;
            }
            | FmtOutcome::ParseError(m) => {
                return Err(Fail::new("fmt-output-unparseable", "the formatter's own output to be formattable", m.chars().take(200).collect::<String>()).with(case()));
            }
            | FmtOutcome::Panic(p) => {
                return Err(Fail::new(format!("fmt-second-pass-{}", p.signature()), "no panic on its own output", p.describe()).with(case()));
            }
            | FmtOutcome::Timeout => {
                stats.inconclusive += 1;
                stats.count("watchdog(8s): inconclusive");
                return Ok(None);
            }
        }
    }
    stats.count("idempotent");
    Ok(Some(once))
}

/// x′: the same text with horizontal spacing changed *within lines* (no line break added or removed).
fn respace(t: &mut Tape, text: &str) -> String {
    let items = scan::scan(text);
    let mut out = String::new();
    let mut prev_end = 0;
    for it in &items {
        let (s, e) = match it {
            | Item::Tok(k) => (k.start, k.end),
            | Item::Com(c) => (c.start, c.end),
        };
        let gap = &text[prev_end..s];
        if gap.contains('\n') || prev_end == 0 {
            out.push_str(gap);
        } else if gap.is_empty() {
        } else {
            out.push_str(&" ".repeat(1 + t.below(4)));
        }
        out.push_str(&text[s..e]);
        prev_end = e;
    }
    out.push_str(&text[prev_end..]);
    out
}

pub fn run(ctx: &Ctx) -> Report {
    let mut report = Report::new(
        "sources as C12 (all starting layouts, widths 1…200, layout policies incl. preserve); oracle: fmt∘fmt = fmt \
         byte-wise, exactly one trailing newline, fmtⁿ (n ≤ 4) never cycles; pairs (x, x′) that differ only in \
         horizontal spacing within lines must format to the same text; CLI: `fmt --check` exits 1 and prints the \
         path ⇔ `fmt` then changes the bytes, and after `fmt`, `fmt --check` exits 0; with several files in one invocation the verdict covers all of them in every argument order; non-trivial = fmt(x) ≠ x and \
         the case has a directive or a comment; distinct by text hash",
    );
    let bases = Bases::load(ctx);
    let bases_ref = &bases;
    let items: Vec<usize> = (0..bases.corpus.len()).collect();
    let r = run_items(ctx, "corpus", items, |i, stats| {
        let (p, s) = &bases_ref.corpus[*i];
        for w in ["", "@[format(width(7))] ", "@[format(width(60), layout(ignore))] "] {
            check_text(&format!("{w}{s}"), &json!({"base": p, "directive": w}), stats)?;
        }
        Ok(())
    });
    report.absorb(r);
    let cases = ctx.tier.pick(4_000, 120_000);
    let r = run_tapes(ctx, "mutated", cases, 500, |tape, stats| {
        let c = f::gen_case(ctx, bases_ref, tape);
        if let Some(once) = check_text(&c.text, &c.origin, stats)? {
            let has_comment = !f::comments_only(&f::atom_stream(&c.text)).is_empty();
            if once != c.text && (c.has_directive || has_comment) {
                stats.nontrivial(hash_of(&c.text));
                stats.sample(|| json!({"origin": c.origin, "input": c.text.chars().take(300).collect::<String>(), "formatted": once.chars().take(300).collect::<String>()}));
            }
            // canonical: horizontal respacing within lines does not matter
            let mut t = Tape::new(if tape.len() > 12 { &tape[tape.len() - 12..] } else { tape });
            let x2 = respace(&mut t, &c.text);
            // verbatim payloads keep their spacing by design: pairs are only formed without them
            if x2 != c.text && f::verbatim_slices(&c.text).is_empty() {
                if let FmtOutcome::Ok(f2) = drive::format_text(&x2) {
                    stats.eval();
                    if f2 != once {
                        let la: Vec<&str> = once.lines().collect();
                        let lb: Vec<&str> = f2.lines().collect();
                        let has_multiline_block = scan::comments(&once).iter().any(|c| once[c.start..c.end].contains('\n') && matches!(c.kind, scan::CommentKind::Block));
                        let only_indent = la.len() == lb.len() && la.iter().zip(lb.iter()).all(|(x, y)| x.trim() == y.trim());
                        let sig = if has_multiline_block && only_indent && f::atom_stream(&once) == f::atom_stream(&f2) {
                            "spacing-not-canonical[block-comment-continuation-indent]"
                        } else {
                            "spacing-not-canonical"
                        };
                        if std::env::var_os("VERIF_SURVEY").is_some() {
                            stats.count(&format!("survey-{sig}"));
                            return Ok(());
                        }
                        return Err(Fail::new(sig, "sources differing only in horizontal spacing format identically", f::first_diff(&la, &lb))
                            .with(json!({"origin": c.origin, "text": c.text, "respaced": x2})));
                    }
                    stats.count("respaced-pair");
                }
            }
        }
        Ok(())
    });
    report.absorb(r);
    // CLI agreement of --check with fmt
    let dir = ctx.fresh_dir("c14cli");
    let items: Vec<usize> = (0..bases.corpus.len()).step_by(ctx.tier.pick(7, 2)).collect();
    let r = run_items(ctx, "cli", items, |i, stats| {
        let (p, s) = &bases_ref.corpus[*i];
        for (k, text) in [s.clone(), format!("  {}", s.replace(" = ", "  =  "))].iter().enumerate() {
            stats.eval();
            let path = dir.join(format!("c{i}_{k}.zy"));
            std::fs::write(&path, text).unwrap();
            let (check_code, check_out, _) = f::run_cli(ctx, &["fmt", "--check", path.to_str().unwrap()], b"");
            let still = std::fs::read_to_string(&path).unwrap_or_default();
            if &still != text {
                return Err(Fail::new("check-modified-file", "`fmt --check` never writes", "file changed").with(json!({"base": p})));
            }
            let (fmt_code, _, _) = f::run_cli(ctx, &["fmt", path.to_str().unwrap()], b"");
            if fmt_code != 0 {
                continue;
            }
            let after = std::fs::read_to_string(&path).unwrap_or_default();
            let changed = &after != text;
            let reported = check_code == 1 && String::from_utf8_lossy(&check_out).contains(path.to_str().unwrap());
            if changed != reported || (!changed && check_code != 0) {
                return Err(Fail::new("check-disagrees-with-fmt", "`fmt --check` exits 1 and prints the path exactly when `fmt` changes the bytes", format!("check exit {check_code}, reported {reported}, fmt changed the file: {changed}")).with(json!({"base": p, "variant": k})));
            }
            let (again, _, _) = f::run_cli(ctx, &["fmt", "--check", path.to_str().unwrap()], b"");
            if again != 0 {
                return Err(Fail::new("check-after-fmt", "`fmt --check` exits 0 right after `fmt`", format!("exit {again}")).with(json!({"base": p, "variant": k})));
            }
            if changed {
                stats.nontrivial(hash_of(text));
            }
        }
        Ok(())
    });
    report.absorb(r);
    // several files in one invocation: the verdict is about all of them, in any argument order
    let dir2 = ctx.fresh_dir("c14multi");
    let picks: Vec<usize> = (0..bases.corpus.len()).step_by(ctx.tier.pick(11, 3)).collect();
    let r = run_items(ctx, "cli-multi", picks, |i, stats| {
        let (p, s) = &bases_ref.corpus[*i];
        // a formatted copy (via fmt itself) and an unformatted one of the same source
        let formatted = dir2.join(format!("f{i}.zy"));
        let unformatted = dir2.join(format!("u{i}.zy"));
        let other = dir2.join(format!("g{i}.zy"));
        std::fs::write(&formatted, s).unwrap();
        let (code, _, _) = f::run_cli(ctx, &["fmt", formatted.to_str().unwrap()], b"");
        if code != 0 {
            return Ok(());
        }
        let canonical = std::fs::read_to_string(&formatted).unwrap_or_default();
        std::fs::write(&other, &canonical).unwrap();
        let messy = format!("  {}", canonical.replace(" = ", "  =  "));
        std::fs::write(&unformatted, &messy).unwrap();
        // does fmt change the messy one at all?
        let probe = dir2.join(format!("p{i}.zy"));
        std::fs::write(&probe, &messy).unwrap();
        let (pc, _, _) = f::run_cli(ctx, &["fmt", probe.to_str().unwrap()], b"");
        if pc != 0 || std::fs::read_to_string(&probe).unwrap_or_default() == messy {
            return Ok(());
        }
        let (fp, up, op) = (formatted.to_str().unwrap(), unformatted.to_str().unwrap(), other.to_str().unwrap());
        for (order, args, want) in [
            ("unformatted first", vec!["fmt", "--check", up, fp], 1),
            ("unformatted last", vec!["fmt", "--check", fp, up], 1),
            ("unformatted in the middle", vec!["fmt", "--check", fp, up, op], 1),
            ("all formatted", vec!["fmt", "--check", fp, op], 0),
        ] {
            stats.eval();
            let (code, out, _) = f::run_cli(ctx, &args, b"");
            let listed = String::from_utf8_lossy(&out).contains(up);
            if code != want || (want == 1 && !listed) {
                return Err(Fail::new(
                    "check-verdict-over-several-files",
                    format!("exit {want}{}: `fmt` would modify exactly the unformatted file", if want == 1 { " and the unformatted path listed" } else { "" }),
                    format!("{order}: exit {code}, unformatted path listed: {listed}"),
                )
                .with(json!({"base": p, "order": order})));
            }
            if std::fs::read_to_string(&unformatted).unwrap_or_default() != messy {
                return Err(Fail::new("check-modified-file", "`fmt --check` never writes", "file changed").with(json!({"base": p})));
            }
        }
        stats.nontrivial(hash_of(&messy));
        Ok(())
    });
    report.absorb(r);
    report
}

pub fn replay(_ctx: &Ctx, doc: &Value) -> Result<(), Fail> {
    let text = doc["rendered"]["text"].as_str().unwrap_or("");
    let mut stats = Stats::new();
    check_text(text, &doc["rendered"]["origin"], &mut stats)?;
    if let Some(x2) = doc["rendered"]["respaced"].as_str() {
        let (a, b) = (drive::format_text(text), drive::format_text(x2));
        if let (FmtOutcome::Ok(a), FmtOutcome::Ok(b)) = (a, b) {
            if a != b {
                return Err(Fail::new("spacing-not-canonical", "same formatted text", "differs"));
            }
        }
    }
    Ok(())
}
