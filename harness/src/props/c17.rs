//! C17 — concurrent analyses on session snapshots are isolated and consistent.

use crate::engine::*;
use crate::props::c15::{self, FILES, Op, ROOTS, World, variants};
use serde_json::{Value, json};
use std::collections::{HashMap, HashSet};
use std::sync::atomic::{AtomicBool, AtomicU64, Ordering};
use std::sync::{Arc, Mutex};
use zydeco_session::CompilerSession;

/* ---------------------- deterministic degenerate schedules ---------------- */

fn initial_world(ctx: &Ctx) -> World {
    let mut w = World::default();
    for (f, name) in FILES.iter().enumerate() {
        if *name != "lib.zyi" {
            w.disk.insert(f, variants(name, &ctx.repo_root)[0].clone());
        }
    }
    w
}

fn setup_dir(ctx: &Ctx, tag: &str, w: &World) -> std::path::PathBuf {
    let dir = thread_dir(ctx).join(tag);
    let _ = std::fs::remove_dir_all(&dir);
    std::fs::create_dir_all(dir.join("deep")).unwrap();
    let dir = dir.canonicalize().unwrap();
    for (f, text) in &w.disk {
        std::fs::write(dir.join(FILES[*f]), text).unwrap();
    }
    dir
}

/// S1: a snapshot is the first to load a provider; afterwards the owner edits that provider.
fn schedule_snapshot_first_load(ctx: &Ctx, file: usize, variant: usize, root: usize, stats: &mut Stats) -> Result<(), Fail> {
    stats.eval();
    let mut w = initial_world(ctx);
    let dir = setup_dir(ctx, "sched", &w);
    let mut owner = CompilerSession::default();
    // the owner knows the root (as an editor that has the file open does), but none of its providers yet
    let _ = owner.refresh_disk(dir.join(ROOTS[root]));
    {
        let mut snap = owner.snapshot();
        let _ = c15::answer(&mut snap, &dir, &Op::Analyze(root));
    }
    let text = variants(FILES[file], &ctx.repo_root)[variant].clone();
    w.overlay.insert(file, text.clone());
    let r = owner.set_overlay(dir.join(FILES[file]), text);
    let case = json!({"schedule": "snapshot analyses root first (loading its providers); owner then installs an overlay on a provider; owner analyses", "file": FILES[file], "variant": variant, "root": ROOTS[root]});
    if let Err(e) = r {
        return Err(Fail::new("schedule-set_overlay-failed", "Ok", format!("{e}")).with(case));
    }
    let live = c15::answer(&mut owner, &dir, &Op::Analyze(root));
    let fresh = c15::fresh_answer(ctx, &w, &Op::Analyze(root));
    if live != fresh {
        return Err(Fail::new(
            "edit-after-snapshot-load-invisible",
            format!("fresh session: {}", fresh.chars().take(400).collect::<String>()),
            format!("owner after the edit: {}", live.chars().take(400).collect::<String>()),
        )
        .with(case));
    }
    // and a later snapshot sees it too
    let mut snap2 = owner.snapshot();
    let seen = c15::answer(&mut snap2, &dir, &Op::Analyze(root));
    drop(snap2);
    if seen != fresh {
        return Err(Fail::new("later-snapshot-stale", format!("fresh: {}", fresh.chars().take(300).collect::<String>()), format!("snapshot: {}", seen.chars().take(300).collect::<String>())).with(case));
    }
    stats.nontrivial(hash_of(&(file, variant, root)));
    Ok(())
}

/// S3: several snapshots analyse *different roots that share an import the session has not loaded yet* at the
/// same time (behind a barrier); afterwards the owner edits the shared file and analyses every root.  Each
/// answer must be the fresh-session answer for the edited contents: no root may stay on the old revision.
fn schedule_concurrent_first_load(ctx: &Ctx, threads: usize, trial: usize, stats: &mut Stats) -> Result<(), Fail> {
    use std::sync::{Arc, Barrier};
    stats.eval();
    let dir = thread_dir(ctx).join(format!("cfl{trial}"));
    let _ = std::fs::remove_dir_all(&dir);
    std::fs::create_dir_all(&dir).unwrap();
    let dir = dir.canonicalize().unwrap();
    std::fs::write(dir.join("shared.zy"), "1\n").unwrap();
    let roots: Vec<std::path::PathBuf> = (0..threads)
        .map(|i| {
            let p = dir.join(format!("root{i}.zy"));
            std::fs::write(&p, "( @(import(\"shared.zy\")) , 0 )\n").unwrap();
            p
        })
        .collect();
    let mut owner = CompilerSession::default();
    for r in &roots {
        let _ = owner.refresh_disk(r);
    }
    let barrier = Arc::new(Barrier::new(threads));
    let handles: Vec<_> = roots
        .iter()
        .map(|r| {
            let snap = owner.snapshot();
            let (r, b) = (r.clone(), barrier.clone());
            std::thread::spawn(move || {
                b.wait();
                let _ = snap.analyze(&r);
                drop(snap);
            })
        })
        .collect();
    for h in handles {
        let _ = h.join();
    }
    // the owner edits the shared import: a string where an Int64-typed… any other value of another type
    if let Err(e) = owner.set_overlay(dir.join("shared.zy"), "\"two\"\n".to_string()) {
        return Err(Fail::new("schedule-set_overlay-failed", "Ok", format!("{e}")));
    }
    let describe = |session: &CompilerSession, root: &std::path::Path| -> String {
        match session.graph(root) {
            | Ok(g) => g.sources.iter().map(|(_, f)| format!("{}={:?}", f.path.file_name().unwrap().to_string_lossy(), f.source.trim())).collect::<Vec<_>>().join(" "),
            | Err(e) => format!("graph error {e}"),
        }
    };
    for (i, r) in roots.iter().enumerate() {
        let live = describe(&owner, r);
        let fresh_session = {
            let mut s = CompilerSession::default();
            let _ = s.set_overlay(dir.join("shared.zy"), "\"two\"\n".to_string());
            s
        };
        let fresh = describe(&fresh_session, r);
        if live != fresh {
            return Err(Fail::new(
                "root-stays-on-the-old-revision-after-concurrent-first-load",
                format!("fresh session: {fresh}"),
                format!("owner after the edit, root{i}: {live}"),
            )
            .with(json!({"schedule": "k snapshots first analyse k roots sharing an unloaded import, concurrently; the owner then overlays the shared file and asks for each root's graph", "threads": threads, "trial": trial})));
        }
    }
    stats.nontrivial(hash_of(&(threads, trial)));
    Ok(())
}

fn resolve_text(text: &str) -> Option<(zydeco_surface::textual::syntax::SpanArena, zydeco_surface::scoped::syntax::PrimDefs, zydeco_surface::scoped::arena::ScopedArena, zydeco_surface::scoped::syntax::TermId)> {
    use zydeco_surface::bitter::SourceUnitDesugarer;
    use zydeco_surface::scoped::Resolver;
    use zydeco_utils::pass::CompilerPass;
    let crate::drive::ParseOutcome::Ok(parsed) = crate::drive::parse_unit(text) else { return None };
    let (spans, arena) = parsed.parser.finish();
    let out = SourceUnitDesugarer::new(&spans, &arena, parsed.unit).run().ok()?;
    let resolved = Resolver::new(&spans, out.arena, out.prim).run_source(out.root).ok()?;
    Some((spans, resolved.prim, resolved.arena, resolved.root))
}

fn outcome_kind(o: &zydeco_statics::query::TyckOutput) -> &'static str {
    match o.outcome {
        | zydeco_statics::SourceCheckOutcome::Checked(_) => "checked",
        | zydeco_statics::SourceCheckOutcome::Rejected(_) => "rejected",
    }
}

const SMALL: &[(&str, &str)] = &[
    ("1", "checked"),
    ("(1 : @(intrinsic(string)))", "rejected"),
    ("\"s\"", "checked"),
    ("(\"s\" : @(intrinsic(i64)))", "rejected"),
    ("(1, \"two\")", "checked"),
];

/// S2: `check_resolved` is called several times on one session with different programs.
fn schedule_check_resolved(order: &[usize], stats: &mut Stats) -> Result<(), Fail> {
    stats.eval();
    let session = CompilerSession::default();
    for (k, i) in order.iter().enumerate() {
        let (text, want) = SMALL[*i];
        let Some((spans, prim, arena, root)) = resolve_text(text) else { continue };
        let got = catch(|| outcome_kind(&session.check_resolved(spans, prim, arena, root)));
        let case = json!({"schedule": "check_resolved called repeatedly on one session", "programs": order.iter().map(|i| SMALL[*i].0).collect::<Vec<_>>(), "call": k});
        match got {
            | Err(p) => return Err(Fail::new(format!("check_resolved-{}", p.signature()), "a result", p.describe()).with(case)),
            | Ok(g) if g != want => {
                return Err(Fail::new(
                    "check_resolved-answers-for-another-program",
                    format!("`{text}` is {want}"),
                    format!("call #{k} returned {g} (the result of an earlier program)"),
                )
                .with(case));
            }
            | Ok(_) => {}
        }
    }
    stats.nontrivial(hash_of(&order));
    Ok(())
}

/* ------------------------------- stress ----------------------------------- */

struct Shared {
    session: CompilerSession,
    world: World,
    edits: u64,
}

fn stress(ctx: &Ctx, seed: u64, analysers: usize, millis: u64, stats: &mut Stats) -> Result<(), Fail> {
    let w0 = initial_world(ctx);
    let dir = setup_dir(ctx, "strsX", &w0);
    // every file of the universe is made known to the owner first: a session reads the disk lazily at
    // the first lookup of a path, so only files that already are inputs are isolated by revisions
    let mut session0 = CompilerSession::default();
    for name in FILES {
        let _ = session0.refresh_disk(dir.join(name));
    }
    let shared = Arc::new(Mutex::new(Shared { session: session0, world: w0, edits: 0 }));
    let stop = Arc::new(AtomicBool::new(false));
    let progress = Arc::new(AtomicU64::new(0));
    let failure: Arc<Mutex<Option<Fail>>> = Arc::new(Mutex::new(None));
    let memo: Arc<Mutex<HashMap<u64, String>>> = Arc::new(Mutex::new(HashMap::new()));
    let counters: Arc<Mutex<(u64, u64, u64, u64)>> = Arc::new(Mutex::new((0, 0, 0, 0))); // completed, cancelled, overtaken, ids
    let ids: Arc<Mutex<HashSet<(u64, u32)>>> = Arc::new(Mutex::new(HashSet::new()));
    std::thread::scope(|scope| {
        // owner
        {
            let (shared, stop, progress, failure, dir) = (shared.clone(), stop.clone(), progress.clone(), failure.clone(), dir.clone());
            let repo = ctx.repo_root.clone();
            scope.spawn(move || {
                let mut x = seed;
                while !stop.load(Ordering::Relaxed) {
                    x = mix(x, 11);
                    let f = (x >> 8) as usize % FILES.len();
                    let vs = variants(FILES[f], &repo);
                    let v = (x >> 20) as usize % vs.len();
                    let mut g = shared.lock().unwrap();
                    let path = dir.join(FILES[f]);
                    // no deletions here: path identities are computed through the file system at analysis
                    // time (canonicalize), which snapshots cannot isolate; deletions are covered by C15
                    let r = match (x >> 40) % 3 {
                        | 0 => {
                            g.world.overlay.insert(f, vs[v].clone());
                            catch(|| g.session.set_overlay(&path, vs[v].clone()).map_err(|e| format!("{e}")))
                        }
                        | 1 => {
                            g.world.overlay.remove(&f);
                            catch(|| g.session.clear_overlay(&path).map_err(|e| format!("{e}")))
                        }
                        | 2 => {
                            g.world.disk.insert(f, vs[v].clone());
                            std::fs::write(&path, &vs[v]).unwrap();
                            catch(|| g.session.refresh_disk(&path).map_err(|e| format!("{e}")))
                        }
                        | _ => {
                            g.world.disk.remove(&f);
                            let _ = std::fs::remove_file(&path);
                            catch(|| g.session.refresh_disk(&path).map_err(|e| format!("{e}")))
                        }
                    };
                    g.edits += 1;
                    drop(g);
                    match r {
                        | Ok(Ok(())) => {}
                        | Ok(Err(e)) => {
                            *failure.lock().unwrap() = Some(Fail::new("owner-edit-failed", "Ok", e));
                            stop.store(true, Ordering::Relaxed);
                        }
                        | Err(p) => {
                            *failure.lock().unwrap() = Some(Fail::new(format!("owner-edit-{}", p.signature()), "no panic", p.describe()));
                            stop.store(true, Ordering::Relaxed);
                        }
                    }
                    progress.fetch_add(1, Ordering::Relaxed);
                    std::thread::sleep(std::time::Duration::from_micros(200 + (x % 1500)));
                }
            });
        }
        // analysers
        for a in 0..analysers {
            let (shared, stop, progress, failure, memo, counters, dir) =
                (shared.clone(), stop.clone(), progress.clone(), failure.clone(), memo.clone(), counters.clone(), dir.clone());
            scope.spawn(move || {
                let mut x = mix(seed, 1000 + a as u64);
                while !stop.load(Ordering::Relaxed) {
                    x = mix(x, 7);
                    let root = (x >> 8) as usize % ROOTS.len();
                    let op = match (x >> 20) % 5 {
                        | 0 => Op::Graph(root),
                        | 1 => Op::Coverage(root),
                        | 2 => Op::Exec(2),
                        | _ => Op::Analyze(root),
                    };
                    // snapshot + the contents it sees, atomically with respect to owner edits
                    let (mut snap, world, edits_at) = {
                        let g = shared.lock().unwrap();
                        (g.session.snapshot(), g.world.clone(), g.edits)
                    };
                    let got = c15::answer(&mut snap, &dir, &op);
                    drop(snap);
                    let overtaken = shared.lock().unwrap().edits != edits_at;
                    progress.fetch_add(1, Ordering::Relaxed);
                    if got == "CANCELLED" {
                        counters.lock().unwrap().1 += 1;
                        continue;
                    }
                    {
                        let mut c = counters.lock().unwrap();
                        c.0 += 1;
                        if overtaken {
                            c.2 += 1;
                        }
                    }
                    let key = hash_of(&(format!("{:?}{:?}", world.disk, world.overlay), format!("{op:?}")));
                    let want = {
                        let cached = memo.lock().unwrap().get(&key).cloned();
                        match cached {
                            | Some(w) => w,
                            | None => {
                                let w = c15::fresh_answer(ctx, &world, &op);
                                memo.lock().unwrap().insert(key, w.clone());
                                w
                            }
                        }
                    };
                    if got != want {
                        *failure.lock().unwrap() = Some(
                            Fail::new(
                                if got.starts_with("PANIC") { "concurrent-analysis-panic".to_string() } else { "concurrent-analysis-inconsistent".to_string() },
                                format!("the sequential answer for the contents the snapshot saw: {}", want.chars().take(400).collect::<String>()),
                                format!("{}", got.chars().take(400).collect::<String>()),
                            )
                            .with(json!({"query": format!("{op:?}"), "overtaken_by_edit": overtaken, "disk": format!("{:?}", world.disk.keys().collect::<Vec<_>>()), "overlay": format!("{:?}", world.overlay.keys().collect::<Vec<_>>())})),
                        );
                        stop.store(true, Ordering::Relaxed);
                    }
                }
            });
        }
        // identifier allocators
        for _ in 0..2 {
            let (stop, ids, failure, counters) = (stop.clone(), ids.clone(), failure.clone(), counters.clone());
            scope.spawn(move || {
                use zydeco_surface::textual::syntax::{TermId, TextualScope};
                use zydeco_utils::arena::{ArenaId, IdAllocator};
                while !stop.load(Ordering::Relaxed) {
                    let mut local = vec![];
                    for _ in 0..50 {
                        let mut al = IdAllocator::<TextualScope>::new();
                        for _ in 0..4 {
                            let id: TermId = al.alloc();
                            local.push((id.key_space().as_u64(), id.raw().into_u32()));
                        }
                    }
                    let mut set = ids.lock().unwrap();
                    for k in local {
                        if !set.insert(k) {
                            *failure.lock().unwrap() = Some(Fail::new("identifier-collision", "pairwise distinct (key space, index) pairs", format!("{k:?} issued twice")));
                            stop.store(true, Ordering::Relaxed);
                        }
                    }
                    counters.lock().unwrap().3 += 200;
                    if set.len() > 400_000 {
                        set.clear();
                    }
                }
            });
        }
        // watchdog / timer
        let started = std::time::Instant::now();
        let mut last = 0u64;
        let mut last_change = std::time::Instant::now();
        while started.elapsed().as_millis() < millis as u128 && !stop.load(Ordering::Relaxed) {
            std::thread::sleep(std::time::Duration::from_millis(20));
            let p = progress.load(Ordering::Relaxed);
            if p != last {
                last = p;
                last_change = std::time::Instant::now();
            } else if last_change.elapsed().as_secs() > 60 {
                *failure.lock().unwrap() = Some(Fail::new("no-progress-60s", "progress", "no thread made progress for 60 s (reported as inconclusive)"));
                break;
            }
        }
        stop.store(true, Ordering::Relaxed);
    });
    let (completed, cancelled, overtaken, nids) = *counters.lock().unwrap();
    stats.add("stress:completed-analyses", completed);
    stats.add("stress:cancelled-analyses", cancelled);
    stats.add("stress:completed-although-overtaken-by-an-edit", overtaken);
    stats.add("stress:identifiers-issued", nids);
    stats.add("stress:owner-edits", shared.lock().unwrap().edits);
    stats.evaluations += completed + cancelled;
    for k in 0..overtaken.min(50) {
        stats.nontrivial(hash_of(&(seed, k)));
    }
    match failure.lock().unwrap().take() {
        | Some(f) if f.signature == "no-progress-60s" => {
            stats.inconclusive += 1;
            Ok(())
        }
        | Some(f) => Err(Fail { rendered: json!({"stress_seed": seed, "analysers": analysers, "detail": f.rendered}), ..f }),
        | None => Ok(()),
    }
}

pub fn run(ctx: &Ctx) -> Report {
    let mut report = Report::new(
        "(1) the sequential schedules concurrency degenerates to, enumerated: a snapshot first loads each file of each \
         root and the owner then overlays each variant of each file (decided exactly against a fresh session), and \
         `check_resolved` called 2–3 times on one session with every ordered selection of 5 small programs; (2) \
         randomised stress: an owner thread applying edits, k ∈ {2,4,8,14} analyser threads taking snapshot + model \
         contents under one mutex and querying outside it inside salsa::Cancelled::catch, 2 identifier-allocating \
         threads; oracle: each completed analysis equals the fresh-session answer for its recorded contents or is \
         Cancelled; all issued (key space, index) pairs distinct; non-trivial = a completed analysis overtaken by an \
         edit, or a degenerate schedule; 60 s without progress = inconclusive",
    );
    // (1a) snapshot-first-load schedules: all (file, variant, root)
    let mut items = vec![];
    for f in 0..FILES.len() {
        for v in 0..variants(FILES[f], &ctx.repo_root).len() {
            for r in 0..ROOTS.len() {
                items.push((f, v, r));
            }
        }
    }
    let r = run_items(ctx, "schedule-snapshot-first-load", items, |(f, v, r), stats| schedule_snapshot_first_load(ctx, *f, *v, *r, stats));
    report.absorb(r);
    // (1b) check_resolved orders
    let mut orders = vec![];
    for a in 0..SMALL.len() {
        for b in 0..SMALL.len() {
            orders.push(vec![a, b]);
            for c in 0..SMALL.len() {
                orders.push(vec![a, b, c]);
            }
        }
    }
    let r = run_items(ctx, "schedule-check-resolved", orders, |o, stats| schedule_check_resolved(o, stats));
    report.absorb(r);
    // (1c) concurrent first loads of a shared import, then an edit by the owner: run one trial at a time (each trial
    // owns its threads)
    let trials = ctx.tier.pick(120, 3_000);
    let mut cfl_stats = Stats::new();
    let mut cfl_violation = None;
    for trial in 0..trials {
        let threads = [2usize, 4, 4, 8][trial % 4];
        if let Err(fail) = schedule_concurrent_first_load(ctx, threads, trial, &mut cfl_stats) {
            cfl_violation = Some(Violation { fail, kind: "history".into(), tape: None, stage: "schedule-concurrent-first-load".into() });
            break;
        }
    }
    let r = (cfl_stats, cfl_violation);
    report.absorb(r);
    // (2) stress, one configuration at a time (each uses many threads itself)
    let seeds = ctx.tier.pick(10, 200);
    let millis = ctx.tier.pick(1500, 4000);
    let mut stats = Stats::new();
    let mut viol = None;
    for k in 0..seeds {
        let analysers = [2usize, 4, 8, 14][k % 4];
        match stress(ctx, mix(ctx.seed, k as u64), analysers, millis, &mut stats) {
            | Ok(()) => {}
            | Err(f) => {
                viol = Some(Violation { fail: f, kind: "stress".into(), tape: None, stage: "stress".into() });
                break;
            }
        }
    }
    stats.sample(|| json!({"stress": format!("{seeds} seeds × {millis} ms, analysers 2/4/8/14 + owner + 2 allocator threads")}));
    report.absorb((stats, viol));
    report.assume("this family cannot enumerate interleavings: the stress part is luck-driven; the degenerate sequential schedules are decided exactly");
    report.assume("liveness is only a watchdog (60 s without progress = inconclusive)");
    report.assume("in the stress part every file of the universe is an input before the first snapshot is taken (a session reads the disk lazily at the first lookup of a path; that moment is not fixed by the property)");
    report
}

pub fn replay(ctx: &Ctx, doc: &Value) -> Result<(), Fail> {
    if doc["stage"] == "schedule-concurrent-first-load" {
        let mut stats = Stats::new();
        for trial in 0..400 {
            schedule_concurrent_first_load(ctx, [2usize, 4, 4, 8][trial % 4], trial, &mut stats)?;
        }
        return Ok(());
    }
    let mut stats = Stats::new();
    match doc["stage"].as_str().unwrap_or("") {
        | "schedule-check-resolved" => {
            let progs: Vec<String> = doc["rendered"]["programs"].as_array().cloned().unwrap_or_default().iter().map(|v| v.as_str().unwrap_or("").to_string()).collect();
            let order: Vec<usize> = progs.iter().filter_map(|p| SMALL.iter().position(|(t, _)| t == p)).collect();
            schedule_check_resolved(&order, &mut stats)
        }
        | "schedule-snapshot-first-load" => {
            let f = FILES.iter().position(|n| Some(*n) == doc["rendered"]["file"].as_str()).unwrap_or(1);
            let v = doc["rendered"]["variant"].as_u64().unwrap_or(0) as usize;
            let r = ROOTS.iter().position(|n| Some(*n) == doc["rendered"]["root"].as_str()).unwrap_or(0);
            schedule_snapshot_first_load(ctx, f, v, r, &mut stats)
        }
        | _ => {
            let seed = doc["rendered"]["stress_seed"].as_u64().unwrap_or(1);
            let analysers = doc["rendered"]["analysers"].as_u64().unwrap_or(4) as usize;
            for _ in 0..5 {
                stress(ctx, seed, analysers, 3000, &mut stats)?;
            }
            Ok(())
        }
    }
}
