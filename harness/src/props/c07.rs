//! C07 — lexical scoping and import hygiene: bound names can be renamed freely.

use crate::core::eval::REnd;
use crate::core::generate::Cfg;
use crate::core::harness as h;
use crate::core::naming::{self, Strategy};
use crate::core::print::{self, Style};
use crate::drive::{self, Analyzed, RunEnd, Verdict};
use crate::engine::*;
use serde_json::{Value, json};
use zydeco_session::CompilerSession;

pub fn check_case(ctx: &Ctx, tape: &[u8], cfg: &Cfg, stats: &mut Stats) -> Result<(), Fail> {
    let g = h::generate(tape, cfg);
    let reference = h::reference_run(&g.prog, &g.stdin, 300_000);
    if matches!(reference.end, REnd::OutOfFuel | REnd::Undetermined(_) | REnd::Stuck(_)) {
        stats.inconclusive += 1;
        return Ok(());
    }
    let dir = thread_dir(ctx);
    let mut baseline: Option<(bool, Vec<u8>, String)> = None;
    for strategy in [Strategy::Unique, Strategy::Shadow, Strategy::Primes, Strategy::Keywordish] {
        let mut st = Tape::new(if tape.len() > 16 { &tape[tape.len() - 16..] } else { tape });
        let (names, shadowing) = naming::names_for(&g.prog, strategy, &mut st);
        let text = print::print_program(&ctx.repo_root, &g.prog, &names, &Style::default());
        stats.eval();
        let (_s, analyzed) = h::write_and_analyze(&dir, &text);
        let case = |extra: Value| h::render_case(&text, &g.stdin, json!({"naming": format!("{strategy:?}"), "info": extra}));
        let observed = match analyzed {
            | Analyzed::Panic(p) => return Err(Fail::new(format!("analysis-{}", p.signature()), "analysis to return", p.describe()).with(case(json!({})))),
            | Analyzed::Executable(exe, _) => {
                let run = h::interp_run(exe, &g.stdin, 3_000_000);
                if matches!(run.end, RunEnd::OutOfFuel) {
                    stats.inconclusive += 1;
                    return Ok(());
                }
                (true, run.stdout, format!("{:?}", run.end))
            }
            | Analyzed::NotAccepted(front) => (false, vec![], format!("rejected: {:?}", front.kinds.iter().take(2).collect::<Vec<_>>())),
            | Analyzed::AcceptedOther(_, why) => (false, vec![], why),
        };
        match &baseline {
            | None => {
                if !observed.0 {
                    // rejected under unique names: completeness is C03's subject
                    stats.count("discarded:rejected-under-unique-names");
                    return Ok(());
                }
                let agree = h::ends_agree(&reference.end, &match observed.2.as_str() { _ => drive_end(&observed.2) }) ;
                let _ = agree;
                baseline = Some(observed);
            }
            | Some(base) => {
                if base.0 != observed.0 {
                    return Err(Fail::new(
                        "renaming-changes-acceptance",
                        "the same accept verdict as under unique names (accepted)",
                        observed.2.clone(),
                    )
                    .with(case(json!({"shadowing_binders": shadowing}))));
                }
                if base.1 != observed.1 || base.2 != observed.2 {
                    return Err(Fail::new(
                        "renaming-changes-behaviour",
                        format!("unique names: {} stdout={:?}", base.2, String::from_utf8_lossy(&base.1)),
                        format!("{strategy:?}: {} stdout={:?}", observed.2, String::from_utf8_lossy(&observed.1)),
                    )
                    .with(case(json!({"shadowing_binders": shadowing}))));
                }
                stats.count(&format!("agree:{strategy:?}"));
                if strategy == Strategy::Shadow && shadowing >= 1 {
                    stats.add("shadowing-binders-that-are-used", shadowing as u64);
                    stats.nontrivial(hash_of(&text));
                    stats.sample(|| json!({"naming": "Shadow", "shadowing_binders": shadowing, "source": text[text.find("begin\n").unwrap_or(0)..].chars().take(900).collect::<String>()}));
                }
            }
        }
    }
    // token-level renaming: binders take names found outside their scope (type names of their own annotation,
    // package names, other binders' names)
    if let Some(base) = &baseline {
        let names = print::Names::unique(&g.prog);
        let style = Style::default();
        let mut pr = print::Printer::new(&g.prog, &names, &style);
        pr.scopes = true;
        pr.program();
        let mut st = Tape::new(if tape.len() > 24 { &tape[tape.len() - 24..] } else { tape });
        let (renamed, own_site) = naming::rename_tokens(&mut pr.out, &names.binder, &mut st, 8);
        if renamed > 0 {
            let text = format!("{}{}", print::prelude(&ctx.repo_root), print::join(&pr.out));
            stats.eval();
            let (_s, analyzed) = h::write_and_analyze(&dir, &text);
            let case = |extra: Value| h::render_case(&text, &g.stdin, json!({"naming": "token-level", "binders_renamed": renamed, "named_after_own_binding_site": own_site, "info": extra}));
            let observed = match analyzed {
                | Analyzed::Panic(p) => return Err(Fail::new(format!("analysis-{}", p.signature()), "analysis to return", p.describe()).with(case(json!({})))),
                | Analyzed::Executable(exe, _) => {
                    let run = h::interp_run(exe, &g.stdin, 3_000_000);
                    if matches!(run.end, RunEnd::OutOfFuel) {
                        stats.inconclusive += 1;
                        return Ok(());
                    }
                    (true, run.stdout, format!("{:?}", run.end))
                }
                | Analyzed::NotAccepted(front) => (false, vec![], format!("rejected: {:?}", front.kinds.iter().take(2).collect::<Vec<_>>())),
                | Analyzed::AcceptedOther(_, why) => (false, vec![], why),
            };
            if base.0 != observed.0 {
                return Err(Fail::new("renaming-changes-acceptance", "the same accept verdict as under unique names (accepted)", observed.2.clone()).with(case(json!({}))));
            }
            if base.1 != observed.1 || base.2 != observed.2 {
                return Err(Fail::new(
                    "renaming-changes-behaviour",
                    format!("unique names: {} stdout={:?}", base.2, String::from_utf8_lossy(&base.1)),
                    format!("token-level renaming: {} stdout={:?}", observed.2, String::from_utf8_lossy(&observed.1)),
                )
                .with(case(json!({}))));
            }
            stats.count("agree:TokenLevel");
            stats.add("token-level:binders-renamed", renamed as u64);
            stats.add("token-level:named-after-own-binding-site", own_site as u64);
            if own_site > 0 {
                stats.nontrivial(hash_of(&text));
            }
        }
    }
    // and the common behaviour is the reference behaviour
    if let Some(base) = baseline {
        let ref_desc = match &reference.end {
            | REnd::Exit(c) => format!("Exit({c})"),
            | REnd::Trap => "Trap".to_string(),
            | other => format!("{other:?}"),
        };
        let same_end = base.2.starts_with(&ref_desc) || (ref_desc == "Trap" && base.2.starts_with("Trap"));
        if !same_end || base.1 != reference.stdout {
            return Err(Fail::new(
                "behaviour-differs-from-reference",
                format!("reference: {ref_desc} stdout={:?}", String::from_utf8_lossy(&reference.stdout)),
                format!("all namings: {} stdout={:?}", base.2, String::from_utf8_lossy(&base.1)),
            )
            .with(json!({"source": h::default_print(&ctx.repo_root, &g.prog)})));
        }
    }
    Ok(())
}

fn drive_end(_s: &str) -> RunEnd {
    RunEnd::OutOfFuel
}

/* ------------------------------ capture probes ---------------------------- */

/// Importer binder forms around a hole `□` where the import is placed; every form binds `v`.
const BINDER_FORMS: &[&str] = &[
    "let v = 1 in □",
    "do v <- ret 1 ; □",
    "( ( fn ( v : Int64 ) => □ ) : Int64 -> Ret Int64 ) 1",
    "match ( +S ( 1 ) : Box ) | +S ( v ) => □ end",
    "( ( comatch | .run v => □ end ) : Runner ) .run 1",
    "( ( fix ( v : Thk ( Ret Int64 ) ) => □ ) : Ret Int64 )",
    "let ( v , w ) = ( 1 , 2 ) in □",
    "let ( v ; w ) = 1 in □",
    "begin let v = 1 that □ end",
    "begin def v : Int64 = 1 that □ end",
    "( ( begin param ( v : Int64 ) that □ end ) : Int64 -> Ret Int64 ) 1",
    "let ! v : Ret Int64 = ret 1 in □",
];

fn probe_prelude() -> &'static str {
    "let Int64 = @(intrinsic(i64)) in\nlet Ret = @(intrinsic(ret)) in\nlet Thk = @(intrinsic(thk)) in\nlet VType = @(intrinsic(vtype)) in\nlet CType = @(intrinsic(ctype)) in\nlet Box : VType = data | +S : Int64 end in\nlet Runner : CType = codata | .run : Int64 -> Ret Int64 end in\n"
}

fn check_probe(ctx: &Ctx, form_ids: &[usize], via: usize, stats: &mut Stats) -> Result<(), Fail> {
    stats.eval();
    let dir = thread_dir(ctx).join("probe");
    let _ = std::fs::remove_dir_all(&dir);
    std::fs::create_dir_all(&dir).unwrap();
    let dir = dir.canonicalize().unwrap();
    // provider: a computation whose body mentions the free name `v`
    std::fs::write(dir.join("provider.zy"), "ret v\n").unwrap();
    let import = match via {
        | 0 => "@(import(\"provider.zy\"))".to_string(),
        | 1 => {
            std::fs::write(dir.join("middle.zy"), "@(import(\"provider.zy\"))\n").unwrap();
            "@(import(\"middle.zy\"))".to_string()
        }
        | 2 => {
            // companion signature next to the provider
            std::fs::write(dir.join("provider.zyi"), "(@(intrinsic(ret))) (@(intrinsic(i64)))\n").unwrap();
            "@(import(\"provider.zy\"))".to_string()
        }
        | _ => "@[import(\"./provider.zy\")] _".to_string(),
    };
    let mut body = import;
    for f in form_ids.iter().rev() {
        body = BINDER_FORMS[*f].replace('□', &format!("( {body} )"));
    }
    let text = format!("{}( {body} : Ret Int64 )\n", probe_prelude());
    std::fs::write(dir.join("root.zy"), &text).unwrap();
    let session = CompilerSession::default();
    let result = catch(|| {
        let r = session.analyze(dir.join("root.zy"));
        drive::summarize(&session, &r)
    });
    let via_name = ["direct", "intermediate file", "companion signature", "bracket form with ./"][via];
    let case = json!({"root": text, "provider.zy": "ret v", "import_via": via_name});
    match result {
        | Err(p) => Err(Fail::new(format!("probe-{}", p.signature()), "a resolve error", p.describe()).with(case)),
        | Ok(front) => {
            let plain = drive::strip_ansi(&front.rendered);
            let unbound = matches!(&front.verdict, Verdict::Error(p) if p == "resolve") && plain.contains("Unbound variable");
            if !unbound {
                return Err(Fail::new(
                    "free-name-of-import-captured",
                    "an unbound-variable error for `v` (a free name of an imported source is never captured by the importer)",
                    format!("{:?} {:?}", front.verdict, front.kinds.iter().take(2).collect::<Vec<_>>()),
                )
                .with(case));
            }
            // located in the provider
            let in_provider = plain.lines().any(|l| l.contains("provider.zy:"));
            if !in_provider {
                return Err(Fail::new("unbound-error-not-in-provider", "the error is located in provider.zy", plain.lines().take(4).collect::<Vec<_>>().join(" | ")).with(case));
            }
            stats.nontrivial(hash_of(&(form_ids, via)));
            stats.sample(|| case.clone());
            Ok(())
        }
    }
}

/// Binder forms with an annotation; `§` is the binder's name.  Naming the binder after a name that occurs in
/// its *own* annotation is a capture-free renaming: a binder does not scope over its annotation.
const SELF_ANNOTATION_FORMS: &[(&str, &[&str])] = &[
    ("( ( fn ( § : Int64 ) => ret § ) : Int64 -> Ret Int64 ) 41", &["Int64"]),
    // (an earlier parameter does scope over the annotations of later ones, so only the last one qualifies)
    ("( ( fn ( w : Int64 ) ( § : Int64 ) => ret § ) : Int64 -> Int64 -> Ret Int64 ) 1 41", &["Int64"]),
    ("let ( § : Int64 ) = 41 in ret §", &["Int64"]),
    ("let § : Int64 = 41 in ret §", &["Int64"]),
    ("let ( ( w : String ) , ( § : Int64 ) ) = ( \"s\" , 41 ) in ret §", &["Int64", "String"]),
    ("let ( ( § : Int64 ) , ( w : String ) ) = ( 41 , \"s\" ) in ret §", &["Int64"]),
    ("do ( § : Int64 ) <- ret 41 ; ret §", &["Int64"]),
    ("( ( comatch | ( § : Int64 ) => ret § end ) : Int64 -> Ret Int64 ) 41", &["Int64"]),
    ("let ! § : Ret Int64 = ret 41 in ! §", &["Ret", "Int64"]),
    ("( ( fix ( § : Thk ( Ret Int64 ) ) => ret 41 ) : Ret Int64 )", &["Thk", "Ret", "Int64"]),
    ("let § : Thk ( Int64 -> Ret Int64 ) = { fn ( w : Int64 ) => ret w } in ! § 41", &["Thk", "Ret", "Int64"]),
    ("( ( fn ( § : Thk ( Ret Int64 ) ) => ! § ) : Thk ( Ret Int64 ) -> Ret Int64 ) { ret 41 }", &["Thk", "Ret", "Int64"]),
];

fn run_exit(ctx: &Ctx, text: &str) -> Result<String, PanicInfo> {
    let dir = thread_dir(ctx);
    let path = dir.join("probe.zy");
    std::fs::write(&path, text).unwrap();
    let session = CompilerSession::default();
    Ok(match drive::analyze_executable(&session, &path) {
        | Analyzed::Panic(p) => return Err(p),
        | Analyzed::Executable(exe, _) => format!("accepted, {:?}", drive::run_executable(exe, b"", &[], 200_000).end),
        | Analyzed::NotAccepted(front) => format!("rejected: {:?}", front.kinds.iter().take(2).collect::<Vec<_>>()),
        | Analyzed::AcceptedOther(_, why) => format!("not executable: {why}"),
    })
}

fn check_self_annotation(ctx: &Ctx, form: &str, name: &str, stats: &mut Stats) -> Result<(), Fail> {
    let pre = print::prelude(&ctx.repo_root);
    let wrap = |n: &str| format!("{pre}( do r <- ( {} ) ; ! ( process / exit ) r : OS )\n", form.replace('§', n));
    stats.eval();
    let base = run_exit(ctx, &wrap("fresh0")).map_err(|p| Fail::new(format!("probe-{}", p.signature()), "a verdict", p.describe()))?;
    let renamed = run_exit(ctx, &wrap(name)).map_err(|p| Fail::new(format!("probe-{}", p.signature()), "a verdict", p.describe()))?;
    let case = json!({"form": form, "binder_named": name});
    if !base.starts_with("accepted, Exit(41)") {
        return Err(Fail::new("harness-probe-not-accepted-under-a-fresh-name", "accepted, Exit(41)", base).with(case));
    }
    if renamed != base {
        return Err(Fail::new(
            "binder-scopes-over-its-own-annotation",
            format!("as with a fresh binder name: {base} (a binder named like a name in its own annotation captures nothing)"),
            renamed,
        )
        .with(case));
    }
    stats.nontrivial(hash_of(&(form, name)));
    stats.sample(|| case.clone());
    Ok(())
}

/// A `that` binder that reuses an enclosing binder's name wins inside its block, whatever the sizes of the
/// block and of the inherited environment: `extra` further definitions in the block; the block sits under a
/// function parameter in the root (large inherited environment), under `outer` extra lexical binders, or in
/// an imported source (empty inherited environment).
fn check_block_shadow(ctx: &Ctx, extra: usize, outer: usize, imported: bool, stats: &mut Stats) -> Result<(), Fail> {
    stats.eval();
    let dir = thread_dir(ctx).join("bs");
    let _ = std::fs::remove_dir_all(&dir);
    std::fs::create_dir_all(&dir).unwrap();
    let mut block = String::from("begin let given = 42 that");
    for i in 0..extra {
        block.push_str(&format!(" let a{i} = {i} that"));
    }
    block.push_str(" ret given end");
    let mut inner = block;
    for i in 0..outer {
        inner = format!("let o{i} = {i} in {inner}");
    }
    let text = if imported {
        std::fs::write(dir.join("helper.zy"), format!("fn ( given : ( @(intrinsic(i64)) ) ) => {inner}\n")).unwrap();
        format!("{}( do r <- ! {{ @(import(\"helper.zy\")) }} 7 ; ! ( process / exit ) r : OS )\n", print::prelude(&ctx.repo_root))
    } else {
        format!("{}( do r <- ( ( fn ( given : Int64 ) => {inner} ) : Int64 -> Ret Int64 ) 7 ; ! ( process / exit ) r : OS )\n", print::prelude(&ctx.repo_root))
    };
    let path = dir.join("root.zy");
    std::fs::write(&path, &text).unwrap();
    let session = CompilerSession::default();
    let case = json!({"block_definitions": extra + 1, "outer_lexical_binders": outer + 1, "imported": imported});
    let got = match drive::analyze_executable(&session, &path) {
        | Analyzed::Panic(p) => return Err(Fail::new(format!("probe-{}", p.signature()), "a verdict", p.describe()).with(case)),
        | Analyzed::Executable(exe, _) => format!("accepted, {:?}", drive::run_executable(exe, b"", &[], 400_000).end),
        | Analyzed::NotAccepted(front) => format!("rejected: {:?}", front.kinds.iter().take(2).collect::<Vec<_>>()),
        | Analyzed::AcceptedOther(_, why) => format!("not executable: {why}"),
    };
    if got != "accepted, Exit(42)" {
        return Err(Fail::new("block-definition-does-not-shadow-the-enclosing-binder", "accepted, Exit(42): the block's `let given = 42 that` shadows the parameter `given` (7)", got).with(case));
    }
    stats.nontrivial(hash_of(&(extra, outer, imported)));
    Ok(())
}

/// `that` bindings do not cross block boundaries outward.
const THAT_PROBES: &[(&str, bool)] = &[
    // (body, must be unbound?)
    ("begin ( do x <- ( begin let v = 1 that ret v end ) ; ret v ) end", true),
    ("begin let v = 1 that ( do x <- ( begin ret v end ) ; ret x ) end", false),
    ("( do x <- ( begin let v = 1 that ret v end ) ; ret x )", false),
    ("begin ( do x <- ret v ; ret x ) end", true),
    ("begin ( do x <- ret v ; let v = 2 that ret x ) end", false),
    ("begin let w = v that let v = 1 that ret w end", false),
];

pub fn run(ctx: &Ctx) -> Report {
    let mut report = Report::new(
        "(a) generated core programs printed under four naming strategies — unique, shadow (a spec resolver reuses a \
         3-name pool wherever the scoping rules make the reuse capture-free, across let/do/fn/arms/clauses/fix/\
         pattern components), primes (`x'` `go?` `a-b` `_u`), keywordish (`inx` `lets` `end'`) — must agree on \
         acceptance and (stdout, exit) and equal the reference machine; (b) capture probes: a provider with the free \
         name `v` imported under 12 importer binder forms that bind `v`, nested to depth 1–3, imported directly / \
         through an intermediate file / with a companion signature / with the bracket spelling, must fail with an \
         unbound-variable error located in the provider; (c) `that` bindings across block boundaries; (d) annotated binder forms whose binder is named after a name in its own annotation (capture-free: same verdict and exit code as with a fresh name); (e) a `that` definition shadowing an enclosing parameter for block sizes 1–201 × 1–41 enclosing binders × root / imported source; non-trivial = \
         shadow printing in which a binder that is used shadows an outer binder, every probe",
    );
    let cfg = ctx.tier.pick(Cfg::quick(), Cfg::thorough());
    let cases = ctx.tier.pick(2_400, 30_000);
    let r = run_tapes(ctx, "renaming", cases, 700, |tape, stats| check_case(ctx, tape, &cfg, stats));
    report.absorb(r);
    // probes: depth 1 all forms × via; depth 2 all pairs (direct); depth 3 sampled
    let mut probes: Vec<(Vec<usize>, usize)> = vec![];
    for f in 0..BINDER_FORMS.len() {
        for via in 0..4 {
            probes.push((vec![f], via));
        }
    }
    for f in 0..BINDER_FORMS.len() {
        for g in 0..BINDER_FORMS.len() {
            probes.push((vec![f, g], (f + g) % 4));
        }
    }
    let depth3 = ctx.tier.pick(60, 1728);
    for k in 0..depth3 {
        let x = mix(ctx.seed, k as u64);
        probes.push((vec![(x % 12) as usize, ((x >> 8) % 12) as usize, ((x >> 16) % 12) as usize], ((x >> 24) % 4) as usize));
    }
    let r = run_items(ctx, "capture-probes", probes, |(forms, via), stats| check_probe(ctx, forms, *via, stats));
    report.absorb(r);
    let that_items: Vec<(String, bool)> = THAT_PROBES.iter().map(|(b, u)| (b.to_string(), *u)).collect();
    let r = run_items(ctx, "that-boundaries", that_items, |(body, must_be_unbound), stats| {
        stats.eval();
        let dir = thread_dir(ctx);
        let text = format!("{}( {body} : Ret Int64 )\n", probe_prelude());
        std::fs::write(dir.join("that.zy"), &text).unwrap();
        let session = CompilerSession::default();
        let front = catch(|| {
            let r = session.analyze(dir.join("that.zy"));
            drive::summarize(&session, &r)
        })
        .map_err(|p| Fail::new(format!("that-{}", p.signature()), "a verdict", p.describe()))?;
        let unbound = matches!(&front.verdict, Verdict::Error(p) if p == "resolve");
        if unbound != *must_be_unbound {
            return Err(Fail::new(
                "that-binding-scope",
                if *must_be_unbound { "an unbound-variable error: a `that` binding is visible only inside its nearest block".to_string() } else { "resolution succeeds: the name is contributed to an enclosing block".to_string() },
                format!("{:?} {:?}", front.verdict, front.kinds.first()),
            )
            .with(json!({"body": body})));
        }
        stats.nontrivial(hash_of(body));
        Ok(())
    });
    report.absorb(r);
    let mut items: Vec<(String, String)> = vec![];
    for (form, names) in SELF_ANNOTATION_FORMS {
        for n in names.iter() {
            items.push((form.to_string(), n.to_string()));
        }
    }
    let r = run_items(ctx, "self-annotation", items, |(form, name), stats| check_self_annotation(ctx, form, name, stats));
    report.absorb(r);
    let mut items: Vec<(usize, usize, bool)> = vec![];
    for extra in [0usize, 1, 2, 5, 13, 30, 80, 200] {
        for outer in [0usize, 3, 40] {
            for imported in [false, true] {
                items.push((extra, outer, imported));
            }
        }
    }
    let r = run_items(ctx, "block-shadowing", items, |(extra, outer, imported), stats| check_block_shadow(ctx, *extra, *outer, *imported, stats));
    report.absorb(r);
    report.assume("the spec resolver (core/naming.rs) implements Appendix A.2: a bindee is outside its binder's scope, arms and clauses have separate scopes, components of one pattern are siblings");
    report
}

pub fn replay(ctx: &Ctx, doc: &Value) -> Result<(), Fail> {
    let mut stats = Stats::new();
    if doc["stage"] == "renaming" {
        let tape = unhex(doc["tape_hex"].as_str().unwrap_or(""));
        check_case(ctx, &tape, &Cfg::quick(), &mut stats)?;
        return check_case(ctx, &tape, &Cfg::thorough(), &mut stats);
    }
    if doc["stage"] == "self-annotation" {
        for (form, names) in SELF_ANNOTATION_FORMS {
            for n in names.iter() {
                check_self_annotation(ctx, form, n, &mut stats)?;
            }
        }
        return Ok(());
    }
    if doc["stage"] == "block-shadowing" {
        for extra in [0usize, 1, 2, 5, 13, 30, 80, 200] {
            for outer in [0usize, 3, 40] {
                for imported in [false, true] {
                    check_block_shadow(ctx, extra, outer, imported, &mut stats)?;
                }
            }
        }
        return Ok(());
    }
    // probes are a fixed, small set: re-run them all
    for f in 0..BINDER_FORMS.len() {
        for via in 0..4 {
            check_probe(ctx, &[f], via, &mut stats)?;
        }
        for g in 0..BINDER_FORMS.len() {
            check_probe(ctx, &[f, g], (f + g) % 4, &mut stats)?;
        }
    }
    Ok(())
}
