//! C01 — type safety: accepted programs never go wrong in the interpreter.

use crate::core::generate::Cfg;
use crate::core::harness as h;
use crate::core::print::{self, Names};
use crate::drive::{self, Analyzed, RunEnd};
use crate::engine::*;
use crate::props::c02::style_from;
use crate::props::c10::{mutate_same_kind, mutate_tokens};
use serde_json::{Value, json};
use std::path::Path;
use zydeco_session::CompilerSession;

/// Standard-input contents every accepted program is run on.
pub fn stdin_variants(extra: &[u8]) -> Vec<Vec<u8>> {
    let mut long = vec![b'x'; 70_000];
    long.push(b'\n');
    vec![
        vec![],
        b"hello\nworld\n".to_vec(),
        b"42\n-7\n9223372036854775807\n9223372036854775808\n".to_vec(),
        long,
        vec![0xff, 0xfe, b'\n', 0xc3, 0x28, b'\n'],
        extra.to_vec(),
    ]
}

/// Run an accepted executable (re-materialised per input) and classify how it ends.
pub fn run_all_inputs(
    session: &CompilerSession, root: &Path, extra_stdin: &[u8], fuel: u64, stats: &mut Stats,
    case: &dyn Fn(Value) -> Value,
) -> Result<u64, Fail> {
    let mut max_steps = 0;
    for (i, stdin) in stdin_variants(extra_stdin).iter().enumerate() {
        let exe = match drive::analyze_executable(session, root) {
            | Analyzed::Executable(exe, _) => exe,
            | _ => return Ok(max_steps),
        };
        let args: Vec<String> = if i % 2 == 0 { vec![] } else { vec!["first".into(), "--flag".into(), "ünï".into()] };
        let run = drive::run_executable(exe, stdin, &args, fuel);
        max_steps = max_steps.max(run.steps);
        stats.eval();
        match &run.end {
            | RunEnd::Stuck { msg, file, line } => {
                let short: String = msg.chars().take(48).collect();
                return Err(Fail::new(
                    format!("stuck[{short}]@{}", file.rsplit("/repo/").next().unwrap_or(file)),
                    "progress, exit code, returned value, host I/O, or the division trap",
                    format!("interpreter went wrong: `{msg}` at {file}:{line} after {} steps", run.steps),
                )
                .with(case(json!({"stdin_variant": i, "args": args,
                                  "stdout_so_far": String::from_utf8_lossy(&run.stdout).chars().take(400).collect::<String>()}))));
            }
            | RunEnd::Exit(_) => stats.count("end:exit"),
            | RunEnd::Ret(_) => stats.count("end:ret"),
            | RunEnd::Trap(_) => stats.count("end:division-trap"),
            | RunEnd::HostIo(_) => stats.count("end:host-io-failure"),
            | RunEnd::OutOfFuel => stats.count("end:fuel-bound"),
            | RunEnd::LinkError(_) => stats.count("end:rejected-at-link"),
        }
    }
    Ok(max_steps)
}

pub fn check_generated(ctx: &Ctx, tape: &[u8], cfg: &Cfg, stats: &mut Stats) -> Result<(), Fail> {
    let g = h::generate(tape, cfg);
    let names = Names::unique(&g.prog);
    let mut st = Tape::new(if tape.len() > 8 { &tape[tape.len() - 8..] } else { tape });
    let style = style_from(&mut st);
    let text = print::print_program(&ctx.repo_root, &g.prog, &names, &style);
    let dir = thread_dir(ctx);
    let path = dir.join("case.zy");
    std::fs::write(&path, &text).expect("write case");
    let session = CompilerSession::default();
    let case = |extra: Value| json!({"source": text, "info": extra});
    match drive::analyze_executable(&session, &path) {
        | Analyzed::Executable(..) => {
            let steps = run_all_inputs(&session, &path, &g.stdin, 200_000, stats, &case)?;
            stats.count("generated:accepted");
            if steps >= 20 {
                stats.nontrivial(hash_of(&text));
            }
            stats.sample(|| json!({"stream": "generated", "source": text[text.find("begin\n").unwrap_or(0)..].to_string()}));
        }
        | Analyzed::Panic(p) => {
            return Err(Fail::new(format!("analysis-{}", p.signature()), "analysis to return", p.describe())
                .with(case(json!({}))));
        }
        | _ => stats.count("generated:not-accepted(discarded)"),
    }
    Ok(())
}

pub fn check_corpus(
    corpus: &[(std::path::PathBuf, String)], tape: &[u8], stats: &mut Stats,
) -> Result<(), Fail> {
    let mut t = Tape::new(tape);
    let (path, text) = &corpus[t.below(corpus.len())];
    let n_mut = t.below(3);
    let mut cur = text.clone();
    let mut descr = vec![];
    for _ in 0..n_mut {
        let (next, d) = if t.chance(190) { mutate_same_kind(&mut t, &cur) } else { mutate_tokens(&mut t, &cur) };
        cur = next;
        descr.push(d);
    }
    let mut session = CompilerSession::default();
    if n_mut > 0 {
        session.set_overlay(path, cur.clone()).ok();
    }
    let case = |extra: Value| json!({"base": path, "mutations": descr, "text": cur, "info": extra});
    match drive::analyze_executable(&session, path) {
        | Analyzed::Executable(..) => {
            let steps = run_all_inputs(&session, path, b"1\n2\n3\n", 50_000, stats, &case)?;
            stats.count(if n_mut == 0 { "corpus:accepted" } else { "corpus-mutant:still-accepted" });
            if steps >= 20 && (n_mut == 0 || cur != *text) {
                stats.nontrivial(hash_of(&cur));
            }
            if n_mut > 0 {
                stats.sample(|| json!({"stream": "corpus-mutant", "base": path, "mutations": descr}));
            }
        }
        | Analyzed::Panic(_) => stats.count("corpus:analysis-panic(C10)"),
        | _ => stats.count(if n_mut == 0 { "corpus:not-executable" } else { "corpus-mutant:rejected" }),
    }
    Ok(())
}

/// Pattern stream: rows (exhaustive or not) over catalogue / random data types, as a `match`, comatch
/// argument patterns, or a `fn` / `let` / `do` binder, applied to every enumerated value of the type.
/// Filtered by the implementation's own verdict: whatever is accepted must run without going wrong.
pub fn check_patterns(ctx: &Ctx, tape: &[u8], stats: &mut Stats) -> Result<(), Fail> {
    use crate::props::c04;
    let (w, types) = c04::catalogue();
    let (tname, ty, rows, form) = c04::random_case(&w, &types, tape);
    if rows.is_empty() {
        return Ok(());
    }
    let depth = 3;
    let mut values = w.values(&ty, depth, 2000);
    if values.len() > 40 {
        let step = values.len() as f64 / 40.0;
        values = (0..40).map(|i| values[(i as f64 * step) as usize].clone()).collect();
    }
    if values.is_empty() {
        return Ok(());
    }
    let (text, _) = c04::run_program_text(ctx, &w, &ty, &rows, form, &values);
    let path = thread_dir(ctx).join("pat.zy");
    std::fs::write(&path, &text).expect("write case");
    let session = CompilerSession::default();
    let case = |extra: Value| json!({"type": tname, "form": format!("{form:?}"), "source": text[text.find("begin\n").unwrap_or(0)..].to_string(), "info": extra});
    match drive::analyze_executable(&session, &path) {
        | Analyzed::Executable(exe, _) => {
            stats.eval();
            let run = drive::run_executable(exe, b"", &[], 400_000);
            if let RunEnd::Stuck { msg, file, line } = &run.end {
                let short: String = msg.chars().take(48).collect();
                return Err(Fail::new(
                    format!("stuck[{short}]@{}", file.rsplit("/repo/").next().unwrap_or(file)),
                    "progress, exit code, returned value, host I/O, or the division trap",
                    format!("interpreter went wrong: `{msg}` at {file}:{line} after {} steps", run.steps),
                )
                .with(case(json!({"stdout_so_far": String::from_utf8_lossy(&run.stdout).chars().take(200).collect::<String>()}))));
            }
            stats.count(&format!("patterns:accepted-and-ran:{form:?}"));
            stats.nontrivial(hash_of(&text));
        }
        | Analyzed::Panic(p) => {
            return Err(Fail::new(format!("analysis-{}", p.signature()), "analysis to return", p.describe()).with(case(json!({}))));
        }
        | _ => stats.count(&format!("patterns:not-accepted(discarded):{form:?}")),
    }
    Ok(())
}

/// Hand-written programs for accepted-but-goes-wrong shapes seen before (term holes, refutable binders at the
/// value level, projection from a product whose last component is a record).
const PROBES: &[(&str, &str)] = &[
    ("term hole in a value", "( let code : Int64 = _ in ! ( process / exit ) code : OS )"),
    ("term hole in a computation", "( do code <- ( _ : Ret Int64 ) ; ! ( process / exit ) code : OS )"),
    ("refutable parameter of a pure function", "begin let B : VType = data | +F : Unit | +T : Unit end that ( let code : B -> Int64 = fn ( +T ( _ ) : B ) => 0 in ! ( process / exit ) ( code +F ( ) ) : OS ) end"),
    ("refutable value-level let", "begin let B : VType = data | +F : Unit | +T : Unit end that ( let code : Int64 = ( let +T ( _ ) = ( +F ( ) : B ) in 5 ) in ! ( process / exit ) code : OS ) end"),
    ("refutable let binder", "begin let B : VType = data | +F : Unit | +T : Unit end that ( let +T ( _ ) : B = +F ( ) in ! ( process / exit ) 1 : OS ) end"),
    ("refutable do binder", "begin let B : VType = data | +F : Unit | +T : Unit end that ( do +T ( _ ) <- ( ret +F ( ) : Ret B ) ; ! ( process / exit ) 1 : OS ) end"),
    ("projection from a record in last position", "( let r : ( a :: Int64 ) * ( p :: ( x :: Int64 ) * ( y :: Int64 ) ) = ( a = 1 , p = ( x = 2 , y = 3 ) ) in ! ( process / exit ) ( r / y ) : OS )"),
];

fn check_probe(ctx: &Ctx, name: &str, body: &str, stats: &mut Stats) -> Result<(), Fail> {
    let text = format!("{}{body}\n", print::prelude(&ctx.repo_root));
    let path = thread_dir(ctx).join("probe.zy");
    std::fs::write(&path, &text).expect("write case");
    let session = CompilerSession::default();
    stats.eval();
    match drive::analyze_executable(&session, &path) {
        | Analyzed::Executable(exe, _) => {
            let run = drive::run_executable(exe, b"", &[], 100_000);
            if let RunEnd::Stuck { msg, file, line } = &run.end {
                let short: String = msg.chars().take(48).collect();
                return Err(Fail::new(
                    format!("stuck[{short}]@{}", file.rsplit("/repo/").next().unwrap_or(file)),
                    "progress, exit code, returned value, host I/O, or the division trap",
                    format!("interpreter went wrong: `{msg}` at {file}:{line} after {} steps", run.steps),
                )
                .with(json!({"probe": name, "source": body})));
            }
            stats.count("probe:accepted-and-ran");
            stats.nontrivial(hash_of(body));
        }
        | Analyzed::Panic(p) => return Err(Fail::new(format!("analysis-{}", p.signature()), "analysis to return", p.describe()).with(json!({"probe": name, "source": body}))),
        | _ => stats.count("probe:not-accepted"),
    }
    Ok(())
}

pub fn run(ctx: &Ctx) -> Report {
    let mut report = Report::new(
        "streams, all filtered by the implementation's own accept verdict: (1) generated core programs; (2) pattern \
         rows over catalogue/random data types as match, comatch argument patterns, or fn/let/do binders, applied \
         to every enumerated value; (3) records: nested named products and every field projection; (4) fixed probes of accepted-but-goes-wrong shapes seen before; (5) every \
         repository source that is an accepted executable and 1–2 token mutations of it that check still accepts \
         (analysed as an overlay at the original path); each accepted program runs on 6 stdin contents (empty, lines, \
         numbers incl. out-of-range, 70 kB line, invalid UTF-8, generated) × 2 argument vectors under a fuel bound; \
         oracle: classification of how stepping ends — any unwind other than the division trap or a legacy stdio \
         failure is a stuck state; non-trivial = accepted, ≥20 machine steps, mutants differ from parent; distinct by \
         source hash",
    );
    let _ = std::env::set_current_dir(&ctx.scratch);
    let cfg = ctx.tier.pick(Cfg::quick(), Cfg::thorough());
    let cases = ctx.tier.pick(1_500, 40_000);
    let r = run_tapes(ctx, "generated", cases, 700, |tape, stats| check_generated(ctx, tape, &cfg, stats));
    report.absorb(r);
    // executables only: keep the subset of corpus files that could be roots
    let corpus: Vec<_> = drive::corpus_texts(&ctx.repo_root)
        .into_iter()
        .filter(|(p, _)| {
            let s = p.display().to_string();
            (s.contains("/lib/tests/") || s.contains("/lib/examples/") || s.contains("/docs/spell/") || s.contains("/lib/playground/") || s.contains("/lib/avl/") || s.contains("/lib/spell/"))
                && !s.ends_with(".zyi")
        })
        .collect();
    let cases = ctx.tier.pick(2_500, 80_000);
    let corpus_ref = &corpus;
    let r = run_tapes(ctx, "corpus", cases, 40, |tape, stats| check_corpus(corpus_ref, tape, stats));
    report.absorb(r);
    let cases = ctx.tier.pick(1_500, 60_000);
    let r = run_tapes(ctx, "patterns", cases, 120, |tape, stats| check_patterns(ctx, tape, stats));
    report.absorb(r);
    // edited core programs (every C03 operator and the free-form clause edits) that check still accepts
    let cases = ctx.tier.pick(300, 15_000);
    let r = run_tapes(ctx, "mutants", cases, 700, |tape, stats| {
        let (texts, stdin) = crate::props::c03::mutant_texts(ctx, tape, &cfg, 6);
        for (text, label) in texts {
            let path = thread_dir(ctx).join("mutant.zy");
            std::fs::write(&path, &text).expect("write case");
            let session = CompilerSession::default();
            match drive::analyze_executable(&session, &path) {
                | Analyzed::Executable(exe, _) => {
                    stats.eval();
                    let run = drive::run_executable(exe, &stdin, &[], 200_000);
                    if let RunEnd::Stuck { msg, file, line } = &run.end {
                        let short: String = msg.chars().take(48).collect();
                        return Err(Fail::new(
                            format!("stuck[{short}]@{}", file.rsplit("/repo/").next().unwrap_or(file)),
                            "progress, exit code, returned value, host I/O, or the division trap",
                            format!("interpreter went wrong: `{msg}` at {file}:{line} after {} steps", run.steps),
                        )
                        .with(json!({"mutation": label, "source": text[text.find("begin\n").unwrap_or(0)..].to_string()})));
                    }
                    stats.count("mutant:accepted-and-ran");
                    stats.nontrivial(hash_of(&text));
                }
                | Analyzed::Panic(_) => stats.count("mutant:analysis-panic(C10)"),
                | _ => stats.count("mutant:not-accepted(discarded)"),
            }
        }
        Ok(())
    });
    report.absorb(r);
    let cases = ctx.tier.pick(600, 20_000);
    let r = run_tapes(ctx, "records", cases, 60, |tape, stats| crate::props::records::check_records(ctx, tape, stats, true));
    report.absorb(r);
    // listed findings and past defects as fixed probes (each must not go wrong if accepted)
    let probes: Vec<(String, String)> = PROBES.iter().map(|(n, b)| (n.to_string(), b.to_string())).collect();
    let r = run_items(ctx, "probes", probes, |(name, body), stats| check_probe(ctx, name, body, stats));
    report.absorb(r);
    report.extra.insert("corpus_roots".into(), json!(corpus.len()));
    report.assume("execution is observed for a fuel-bounded prefix (200k steps generated, 50k corpus)");
    report
}

pub fn replay(ctx: &Ctx, doc: &Value) -> Result<(), Fail> {
    let tape = unhex(doc["tape_hex"].as_str().unwrap_or(""));
    let mut stats = Stats::new();
    if doc["stage"] == "records" {
        return crate::props::records::replay(ctx, doc, true);
    }
    if doc["stage"] == "mutants" {
        // re-decide from the recorded source
        if let Some(src) = doc["rendered"]["source"].as_str() {
            let text = format!("{}{src}", print::prelude(&ctx.repo_root));
            return check_probe(ctx, "mutant", &text[print::prelude(&ctx.repo_root).len()..], &mut stats);
        }
    }
    if doc["stage"] == "probes" {
        for (n, b) in PROBES {
            check_probe(ctx, n, b, &mut stats)?;
        }
        return Ok(());
    }
    if doc["stage"] == "patterns" {
        return check_patterns(ctx, &tape, &mut stats);
    }
    if doc["stage"] == "corpus" {
        let corpus: Vec<_> = drive::corpus_texts(&ctx.repo_root);
        let base = doc["rendered"]["base"].as_str().unwrap_or("");
        let text = doc["rendered"]["text"].as_str().unwrap_or("").to_string();
        let path = std::path::PathBuf::from(base);
        let _ = corpus;
        let mut session = CompilerSession::default();
        session.set_overlay(&path, text.clone()).ok();
        let case = |extra: Value| json!({"base": base, "text": text, "info": extra});
        return run_all_inputs(&session, &path, b"1\n2\n3\n", 50_000, &mut stats, &case).map(|_| ());
    }
    check_generated(ctx, &tape, &Cfg::quick(), &mut stats)?;
    check_generated(ctx, &tape, &Cfg::thorough(), &mut stats)
}
