//! C15 — incremental answers equal from-scratch answers after any edit history.

use crate::drive::{self, Analyzed, Verdict};
use crate::engine::*;
use serde_json::{Value, json};
use std::collections::BTreeMap;
use std::path::{Path, PathBuf};
use zydeco_session::CompilerSession;

pub const FILES: &[&str] = &["root.zy", "lib.zy", "lib.zyi", "util.zy", "deep/leaf.zy", "other_root.zy", "exe.zy"];
pub const ROOTS: &[&str] = &["root.zy", "other_root.zy", "exe.zy", "util.zy"];

/// Content variants per file (index 0 is the plainest).
pub fn variants(file: &str, repo: &Path) -> Vec<String> {
    let builtin = repo.join("lib/std/builtin.zy").display().to_string();
    match file {
        | "root.zy" => vec![
            "let x = @(import(\"lib.zy\")) in\nlet y = @(import(\"util.zy\")) in\n(x, y)\n".into(),
            "let x = @(import(\"lib.zy\")) in\n(x, @(import(\"lib.zy\")))\n".into(),
            "let z = @(import(\"deep/leaf.zy\")) in\n(z, @(import(\"util.zy\")), 7)\n".into(),
            "let x = in\n".into(),
            "(@(import(\"lib.zy\")) : @(intrinsic(string)))\n".into(),
            "let U = @(intrinsic(unit)) in\nlet Ret = @(intrinsic(ret)) in\nlet D : @(intrinsic(vtype)) = data | +A : U | +B : U end in\nlet k = @(import(\"lib.zy\")) in\n{ fn (d : D) => match d | +A() => ret k end }\n".into(),
            "--| stray text block\n(@(import(\"util.zy\")), 0)\n".into(),
            "5\n".into(),
        ],
        | "lib.zy" => vec![
            "1\n".into(),
            "2\n".into(),
            "\"text\"\n".into(),
            "(1, 2)\n".into(),
            "(((\n".into(),
            "(1 : @(intrinsic(string)))\n".into(),
            "@(import(\"deep/leaf.zy\"))\n".into(),
            "@(import(\"root.zy\"))\n".into(),
        ],
        | "lib.zyi" => vec![
            "@(intrinsic(i64))\n".into(),
            "@(intrinsic(string))\n".into(),
            "@(intrinsic(i64)) * @(intrinsic(i64))\n".into(),
            "(\n".into(),
            "@(import(\"lib.zy\"))\n".into(),
        ],
        | "util.zy" => vec![
            "2\n".into(),
            "@(import(\"deep/leaf.zy\"))\n".into(),
            "@(import(\"root.zy\"))\n".into(),
            "(@(import(\"lib.zy\")), 9)\n".into(),
            "\"u\"\n".into(),
        ],
        | "deep/leaf.zy" => vec![
            "3\n".into(),
            "\"leaf\"\n".into(),
            "@(import(\"../lib.zy\"))\n".into(),
            "@(import(\"../util.zy\"))\n".into(),
            "oops oops\n".into(),
        ],
        | "other_root.zy" => vec![
            "(@(import(\"util.zy\")), @(import(\"util.zy\")))\n".into(),
            "@(import(\"root.zy\"))\n".into(),
            "@(import(\"missing.zy\"))\n".into(),
        ],
        | _ => vec![
            format!("param (\n  (/system) :\n  @(import(\"{builtin}\"))\n) in\nlet (/process) = system in\nlet code = @(import(\"lib.zy\")) in\n! (process/exit) code\n"),
            format!("param (\n  (/system) :\n  @(import(\"{builtin}\"))\n) in\nlet (/process; /stdio) = system in\nlet (a, b) = @(import(\"lib.zy\")) in\n! (stdio/write_line) \"pair\" {{ ! (process/exit) b }}\n"),
        ],
    }
}

#[derive(Clone, Debug)]
pub enum Op {
    SetOverlay(usize, usize),
    ClearOverlay(usize),
    Write(usize, usize),
    Delete(usize),
    Analyze(usize),
    Graph(usize),
    Reports(usize),
    Coverage(usize),
    Exec(usize),
    Checked(usize),
    Lru,
}

pub fn decode_history(t: &mut Tape, repo: &Path) -> Vec<Op> {
    let n = 1 + t.below(40);
    let mut ops = vec![];
    for _ in 0..n {
        let f = t.below(FILES.len());
        let nv = variants(FILES[f], repo).len();
        let r = t.below(ROOTS.len());
        ops.push(match t.below(16) {
            | 0 | 1 => Op::SetOverlay(f, t.below(nv)),
            | 2 => Op::ClearOverlay(f),
            | 3 | 4 | 5 => Op::Write(f, t.below(nv)),
            | 6 => Op::Delete(f),
            | 7 | 8 | 9 => Op::Analyze(r),
            | 10 => Op::Graph(r),
            | 11 => Op::Reports(r),
            | 12 => Op::Coverage(r),
            | 13 => Op::Exec(2),
            | 14 => Op::Checked(r),
            | _ => Op::Lru,
        });
    }
    // always end with a query of every root
    for r in 0..ROOTS.len() {
        ops.push(Op::Analyze(r));
    }
    ops.push(Op::Graph(0));
    ops
}

#[derive(Clone, Default)]
pub struct World {
    pub disk: BTreeMap<usize, String>,
    pub overlay: BTreeMap<usize, String>,
}

fn rel(s: &str, dir: &Path) -> String {
    s.replace(&dir.display().to_string(), "$D")
}

fn write_world(dir: &Path, w: &World) {
    for (f, text) in &w.disk {
        let p = dir.join(FILES[*f]);
        std::fs::create_dir_all(p.parent().unwrap()).unwrap();
        std::fs::write(p, text).unwrap();
    }
}

/// One query, answered and normalised (arena identities and the directory name masked).
pub fn answer(session: &mut CompilerSession, dir: &Path, op: &Op) -> String {
    let root = |r: usize| dir.join(ROOTS[r]);
    let r = catch(|| salsa::Cancelled::catch(std::panic::AssertUnwindSafe(|| match op {
        | Op::Graph(r) => match session.graph(root(*r)) {
            | Ok(g) => {
                let name = |id: &zydeco_session::SourceId| rel(&g.sources[id].path.display().to_string(), dir);
                let mut sources: Vec<String> =
                    g.sources.iter().map(|(_, f)| format!("{}#{:x}", rel(&f.path.display().to_string(), dir), hash_of(&f.source))).collect();
                sources.sort();
                let mut imports: Vec<String> = g.imports.iter().map(|(_, i)| format!("{}->{}", name(&i.importer), name(&i.imported))).collect();
                imports.sort();
                let order: Vec<String> = g.provider_order().iter().map(name).collect();
                let sigs: Vec<String> = g.sources.iter().filter_map(|(_, f)| f.signature.map(|s| format!("{}:{}", rel(&f.path.display().to_string(), dir), name(&s)))).collect();
                format!("graph sources={sources:?} imports={imports:?} signatures={sigs:?} order={order:?}")
            }
            | Err(e) => format!("graph error: {}", rel(&format!("{e}"), dir)),
        },
        | Op::Analyze(r) => {
            let result = session.analyze(root(*r));
            let front = drive::summarize(session, &result);
            let mut diags: Vec<String> = front
                .kinds
                .iter()
                .zip(front.spans.iter().map(Some).chain(std::iter::repeat(None)))
                .map(|(k, s)| format!("{} @{}", rel(k, dir), s.map(|(p, r)| format!("{}:{:?}", rel(&p.display().to_string(), dir), r)).unwrap_or_default()))
                .collect();
            diags.sort();
            format!("analyze {:?} {diags:?}", front.verdict)
        }
        | Op::Reports(r) => match session.reports(root(*r)) {
            | Ok(Some(reports)) => {
                let mut v: Vec<String> = reports
                    .spans
                    .iter()
                    .map(|s| match s {
                        | Some((p, range, msg)) => format!("{}:{range:?}:{}", rel(&p.as_path().display().to_string(), dir), msg.split_whitespace().collect::<Vec<_>>().join(" ")),
                        | None => "<none>".into(),
                    })
                    .collect();
                v.sort();
                format!("reports {v:?}")
            }
            | Ok(None) => "reports none".into(),
            | Err(e) => format!("reports error {}", rel(&format!("{e}").lines().next().unwrap_or("").to_string(), dir)),
        },
        | Op::Coverage(r) => match session.coverage(root(*r)) {
            | Ok(c) => format!("coverage {}", c.len()),
            | Err(e) => format!("coverage error {}", rel(&format!("{e}").lines().next().unwrap_or("").to_string(), dir)),
        },
        | Op::Exec(r) => match drive::analyze_executable(session, &root(*r)) {
            | Analyzed::Executable(exe, _) => {
                let run = drive::run_executable(exe, b"", &[], 100_000);
                format!("exec {:?} {:?}", run.end, String::from_utf8_lossy(&run.stdout))
            }
            | Analyzed::AcceptedOther(_, why) => format!("exec not-executable {}", why.split_whitespace().take(6).collect::<Vec<_>>().join(" ")),
            | Analyzed::NotAccepted(f) => format!("exec not-accepted {:?}", f.verdict),
            | Analyzed::Panic(p) => format!("exec PANIC {}", p.msg),
        },
        | Op::Checked(r) => match session.analyze(root(*r)) {
            | Ok(a) => format!("checked_program={} materialize={}", session.checked_program(&a).is_some(), session.materialize_arena(&a).is_ok()),
            | Err(_) => "checked_program: analysis error".into(),
        },
        | _ => String::new(),
    })));
    match r {
        | Ok(Ok(s)) => s,
        | Ok(Err(_cancelled)) => "CANCELLED".to_string(),
        | Err(p) => format!("PANIC {}", p.signature()),
    }
}

pub fn fresh_answer(ctx: &Ctx, w: &World, op: &Op) -> String {
    let dir = thread_dir(ctx).join("fresh");
    let _ = std::fs::remove_dir_all(&dir);
    // same directory skeleton as the long-lived side (directories take part in path resolution)
    std::fs::create_dir_all(dir.join("deep")).unwrap();
    let dir = dir.canonicalize().unwrap();
    write_world(&dir, w);
    let mut s = CompilerSession::default();
    for (f, text) in &w.overlay {
        s.set_overlay(dir.join(FILES[*f]), text.clone()).ok();
    }
    answer(&mut s, &dir, op)
}

pub fn run_history(ctx: &Ctx, ops: &[Op], stats: &mut Stats) -> Result<(), Fail> {
    let dir = thread_dir(ctx).join("liveX");
    let _ = std::fs::remove_dir_all(&dir);
    std::fs::create_dir_all(dir.join("deep")).unwrap();
    let dir = dir.canonicalize().unwrap();
    let mut w = World::default();
    // initial disk state: variant 0 of root, lib, util, leaf, other_root, exe (no companion)
    for (f, name) in FILES.iter().enumerate() {
        if *name != "lib.zyi" {
            w.disk.insert(f, variants(name, &ctx.repo_root)[0].clone());
        }
    }
    write_world(&dir, &w);
    let mut session = CompilerSession::default();
    let mut log: Vec<String> = vec![];
    let mut edited_dependency = false;
    let mut interesting = false;
    let render = |log: &Vec<String>| json!({"history": log});
    for op in ops {
        let path = |f: usize| dir.join(FILES[f]);
        let edit_result: Option<Result<(), String>> = match op {
            | Op::SetOverlay(f, v) => {
                let text = variants(FILES[*f], &ctx.repo_root)[*v].clone();
                log.push(format!("set_overlay({}, variant {v})", FILES[*f]));
                if w.disk.get(f) == Some(&text) {
                    interesting = true; // overlay equal to disk contents
                }
                w.overlay.insert(*f, text.clone());
                Some(catch(|| session.set_overlay(path(*f), text)).map_err(|p| p.describe()).and_then(|r| r.map_err(|e| format!("{e}"))))
            }
            | Op::ClearOverlay(f) => {
                log.push(format!("clear_overlay({})", FILES[*f]));
                if w.overlay.remove(f).is_some() {
                    interesting = true;
                }
                Some(catch(|| session.clear_overlay(path(*f))).map_err(|p| p.describe()).and_then(|r| r.map_err(|e| format!("{e}"))))
            }
            | Op::Write(f, v) => {
                let text = variants(FILES[*f], &ctx.repo_root)[*v].clone();
                log.push(format!("write({}, variant {v}) + refresh_disk", FILES[*f]));
                if !w.disk.contains_key(f) {
                    interesting = true; // a file appears
                }
                w.disk.insert(*f, text.clone());
                std::fs::create_dir_all(path(*f).parent().unwrap()).unwrap();
                std::fs::write(path(*f), text).unwrap();
                Some(catch(|| session.refresh_disk(path(*f))).map_err(|p| p.describe()).and_then(|r| r.map_err(|e| format!("{e}"))))
            }
            | Op::Delete(f) => {
                log.push(format!("delete({}) + refresh_disk", FILES[*f]));
                if w.disk.remove(f).is_some() {
                    interesting = true;
                }
                let _ = std::fs::remove_file(path(*f));
                Some(catch(|| session.refresh_disk(path(*f))).map_err(|p| p.describe()).and_then(|r| r.map_err(|e| format!("{e}"))))
            }
            | Op::Lru => {
                log.push("trigger_lru_eviction".into());
                salsa::Database::trigger_lru_eviction(&mut session);
                None
            }
            | _ => None,
        };
        if let Some(res) = edit_result {
            stats.eval();
            if !matches!(op, Op::SetOverlay(0, _) | Op::ClearOverlay(0) | Op::Write(0, _) | Op::Delete(0)) {
                edited_dependency = true;
            }
            if let Err(e) = res {
                let kind = match op {
                    | Op::Write(..) | Op::Delete(..) => "refresh_disk",
                    | Op::SetOverlay(..) => "set_overlay",
                    | _ => "clear_overlay",
                };
                return Err(Fail::new(
                    format!("edit-operation-failed[{kind}]"),
                    format!("{kind} on a regular path inside the project to return Ok"),
                    rel(&e, &dir),
                )
                .with(render(&log)));
            }
            continue;
        }
        if matches!(op, Op::Lru) {
            continue;
        }
        // a query: compare with a fresh session over the same effective contents
        stats.eval();
        let live = answer(&mut session, &dir, op);
        let fresh = fresh_answer(ctx, &w, op);
        log.push(format!("{op:?} => {}", live.chars().take(160).collect::<String>()));
        if live != fresh {
            let what = live.split_whitespace().next().unwrap_or("query").to_string();
            return Err(Fail::new(
                format!("stale-{what}"),
                format!("fresh session: {}", fresh.chars().take(700).collect::<String>()),
                format!("long-lived session: {}", live.chars().take(700).collect::<String>()),
            )
            .with(render(&log)));
        }
        if edited_dependency {
            interesting = true;
        }
    }
    if interesting {
        stats.nontrivial(hash_of(&format!("{ops:?}")));
        stats.sample(|| json!({"history": log.iter().take(14).collect::<Vec<_>>(), "length": log.len()}));
    }
    Ok(())
}

pub fn run(ctx: &Ctx) -> Report {
    let mut report = Report::new(
        "histories of 1–40 operations {set_overlay, clear_overlay, write+refresh_disk, delete+refresh_disk, analyze, \
         graph, reports, coverage, executable+run, checked_program/materialize_arena, trigger_lru_eviction} over 7 \
         interdependent files (root, lib, its companion lib.zyi, util, deep/leaf, a second root, an executable root) \
         with 2–8 content variants each (values of different types, syntax error, type error, non-exhaustive match, \
         imports added/removed/retargeted/cyclic, companion with right/wrong/invalid signature, missing import, \
         unattached text block, file absent); oracle: after every query the same query is asked of a fresh session \
         over a fresh directory holding the model's effective contents, compared after masking arena identities and \
         the directory (graphs as sets, diagnostics as sorted multisets); edit operations must return Ok; non-trivial \
         = a query after an edit of a dependency, a file appearing/disappearing, or an overlay reverting; distinct by \
         history",
    );
    let cases = ctx.tier.pick(1_200, 60_000);
    let r = run_tapes(ctx, "histories", cases, 260, |tape, stats| {
        let mut t = Tape::new(tape);
        let ops = decode_history(&mut t, &ctx.repo_root);
        run_history(ctx, &ops, stats)
    });
    report.absorb(r);
    report.assume("every disk change is immediately followed by refresh_disk of that path (as in the property's operation list)");
    report.assume("diagnostics are compared as sorted multisets; their order is C16's subject");
    let _: Option<(PathBuf, Verdict)> = None;
    report
}

pub fn replay(ctx: &Ctx, doc: &Value) -> Result<(), Fail> {
    let tape = unhex(doc["tape_hex"].as_str().unwrap_or(""));
    let mut t = Tape::new(&tape);
    let ops = decode_history(&mut t, &ctx.repo_root);
    let mut stats = Stats::new();
    run_history(ctx, &ops, &mut stats)
}
