use crate::engine::{Ctx, Fail, Report};
use serde_json::Value;

pub mod c01;
pub mod c02;
pub mod c03;
pub mod c04;
pub mod c05;
pub mod c06;
pub mod c07;
pub mod c08;
pub mod c08_blocks;
pub mod c09;
pub mod c10;
pub mod c11;
pub mod c12;
pub mod c13;
pub mod c14;
pub mod c15;
pub mod c16;
pub mod c17;
pub mod c18;
pub mod c19;
pub mod c20;
pub mod fmt;
pub mod records;

pub struct PropDef {
    pub id: &'static str,
    pub run: fn(&Ctx) -> Report,
    /// Re-run one saved case strictly; `Ok(())` = the case passes now.
    pub replay: fn(&Ctx, &Value) -> Result<(), Fail>,
}

pub fn registry() -> Vec<PropDef> {
    vec![
        PropDef { id: "C01", run: c01::run, replay: c01::replay },
        PropDef { id: "C02", run: c02::run, replay: c02::replay },
        PropDef { id: "C03", run: c03::run, replay: c03::replay },
        PropDef { id: "C04", run: c04::run, replay: c04::replay },
        PropDef { id: "C05", run: c05::run, replay: c05::replay },
        PropDef { id: "C06", run: c06::run, replay: c06::replay },
        PropDef { id: "C07", run: c07::run, replay: c07::replay },
        PropDef { id: "C08", run: c08::run, replay: c08::replay },
        PropDef { id: "C09", run: c09::run, replay: c09::replay },
        PropDef { id: "C10", run: c10::run, replay: c10::replay },
        PropDef { id: "C11", run: c11::run, replay: c11::replay },
        PropDef { id: "C12", run: c12::run, replay: c12::replay },
        PropDef { id: "C13", run: c13::run, replay: c13::replay },
        PropDef { id: "C14", run: c14::run, replay: c14::replay },
        PropDef { id: "C15", run: c15::run, replay: c15::replay },
        PropDef { id: "C16", run: c16::run, replay: c16::replay },
        PropDef { id: "C17", run: c17::run, replay: c17::replay },
        PropDef { id: "C18", run: c18::run, replay: c18::replay },
        PropDef { id: "C19", run: c19::run, replay: c19::replay },
        PropDef { id: "C20", run: c20::run, replay: c20::replay },
    ]
}
