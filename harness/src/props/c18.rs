//! C18 — every accepted executable lowers to native code text with valid IR.

use crate::core::generate::Cfg;
use crate::core::harness as h;
use crate::core::print::{self, Names};
use crate::drive::{self, Analyzed, BackendProgram, Lowered};
use crate::engine::*;
use crate::props::c02::style_from;
use crate::props::c10::mutate_same_kind;
use serde_json::{Value, json};
use std::collections::{BTreeSet, HashMap, HashSet};
use zydeco_cli::{CompileError, TargetArchitecture, TargetOs};
use zydeco_session::CompilerSession;
use zydeco_stackir::sps_low::syntax as sl;

/* ------------------------ independent SPSLow validation ------------------- */

struct LowCheck<'a> {
    a: &'a sl::SpsLowInnerArena,
    seen_c: HashSet<sl::CompuId>,
    seen_v: HashSet<sl::ValueId>,
    seen_s: HashSet<sl::StackId>,
    seen_p: HashSet<sl::VPatId>,
    labels: HashSet<sl::DefId>,
    problems: Vec<String>,
}

type Vars = BTreeSet<sl::DefId>;

impl<'a> LowCheck<'a> {
    fn pat_binders(&mut self, p: sl::VPatId, out: &mut Vars) {
        if !self.seen_p.insert(p) {
            self.problems.push(format!("pattern node {p:?} occurs more than once"));
        }
        match &self.a.vpats[&p] {
            | sl::ValuePattern::Hole(_) | sl::ValuePattern::Triv(_) => {}
            | sl::ValuePattern::Var(d) => {
                out.insert(*d);
            }
            | sl::ValuePattern::Ctor(sl::Ctor(_, inner)) => self.pat_binders(*inner, out),
            | sl::ValuePattern::Alias(sl::Alias(items)) => {
                for i in items.iter() {
                    self.pat_binders(*i, out);
                }
            }
            | sl::ValuePattern::VCons(vc) => {
                if vc.layout.arity == 0 || vc.items.len() > vc.layout.arity || vc.layout.fields.len() != vc.layout.arity {
                    self.problems.push(format!("product pattern {p:?}: layout {:?} with {} items", vc.layout, vc.items.len()));
                }
                for i in vc.items.iter() {
                    self.pat_binders(*i, out);
                }
            }
        }
    }

    fn value(&mut self, v: sl::ValueId) -> Vars {
        if !self.seen_v.insert(v) {
            self.problems.push(format!("value node {v:?} occurs more than once"));
        }
        match &self.a.values[&v] {
            | sl::Value::Hole(_) | sl::Value::Triv(_) | sl::Value::Literal(_) => Vars::new(),
            | sl::Value::Var(d) => [*d].into_iter().collect(),
            | sl::Value::Block(b) => {
                if !self.labels.insert(b.label) {
                    self.problems.push(format!("block label {:?} bound more than once", b.label));
                }
                let mut fv = self.compu(b.body, false);
                fv.remove(&b.label);
                if !fv.is_empty() {
                    self.problems.push(format!("block {:?} captures implicitly: {fv:?}", b.label));
                }
                // a block is closed: nothing is free in the enclosing term
                Vars::new()
            }
            | sl::Value::ClosurePackage(c) => {
                let mut fv = self.value(c.environment);
                fv.extend(self.value(c.code));
                fv
            }
            | sl::Value::Ctor(sl::Ctor(_, payload)) => self.value(*payload),
            | sl::Value::VCons(vc) => {
                if vc.layout.arity == 0 || vc.items.len() > vc.layout.arity || vc.layout.fields.len() != vc.layout.arity {
                    self.problems.push(format!("product value {v:?}: layout {:?} with {} items", vc.layout, vc.items.len()));
                }
                let items: Vec<sl::ValueId> = vc.items.iter().copied().collect();
                let mut fv = Vars::new();
                for i in items {
                    fv.extend(self.value(i));
                }
                fv
            }
            | sl::Value::Complex(c) => {
                let mut fv = Vars::new();
                for o in c.operands.clone() {
                    fv.extend(self.value(o));
                }
                fv
            }
        }
    }

    fn stack(&mut self, s: sl::StackId) -> Vars {
        if !self.seen_s.insert(s) {
            self.problems.push(format!("stack node {s:?} occurs more than once"));
        }
        match &self.a.stacks[&s] {
            | sl::Stack::Var(_) => Vars::new(),
            | sl::Stack::Arg(sl::Cons(v, rest)) => {
                let (v, rest) = (*v, *rest);
                let mut fv = self.value(v);
                fv.extend(self.stack(rest));
                fv
            }
            | sl::Stack::Tag(sl::Cons(_, rest)) => self.stack(*rest),
            | sl::Stack::ContinuationPackage(k) => {
                let (code, residual) = (k.code, k.residual);
                let mut fv = self.value(code);
                fv.extend(self.stack(residual));
                fv
            }
        }
    }

    /// free variables of a computation; `under_stack_let` = the parent is a LetStack
    fn compu(&mut self, c: sl::CompuId, under_stack_let: bool) -> Vars {
        if !self.seen_c.insert(c) {
            self.problems.push(format!("computation node {c:?} occurs more than once"));
            return Vars::new();
        }
        let node = self.a.compus[&c].clone();
        if matches!(node, sl::Computation::CoprodMatch(_)) != under_stack_let {
            if under_stack_let {
                self.problems.push(format!("stack let-binding whose body {c:?} is not a coproduct match"));
            } else {
                self.problems.push(format!("coproduct match {c:?} is not guarded by a stack let-binding"));
            }
        }
        let with_binders = |this: &mut Self, pats: &[sl::VPatId], body: sl::CompuId| -> Vars {
            let mut bound = Vars::new();
            for p in pats {
                this.pat_binders(*p, &mut bound);
            }
            let mut fv = this.compu(body, false);
            for b in bound {
                fv.remove(&b);
            }
            fv
        };
        match node {
            | sl::Computation::Hole(sl::SHole(s)) => self.stack(s),
            | sl::Computation::Jump(j) => {
                let mut fv = self.value(j.target);
                fv.extend(self.stack(j.stack));
                fv
            }
            | sl::Computation::ProductMatch(m) => {
                let mut fv = self.value(m.scrut);
                fv.extend(with_binders(self, &[m.binder], m.body));
                fv
            }
            | sl::Computation::LetValue(l) => {
                let mut fv = self.value(l.bindee);
                fv.extend(with_binders(self, &[l.binder], l.body));
                fv
            }
            | sl::Computation::CoprodMatch(m) => {
                let mut fv = self.value(m.scrut);
                for arm in m.arms {
                    fv.extend(with_binders(self, &[arm.binder], arm.tail));
                }
                fv
            }
            | sl::Computation::LetStack(l) => {
                let mut fv = self.stack(l.bindee);
                fv.extend(self.compu(l.body, true));
                fv
            }
            | sl::Computation::LetArg(l) => {
                let mut fv = self.stack(l.bindee);
                fv.extend(with_binders(self, &[l.binder], l.body));
                fv
            }
            | sl::Computation::CoCase(cc) => {
                let mut fv = self.stack(cc.scrut);
                let mut tags = HashSet::new();
                for arm in cc.arms {
                    if !tags.insert(arm.dtor.0.idx) {
                        self.problems.push(format!("cocase {c:?} has two arms for tag {}", arm.dtor.0.idx));
                    }
                    fv.extend(self.compu(arm.tail, false));
                }
                fv
            }
            | sl::Computation::OpenClosure(o) => {
                let mut fv = self.value(o.package);
                fv.extend(with_binders(self, &[o.environment, o.code], o.body));
                fv
            }
            | sl::Computation::OpenContinuation(o) => {
                let mut fv = self.stack(o.package);
                fv.extend(with_binders(self, &[o.code], o.body));
                fv
            }
            | sl::Computation::ExternCall(e) => self.stack(e.stack),
        }
    }
}

pub fn validate_sps_low(p: &zydeco_stackir::SpsLowProgram) -> Vec<String> {
    let arena = p.arena();
    let mut ck = LowCheck {
        a: &arena.inner,
        seen_c: HashSet::new(),
        seen_v: HashSet::new(),
        seen_s: HashSet::new(),
        seen_p: HashSet::new(),
        labels: HashSet::new(),
        problems: vec![],
    };
    let fv = ck.compu(p.root(), false);
    if !fv.is_empty() {
        ck.problems.push(format!("root is not closed: {fv:?}"));
    }
    // every extern called must be declared with the arity of its host role
    for (_, c) in arena.inner.compus.iter() {
        if let sl::Computation::ExternCall(e) = c {
            match arena.admin.builtins.get(&e.function) {
                | None => ck.problems.push(format!("extern `{}` is not declared", e.function)),
                | Some(b) => {
                    if let Some(n) = crate::hmodel::host_arity(&e.function) {
                        if n != b.arity {
                            ck.problems.push(format!("extern `{}` declared /{} but the role takes {n}", e.function, b.arity));
                        }
                    }
                }
            }
        }
    }
    ck.problems
}

/* ------------------------ independent assembly validation ----------------- */

pub fn validate_assembly(p: &zydeco_assembly::syntax::AssemblyProgram) -> Vec<String> {
    use zydeco_assembly::syntax::*;
    let mut problems = vec![];
    let a = &p.arena;
    let has_prog = |id: &ProgId| a.programs.get(id).is_some();
    if !has_prog(&p.root) {
        problems.push("root program is not stored".to_string());
    }
    let check_layout = |l: &ProductLayout, problems: &mut Vec<String>| {
        if !(l.arity > 0 && l.elements > 0 && l.elements <= l.arity && l.fields.len() == l.arity) {
            problems.push(format!("product layout arity={} elements={} fields={}", l.arity, l.elements, l.fields.len()));
        }
    };
    for (id, prog) in a.programs.iter() {
        match prog {
            | Program::Terminator(t) => match t {
                | Terminator::Jump(Jump(target)) => {
                    if !has_prog(target) {
                        problems.push(format!("{id:?}: jump to undefined program {target:?}"));
                    }
                }
                | Terminator::PopBranch(PopBranch(arms)) => {
                    let mut tags = HashSet::new();
                    for (tag, target) in arms {
                        if !has_prog(target) {
                            problems.push(format!("{id:?}: branch to undefined program {target:?}"));
                        }
                        // a repeated tag (a redundant source arm of the same constructor) is not among the stated
                        // invariants: the first arm wins, as in the source
                        let _ = tags.insert(tag.idx);
                    }
                }
                | Terminator::PopJump(_) | Terminator::Abort(_) | Terminator::Extern(_) => {}
            },
            | Program::Instruction(instr, next) => {
                if !has_prog(next) {
                    problems.push(format!("{id:?}: falls through to undefined program {next:?}"));
                }
                match instr {
                    | Instruction::PackProduct(Pack(l)) | Instruction::UnpackProduct(Unpack(l)) => {
                        check_layout(l, &mut problems)
                    }
                    | Instruction::PushArg(Push(Atom::Sym(s))) => match a.symbols.get(s) {
                        | None => problems.push(format!("{id:?}: push of undefined symbol {s:?}")),
                        | Some(NamedSymbol { inner: Symbol::Prog(target), .. }) => {
                            if !has_prog(target) {
                                problems.push(format!("{id:?}: symbol {s:?} names undefined program {target:?}"));
                            }
                        }
                        | Some(NamedSymbol { inner: Symbol::Undefined(_), name }) => {
                            problems.push(format!("{id:?}: push of symbol `{name}` that has no definition"))
                        }
                        | Some(_) => {}
                    },
                    | Instruction::PushArg(Push(Atom::Var(v))) | Instruction::PopArg(Pop(v)) => {
                        if a.variables.get(v).is_none() {
                            problems.push(format!("{id:?}: unknown variable {v:?}"));
                        }
                    }
                    | _ => {}
                }
            }
        }
    }
    for (pid, sym) in a.labels.iter() {
        if a.symbols.get(sym).is_none() || !has_prog(pid) {
            problems.push(format!("label {sym:?} of {pid:?} is dangling"));
        }
    }
    problems
}

/// Textual scan of NASM output: every referenced label is defined or declared extern.
pub fn validate_amd64_text(text: &str) -> Vec<String> {
    let mut defined: HashSet<&str> = HashSet::new();
    let mut externs: HashSet<&str> = HashSet::new();
    let mut dup = vec![];
    for line in text.lines() {
        let l = line.trim();
        if let Some(name) = l.strip_suffix(':') {
            if name.chars().all(|c| c.is_ascii_alphanumeric() || c == '_' || c == '.' || c == '$') && !name.is_empty() {
                if !defined.insert(name) {
                    dup.push(format!("label `{name}` defined twice"));
                }
            }
        }
        if let Some(name) = l.strip_prefix("extern ") {
            externs.insert(name.trim());
        }
    }
    const REGS: &[&str] = &[
        "rax", "rbx", "rcx", "rdx", "rsi", "rdi", "rbp", "rsp", "r8", "r9", "r10", "r11", "r12", "r13", "r14", "r15",
    ];
    let mut problems = dup;
    let mut missing: HashMap<String, usize> = HashMap::new();
    for line in text.lines() {
        let l = line.trim();
        if l.starts_with(";;;") || l.starts_with(';') {
            continue;
        }
        let mut refs: Vec<&str> = vec![];
        if let Some(i) = l.find("[rel ") {
            let rest = &l[i + 5..];
            if let Some(j) = rest.find(']') {
                refs.push(rest[..j].trim());
            }
        }
        for op in ["call ", "jmp ", "global "] {
            if let Some(rest) = l.strip_prefix(op) {
                let name = rest.trim();
                if !REGS.contains(&name) && !name.starts_with('[') && !name.contains(' ') {
                    refs.push(name);
                }
            }
        }
        for r in refs {
            if !defined.contains(r) && !externs.contains(r) {
                *missing.entry(r.to_string()).or_insert(0) += 1;
            }
        }
    }
    let mut names: Vec<_> = missing.into_iter().collect();
    names.sort();
    for (name, n) in names.into_iter().take(5) {
        problems.push(format!("symbol `{name}` is referenced {n} time(s) but neither defined nor declared extern"));
    }
    problems
}

/* ------------------------------ the check -------------------------------- */

pub fn check_backend(b: &BackendProgram, case: &dyn Fn(Value) -> Value, stats: &mut Stats) -> Result<(), Fail> {
    let stage = |name: &str, r: Result<Vec<String>, PanicInfo>| -> Result<(), Fail> {
        match r {
            | Err(p) => Err(Fail::new(format!("{name}-{}", p.signature()), format!("{name} to return"), p.describe())
                .with(case(json!({"stage": name})))),
            | Ok(problems) if !problems.is_empty() => Err(Fail::new(
                format!("{name}-invalid[{}]", problems[0].chars().filter(|c| !c.is_ascii_digit()).take(40).collect::<String>()),
                format!("{name}: stated IR invariants hold"),
                problems.join("; ").chars().take(600).collect::<String>(),
            )
            .with(case(json!({"stage": name})))),
            | Ok(_) => Ok(()),
        }
    };
    stage("sps-low-invariants", catch(|| validate_sps_low(&b.sps_low)))?;
    stage("assembly-invariants", catch(|| validate_assembly(&b.assembly)))?;
    stage("render-sps-low", catch(|| { let _ = b.render_sps_low(); vec![] }))?;
    stage("render-assembly", catch(|| { let _ = b.render_assembly(); vec![] }))?;
    stage("emit-amd64-linux", catch(|| validate_amd64_text(&b.emit_amd64(TargetOs::Linux))))?;
    stage("emit-amd64-macos", catch(|| { let _ = b.emit_amd64(TargetOs::Macos); vec![] }))?;
    let llvm = catch(|| b.emit_llvm(TargetArchitecture::X86_64, TargetOs::Linux));
    match llvm {
        | Err(p) => {
            return Err(Fail::new(format!("emit-llvm-{}", p.signature()), "emit_llvm to return", p.describe())
                .with(case(json!({"stage": "emit-llvm"}))));
        }
        | Ok(Ok(text)) => {
            stats.count("llvm:text-produced");
            if !text.contains("define") {
                return Err(Fail::new("emit-llvm-empty", "an LLVM module with definitions", text.chars().take(200).collect::<String>())
                    .with(case(json!({"stage": "emit-llvm"}))));
            }
        }
        | Ok(Err(CompileError::LlvmUnsupportedLocal { .. })) => stats.count("llvm:unsupported-local(documented exit)"),
        | Ok(Err(e)) => {
            return Err(Fail::new("emit-llvm-error", "LLVM text or LlvmUnsupportedLocal", format!("{e}"))
                .with(case(json!({"stage": "emit-llvm"}))));
        }
    }
    Ok(())
}

/// The two listed lowering panics (F12, F12b) concern matches that are not flat constructor matches: an arm
/// that is a catch-all next to constructor arms, or a constructor pattern nested inside another constructor,
/// a tuple or a named field.  The signature of such a panic says whether the source has that shape, so that
/// the same panic on a flat match (a new defect) is not taken for the listed one.  A pattern that opens a
/// package — `(W, +K(x))` with an upper-case witness first — counts as flat: the lowering looks through it.
pub fn lower_signature(p: &PanicInfo, source: &str) -> String {
    let sig = format!("lower-{}", p.signature());
    let known = sig.contains("Inrefutable pattern matcher must be unique") || sig.contains("Ctor patterns shou");
    if !known {
        return sig;
    }
    let toks: Vec<&str> = crate::scan::tokens(source).iter().map(|k| &source[k.start..k.end]).collect();
    let mut shape = "flat-constructor-arms-only";
    let mut i = 0;
    while i < toks.len() {
        if toks[i] == "|" {
            // pattern tokens up to the arm's `=>` (skip clauses of comatch, which start with a destructor, and
            // constructor declarations of `data`, which have `:` before any `=>`)
            let mut j = i + 1;
            let mut depth = 0i32;
            while j < toks.len() && !(depth == 0 && (toks[j] == "=>" || toks[j] == ":" || toks[j] == "|" || toks[j] == "end")) {
                match toks[j] {
                    | "(" | "{" => depth += 1,
                    | ")" | "}" => depth -= 1,
                    | _ => {}
                }
                j += 1;
            }
            if j < toks.len() && toks[j] == "=>" && j > i + 1 && !toks[i + 1].starts_with('.') {
                let pat = &toks[i + 1..j];
                let is_ctor = |t: &str| t.starts_with('+') && t.len() > 1 && !t[1..].starts_with(|c: char| c.is_ascii_digit());
                let ctors = pat.iter().filter(|t| is_ctor(t)).count();
                let catch_all = ctors == 0;
                // package-flat: ( Upper , <flat ctor pattern> )
                let package_flat = pat.len() >= 5 && pat[0] == "(" && pat[1].starts_with(|c: char| c.is_ascii_uppercase()) && pat[2] == "," && is_ctor(pat[3]) && ctors == 1;
                let nested = ctors >= 2 || (ctors == 1 && !is_ctor(pat[0]) && !package_flat);
                if catch_all || nested {
                    shape = "catch-all-or-nested-patterns";
                    break;
                }
            }
            i = j.max(i + 1);
        } else {
            i += 1;
        }
    }
    format!("{sig}#{shape}")
}

pub fn check_generated(ctx: &Ctx, tape: &[u8], cfg: &Cfg, stats: &mut Stats) -> Result<(), Fail> {
    let g = h::generate(tape, cfg);
    let names = Names::unique(&g.prog);
    let mut st = Tape::new(if tape.len() > 8 { &tape[tape.len() - 8..] } else { tape });
    let style = style_from(&mut st);
    let text = print::print_program(&ctx.repo_root, &g.prog, &names, &style);
    let dir = thread_dir(ctx);
    let (_session, analyzed) = h::write_and_analyze(&dir, &text);
    let case = |extra: Value| json!({"source": text, "info": extra});
    let Analyzed::Executable(exe, _) = analyzed else {
        stats.count("discarded:not-accepted");
        return Ok(());
    };
    stats.eval();
    match drive::lower(exe) {
        | Lowered::Panic(p) => Err(Fail::new(lower_signature(&p, &text), "lowering to return", p.describe())
            .with(case(json!({"stage": "lower"})))),
        | Lowered::Refused(why) => {
            stats.count(&format!("refused:{}", why.chars().take(40).collect::<String>()));
            Ok(())
        }
        | Lowered::Ok(b) => {
            check_backend(&b, &case, stats)?;
            stats.count("lowered");
            let interesting = ["comatch", "tuple-pattern", "destructor", "thunk", "alias-pattern", "fix-counter", "fix-codata", "fix-structural"]
                .iter()
                .any(|f| g.feats.contains_key(f));
            if interesting {
                stats.nontrivial(hash_of(&text));
                stats.sample(|| json!({"source": text[text.find("begin\n").unwrap_or(0)..].to_string()}));
            }
            Ok(())
        }
    }
}

/// Targeted shapes named by the property: binders of `fix`, alias nests, arities, empty comatch …
pub const SHAPES: &[&str] = &[
    "( ( fix ( f : Thk ( Int64 -> OS ) ) => fn ( n : Int64 ) => ! ( process / exit ) n ) 4 : OS )",
    "( ( ( fix _ => fn ( n : Int64 ) => ! ( process / exit ) n ) : Int64 -> OS ) 4 : OS )",
    "( ( ( fix ( g ; h ) => fn ( n : Int64 ) => ! ( process / exit ) n ) : Int64 -> OS ) 4 : OS )",
    "( let x : Int64 * Int64 * Int64 = ( 1 , 2 , 3 ) in let ( ( a , b , c ) ; ( d , rest ) ; whole ) : Int64 * Int64 * Int64 = x in ! ( process / exit ) d : OS )",
    "( let x : Int64 * ( Int64 * Int64 ) = ( 1 , ( 2 , 3 ) ) in let ( a , b , c ) : Int64 * Int64 * Int64 = x in ! ( process / exit ) c : OS )",
    "( let x : ( Int64 * Int64 ) * Int64 = ( ( 1 , 2 ) , 3 ) in let ( ( a , b ) , c ) : ( Int64 * Int64 ) * Int64 = x in ! ( process / exit ) b : OS )",
    "( let t : Thk ( codata end ) = { comatch end } in ! ( process / exit ) 0 : OS )",
    "( match ( () : Unit ) | () => ! ( process / exit ) 0 end : OS )",
    "( let x : Int64 * Int64 * Int64 * Int64 * Int64 * Int64 * Int64 * Int64 * Int64 = ( 1 , 2 , 3 , 4 , 5 , 6 , 7 , 8 , 9 ) in let ( a , b , c , d , e , f , g , h , i ) : Int64 * Int64 * Int64 * Int64 * Int64 * Int64 * Int64 * Int64 * Int64 = x in ! ( process / exit ) i : OS )",
    "( do x <- ( do y <- ( do z <- ( ret 1 : Ret Int64 ) ; ret z : Ret Int64 ) ; ret y : Ret Int64 ) ; ! ( process / exit ) x : OS )",
    "( let p : exists ( X : VType ) . X * Thk ( X -> Ret Int64 ) = ( Int64 , 5 , { fn ( x : Int64 ) => ret x } ) in match p | ( X , v , f ) => do r <- ! f v ; ! ( process / exit ) r end : OS )",
    "( let ( ( a ; b ) ; ( c ; ( d ; e ) ) ) : Int64 = 3 in ! ( process / exit ) e : OS )",
];

pub fn run(ctx: &Ctx) -> Report {
    let mut report = Report::new(
        "accepted executables: generated core programs (all printing styles), 12 targeted shapes (fix with annotated/\
         wildcard/alias binders, nested alias patterns, tuples of arity 3–9 in both groupings, empty comatch, unit \
         match, nested continuations, packages), and repository executables with kind-preserving token mutations that \
         check still accepts; oracle: lower/render/emit return, then an independent re-validation of the SPSLow tree \
         (closed root, blocks capture nothing but their label, unique labels, no shared node, stack lets exactly at \
         coproduct matches, product layouts), of the assembly program (jump/branch targets, symbols, variables, \
         layouts) and of the AMD64 text (every referenced label defined or extern); non-trivial = uses closures, \
         products, codata or fix; distinct by source hash",
    );
    let cfg = ctx.tier.pick(Cfg::quick(), Cfg::thorough());
    // targeted shapes
    let pre = print::prelude(&ctx.repo_root);
    let shapes: Vec<String> = SHAPES.iter().map(|s| format!("{pre}{s}\n")).collect();
    let r = run_items(ctx, "shapes", shapes, |text, stats| {
        let dir = thread_dir(ctx);
        let (_session, analyzed) = h::write_and_analyze(&dir, text);
        let case = |extra: Value| json!({"source": text, "info": extra});
        match analyzed {
            | Analyzed::Executable(exe, _) => {
                stats.eval();
                stats.nontrivial(hash_of(text));
                match drive::lower(exe) {
                    | Lowered::Panic(p) => Err(Fail::new(lower_signature(&p, text), "lowering to return", p.describe())
                        .with(case(json!({"stage": "lower"})))),
                    | Lowered::Refused(_) => Ok(()),
                    | Lowered::Ok(b) => check_backend(&b, &case, stats),
                }
            }
            | _ => {
                stats.count("shape-not-accepted");
                Ok(())
            }
        }
    });
    report.absorb(r);
    // text streams: record programs (projections) and pattern-row programs
    let text_stream = |text: &str, binder_form: bool, stats: &mut Stats| -> Result<(), Fail> {
        let dir = thread_dir(ctx);
        let (_session, analyzed) = h::write_and_analyze(&dir, text);
        let case = |extra: Value| json!({"source": text[text.find("begin\n").or_else(|| text.rfind("in\n(")).unwrap_or(0)..].to_string(), "info": extra});
        if let Analyzed::Executable(exe, _) = analyzed {
            stats.eval();
            match drive::lower(exe) {
                | Lowered::Panic(p) => {
                    // rows rendered as a fn / let / do / comatch-argument binder: a constructor pattern in a binder is
                    // the third listed shape the backend does not compile (F12c)
                    let sig = if binder_form && lower_signature(&p, text).contains('#') {
                        format!("lower-{}#constructor-pattern-in-a-binder", p.signature())
                    } else {
                        lower_signature(&p, text)
                    };
                    return Err(Fail::new(sig, "lowering to return", p.describe()).with(case(json!({"stage": "lower"}))));
                }
                | Lowered::Refused(_) => stats.count("text:refused"),
                | Lowered::Ok(b) => {
                    check_backend(&b, &case, stats)?;
                    stats.nontrivial(hash_of(text));
                }
            }
        }
        Ok(())
    };
    let cases = ctx.tier.pick(300, 10_000);
    let r = run_tapes(ctx, "records", cases, 60, |tape, stats| {
        let (text, _, _) = crate::props::records::record_program(ctx, tape);
        text_stream(&text, false, stats)
    });
    report.absorb(r);
    let cases = ctx.tier.pick(300, 10_000);
    let r = run_tapes(ctx, "patterns", cases, 120, |tape, stats| match crate::props::c19::pattern_program_with_form(ctx, tape) {
        | Some((text, is_match)) => text_stream(&text, !is_match, stats),
        | None => Ok(()),
    });
    report.absorb(r);
    let cases = ctx.tier.pick(700, 40_000);
    let t0 = std::time::Instant::now();
    let r = run_tapes(ctx, "generated", cases, 700, |tape, stats| check_generated(ctx, tape, &cfg, stats));
    report.absorb(r);
    report.extra.insert("generated_stage_s".into(), json!(t0.elapsed().as_secs_f64()));
    // corpus executables and accepted mutants
    let corpus: Vec<_> = drive::corpus_texts(&ctx.repo_root)
        .into_iter()
        .filter(|(p, _)| {
            let s = p.display().to_string();
            (s.contains("/lib/tests/") || s.contains("/docs/spell/") || s.contains("/lib/examples/")) && !s.ends_with(".zyi")
        })
        .collect();
    let cases = ctx.tier.pick(160, 20_000);
    let t1 = std::time::Instant::now();
    let corpus_ref = &corpus;
    let r = run_tapes(ctx, "corpus", cases, 24, |tape, stats| {
        let mut t = Tape::new(tape);
        let (path, text) = &corpus_ref[t.below(corpus_ref.len())];
        let mutate = t.flag();
        let (cur, descr) = if mutate { mutate_same_kind(&mut t, text) } else { (text.clone(), "none".into()) };
        let mut session = CompilerSession::default();
        if mutate {
            session.set_overlay(path, cur.clone()).ok();
        }
        let case = |extra: Value| json!({"base": path, "mutation": descr, "text": cur, "info": extra});
        if let Analyzed::Executable(exe, _) = drive::analyze_executable(&session, path) {
            stats.eval();
            match drive::lower(exe) {
                | Lowered::Panic(p) => {
                    return Err(Fail::new(lower_signature(&p, &cur), "lowering to return", p.describe())
                        .with(case(json!({"stage": "lower"}))));
                }
                | Lowered::Refused(_) => stats.count("corpus:refused"),
                | Lowered::Ok(b) => {
                    check_backend(&b, &case, stats)?;
                    stats.count(if mutate && cur != *text { "corpus-mutant:lowered" } else { "corpus:lowered" });
                    stats.nontrivial(hash_of(&cur));
                }
            }
        }
        Ok(())
    });
    report.absorb(r);
    report.extra.insert("corpus_stage_s".into(), json!(t1.elapsed().as_secs_f64()));
    report.assume("LLVM: an explicit LlvmUnsupportedLocal error is the documented `where supported` exit");
    report
}

pub fn replay(ctx: &Ctx, doc: &Value) -> Result<(), Fail> {
    let mut stats = Stats::new();
    if let Some(src) = doc["rendered"]["source"].as_str() {
        let dir = thread_dir(ctx);
        let (_s, analyzed) = h::write_and_analyze(&dir, src);
        let case = |extra: Value| json!({"source": src, "info": extra});
        if let Analyzed::Executable(exe, _) = analyzed {
            return match drive::lower(exe) {
                | Lowered::Panic(p) => Err(Fail::new(lower_signature(&p, src), "lowering to return", p.describe())),
                | Lowered::Refused(_) => Ok(()),
                | Lowered::Ok(b) => check_backend(&b, &case, &mut stats),
            };
        }
        return Ok(());
    }
    Err(Fail::new("replay-unsupported", "a source in the replay file", "none"))
}
