//! C19 — compilation to first-order stack-passing form preserves behaviour.

use crate::core::eval::REnd;
use crate::core::generate::Cfg;
use crate::core::harness as h;
use crate::core::print::{self, Names};
use crate::drive::{self, Analyzed, RunEnd};
use crate::engine::*;
use crate::props::c02::{nontrivial, style_from};
use crate::sps::{self, SEnd};
use serde_json::{Value, json};

fn ends_agree(s: &SEnd, i: &RunEnd) -> bool {
    match (s, i) {
        | (SEnd::Exit(a), RunEnd::Exit(b)) => a == b,
        | (SEnd::Trap, RunEnd::Trap(_)) => true,
        | _ => false,
    }
}

pub fn check_case(ctx: &Ctx, tape: &[u8], cfg: &Cfg, stats: &mut Stats) -> Result<(), Fail> {
    let g = h::generate(tape, cfg);
    let names = Names::unique(&g.prog);
    let mut st = Tape::new(if tape.len() > 8 { &tape[tape.len() - 8..] } else { tape });
    let style = style_from(&mut st);
    let text = print::print_program(&ctx.repo_root, &g.prog, &names, &style);
    let dir = thread_dir(ctx);
    let (session, analyzed) = h::write_and_analyze(&dir, &text);
    let case = |extra: Value| h::render_case(&text, &g.stdin, extra);
    let Analyzed::Executable(exe, _) = analyzed else {
        stats.count("discarded:not-accepted");
        return Ok(());
    };
    stats.eval();
    let irun = h::interp_run(exe, &g.stdin, 3_000_000);
    let exe2 = match drive::analyze_executable(&session, &dir.join("case.zy")) {
        | Analyzed::Executable(e, _) => e,
        | _ => return Ok(()),
    };
    let lowered = match drive::lower_to_sps(exe2) {
        | drive::LoweredSps::Ok(b) => b,
        | drive::LoweredSps::Refused(why) => {
            stats.count("discarded:lowering-refused");
            let _ = why;
            return Ok(());
        }
        | drive::LoweredSps::Panic(_) => {
            // a crash of the lowering is C18's subject
            stats.count("discarded:lowering-panic(C18)");
            return Ok(());
        }
    };
    let srun = sps::run(&lowered, &g.stdin, 20_000_000);
    match (&srun.end, &irun.end) {
        | (SEnd::OutOfFuel | SEnd::Undetermined(_), _) | (_, RunEnd::OutOfFuel) => {
            stats.inconclusive += 1;
            return Ok(());
        }
        | _ => {}
    }
    let agree = ends_agree(&srun.end, &irun.end) && srun.stdout == irun.stdout;
    if !agree {
        let sig = match &srun.end {
            | SEnd::Stuck(why) => format!("sps-stuck[{}]", why.chars().take(48).collect::<String>()),
            | _ if srun.stdout != irun.stdout => "stdout-differs".to_string(),
            | _ => "end-differs".to_string(),
        };
        // three-way: what does the source-level reference say?
        let reference = h::reference_run(&g.prog, &g.stdin, 300_000);
        return Err(Fail::new(
            sig,
            format!(
                "interpreter: {:?} stdout={:?} (source-level reference: {:?})",
                irun.end,
                String::from_utf8_lossy(&irun.stdout),
                reference.end
            ),
            format!("SPSLow machine: {:?} stdout={:?}", srun.end, String::from_utf8_lossy(&srun.stdout)),
        )
        .with(case(json!({"style": format!("{style:?}")}))));
    }
    stats.count(match srun.end {
        | SEnd::Exit(_) => "agree:exit",
        | SEnd::Trap => "agree:trap",
        | _ => "agree:other",
    });
    stats.add("sps-steps", srun.steps);
    for f in g.feats.keys() {
        stats.count(&format!("feature:{f}"));
    }
    if nontrivial(&g.feats, &srun.stdout) {
        stats.nontrivial(hash_of(&text));
        stats.sample(|| {
            json!({"source": text[text.find("begin\n").unwrap_or(0)..].to_string(),
                   "stdin": String::from_utf8_lossy(&g.stdin),
                   "stdout": String::from_utf8_lossy(&srun.stdout), "sps_steps": srun.steps})
        });
    }
    let _ = REnd::Ret;
    Ok(())
}

/// A text program (records, pattern rows): interpreter vs the SPSLow machine on the real lowering.
pub fn check_text(ctx: &Ctx, text: &str, stream: &str, stats: &mut Stats) -> Result<(), Fail> {
    let dir = thread_dir(ctx);
    let (session, analyzed) = h::write_and_analyze(&dir, text);
    let case = || json!({"stream": stream, "source": text[text.find("begin\n").or_else(|| text.rfind("in\n(")).unwrap_or(0)..].to_string()});
    let Analyzed::Executable(exe, _) = analyzed else {
        stats.count(&format!("{stream}:discarded:not-accepted"));
        return Ok(());
    };
    stats.eval();
    let irun = h::interp_run(exe, b"", 3_000_000);
    let exe2 = match drive::analyze_executable(&session, &dir.join("case.zy")) {
        | Analyzed::Executable(e, _) => e,
        | _ => return Ok(()),
    };
    let lowered = match drive::lower_to_sps(exe2) {
        | drive::LoweredSps::Ok(b) => b,
        | drive::LoweredSps::Refused(_) => {
            stats.count(&format!("{stream}:discarded:lowering-refused"));
            return Ok(());
        }
        | drive::LoweredSps::Panic(_) => {
            stats.count(&format!("{stream}:discarded:lowering-panic(C18)"));
            return Ok(());
        }
    };
    let srun = sps::run(&lowered, b"", 20_000_000);
    match (&srun.end, &irun.end) {
        | (SEnd::OutOfFuel | SEnd::Undetermined(_), _) | (_, RunEnd::OutOfFuel) => {
            stats.inconclusive += 1;
            return Ok(());
        }
        // an interpreter that goes wrong is C01's subject
        | (_, RunEnd::Stuck { .. }) => {
            stats.count(&format!("{stream}:discarded:interpreter-stuck(C01)"));
            return Ok(());
        }
        | _ => {}
    }
    if !(ends_agree(&srun.end, &irun.end) && srun.stdout == irun.stdout) {
        let sig = match &srun.end {
            | SEnd::Stuck(why) => format!("sps-stuck[{}]", why.chars().take(48).collect::<String>()),
            | _ if srun.stdout != irun.stdout => "stdout-differs".to_string(),
            | _ => "end-differs".to_string(),
        };
        return Err(Fail::new(
            sig,
            format!("interpreter: {:?} stdout={:?}", irun.end, String::from_utf8_lossy(&irun.stdout)),
            format!("SPSLow machine: {:?} stdout={:?}", srun.end, String::from_utf8_lossy(&srun.stdout)),
        )
        .with(case()));
    }
    stats.count(&format!("{stream}:agree"));
    if srun.stdout.iter().filter(|b| **b == b'\n').count() >= 2 {
        stats.nontrivial(hash_of(text));
    }
    Ok(())
}

/// Pattern-row programs of C04 (accepted ones run every enumerated value) as a text stream.
pub fn pattern_program(ctx: &Ctx, tape: &[u8]) -> Option<String> {
    pattern_program_with_form(ctx, tape).map(|x| x.0)
}

/// (program, is the row list rendered as a `match`?)
pub fn pattern_program_with_form(ctx: &Ctx, tape: &[u8]) -> Option<(String, bool)> {
    use crate::props::c04;
    let (w, types) = c04::catalogue();
    let (_tname, ty, rows, form) = c04::random_case(&w, &types, tape);
    if rows.is_empty() {
        return None;
    }
    let mut values = w.values(&ty, 3, 2000);
    if values.len() > 24 {
        let step = values.len() as f64 / 24.0;
        values = (0..24).map(|i| values[(i as f64 * step) as usize].clone()).collect();
    }
    if values.is_empty() {
        return None;
    }
    Some((c04::run_program_text(ctx, &w, &ty, &rows, form, &values).0, form == c04::Form::Match))
}

pub fn run(ctx: &Ctx) -> Report {
    let mut report = Report::new(
        "generated core OS programs (as C02) with a generated stdin; the SpsLowProgram produced by the real lowering \
         is run by an independent first-order SPS machine with the host model and compared (stdout bytes, exit code / \
         trap) with the interpreter's run of the same source; plus two text streams run the same way: record programs (nested named products, every projection) and pattern-row programs (C04's rows applied to every enumerated value); non-trivial as C02; distinct by source hash",
    );
    let cfg = ctx.tier.pick(Cfg::quick(), Cfg::thorough());
    let cases = ctx.tier.pick(2_500, 60_000);
    let r = run_tapes(ctx, "generated", cases, 700, |tape, stats| check_case(ctx, tape, &cfg, stats));
    report.absorb(r);
    let cases = ctx.tier.pick(800, 20_000);
    let r = run_tapes(ctx, "records", cases, 60, |tape, stats| {
        let (text, _, _) = crate::props::records::record_program(ctx, tape);
        check_text(ctx, &text, "records", stats)
    });
    report.absorb(r);
    let cases = ctx.tier.pick(800, 20_000);
    let r = run_tapes(ctx, "patterns", cases, 120, |tape, stats| match pattern_program(ctx, tape) {
        | Some(text) => check_text(ctx, &text, "patterns", stats),
        | None => Ok(()),
    });
    report.absorb(r);
    report.assume("M-sps (harness/src/sps.rs) implements the semantics documented for SPSLow; it reads the repo's arena types but shares no evaluation code");
    report.assume("the property stops at SPSLow: assembly and AMD64 text are not executed (no nasm/runtime offline)");
    report
}

pub fn replay(ctx: &Ctx, doc: &Value) -> Result<(), Fail> {
    let tape = unhex(doc["tape_hex"].as_str().unwrap_or(""));
    let mut stats = Stats::new();
    if doc["stage"] == "records" {
        let (text, _, _) = crate::props::records::record_program(ctx, &tape);
        return check_text(ctx, &text, "records", &mut stats);
    }
    if doc["stage"] == "patterns" {
        return match pattern_program(ctx, &tape) {
            | Some(text) => check_text(ctx, &text, "patterns", &mut stats),
            | None => Ok(()),
        };
    }
    check_case(ctx, &tape, &Cfg::quick(), &mut stats)?;
    check_case(ctx, &tape, &Cfg::thorough(), &mut stats)
}
