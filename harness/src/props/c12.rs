//! C12 — formatting is total and preserves the meaning of the program.

use crate::drive::{self, FmtOutcome};
use crate::engine::*;
use crate::props::fmt::{self as f, Bases};
use serde_json::{Value, json};

pub fn check_text(text: &str, origin: &Value, stats: &mut Stats) -> Result<Option<String>, Fail> {
    stats.eval();
    let case = || json!({"origin": origin, "text": text});
    match drive::format_text(text) {
        | FmtOutcome::Panic(p) => Err(Fail::new(format!("fmt-{}", p.signature()), "the formatter to return", p.describe()).with(case())),
        | FmtOutcome::ParseError(_) => {
            stats.count("unparseable(error reported)");
            Ok(None)
        }
        | FmtOutcome::Timeout => {
            stats.inconclusive += 1;
            stats.count("watchdog(8s): inconclusive");
            Ok(None)
        }
        | FmtOutcome::Ok(out) => {
            // (2) output parses
            if let drive::ParseOutcome::Rejected(m) | drive::ParseOutcome::Panic(crate::engine::PanicInfo { msg: m, .. }) = drive::parse_unit(&out) {
                return Err(Fail::new("fmt-output-does-not-parse", "formatted output parses again", format!("{}\n--- output ---\n{}", m.chars().take(300).collect::<String>(), out.chars().take(600).collect::<String>())).with(case()));
            }
            // (3) same desugared structure and directive payloads
            let a = drive::desugar_dump(text);
            let b = drive::desugar_dump(&out);
            if a != b {
                let (sa, sb) = (a.unwrap_or_else(|e| e), b.unwrap_or_else(|e| e));
                let la: Vec<&str> = sa.lines().collect();
                let lb: Vec<&str> = sb.lines().collect();
                return Err(Fail::new(
                    "fmt-changes-structure",
                    "identical structure after desugaring (and identical directive payloads)",
                    format!("{}\n--- output ---\n{}", f::first_diff(&la, &lb), out.chars().take(500).collect::<String>()),
                )
                .with(case()));
            }
            stats.count("formatted");
            Ok(Some(out))
        }
    }
}

pub fn run(ctx: &Ctx) -> Report {
    let mut report = Report::new(
        "parseable sources: every repository source, generated surface terms over the whole grammar, generated core \
         programs; mutated by re-layout (4 modes), 1–4 comments of 10 kinds at token gaps (biased to unconventional \
         gaps), redundant parentheses around literals, and `@[format(width|indent|layout|parentheses|verbatim)]` \
         directives at the root and at nested term positions (widths 1…200, indents 1…8); oracle: render returns, \
         output parses, desugared structure and directive payloads (imports, literal text, documentation, unattached \
         blocks) identical; unparseable inputs must be reported, and through the CLI leave the file unchanged; \
         non-trivial = case with a directive, or a comment in an unconventional gap; distinct by text hash",
    );
    let bases = Bases::load(ctx);
    // every corpus file under 12 option sets
    let mut items = vec![];
    for (i, _) in bases.corpus.iter().enumerate() {
        let sets: &[&str] = if ctx.tier == Tier::Quick {
            &["", "@[format(width(13), indent(4))]", "@[format(width(200), parentheses(preserve), layout(blank_lines))]"]
        } else {
            &["", "@[format(width(1))]", "@[format(width(13), indent(4))]", "@[format(width(40), layout(ignore))]", "@[format(width(200), parentheses(preserve))]", "@[format(layout(blank_lines), indent(1))]", "@[format(width(79))]", "@[format(width(3), layout(ignore), parentheses(minimal))]"]
        };
        for w in sets.iter().copied() {
            items.push((i, w));
        }
    }
    let bases_ref = &bases;
    let r = run_items(ctx, "corpus-options", items, |(i, w), stats| {
        let (p, s) = &bases_ref.corpus[*i];
        let text = if w.is_empty() { s.clone() } else { format!("{w} {s}") };
        check_text(&text, &json!({"base": p, "directive": w}), stats)?;
        if !w.is_empty() {
            stats.nontrivial(hash_of(&text));
        }
        Ok(())
    });
    report.absorb(r);
    let cases = ctx.tier.pick(3_000, 150_000);
    let r = run_tapes(ctx, "mutated", cases, 500, |tape, stats| {
        let c = f::gen_case(ctx, bases_ref, tape);
        if let Some(out) = check_text(&c.text, &c.origin, stats)? {
            if c.has_directive || c.odd_comment {
                stats.nontrivial(hash_of(&c.text));
                stats.sample(|| json!({"origin": c.origin, "input": c.text.chars().take(400).collect::<String>(), "output": out.chars().take(400).collect::<String>()}));
            }
        }
        Ok(())
    });
    report.absorb(r);
    // CLI tier: unparseable file is left byte-identical with a non-zero exit; parseable file gets the in-process text
    let dir = ctx.fresh_dir("c12cli");
    let mut cli_items = vec![];
    for (k, junk) in ["ret 1 -/ x", "let x = in", "(((", "ret \"unterminated", "match x | end end", ""].iter().enumerate() {
        cli_items.push((format!("bad{k}.zy"), junk.to_string(), false));
    }
    for (k, (_, s)) in bases.corpus.iter().enumerate().step_by(ctx.tier.pick(9, 2)) {
        cli_items.push((format!("good{k}.zy"), format!("@[format(width(33))] {s}"), true));
    }
    let r = run_items(ctx, "cli", cli_items, |(name, text, parseable), stats| {
        stats.eval();
        let path = dir.join(name);
        std::fs::write(&path, text).unwrap();
        let (code, _out, err) = f::run_cli(ctx, &["fmt", path.to_str().unwrap()], b"");
        let after = std::fs::read_to_string(&path).unwrap_or_default();
        let case = json!({"file": name, "text": text.chars().take(300).collect::<String>()});
        if *parseable {
            let expect = match drive::format_text(text) {
                | FmtOutcome::Ok(s) => s,
                | _ => return Ok(()),
            };
            if code != 0 || after != expect {
                return Err(Fail::new("cli-fmt-differs", "exit 0 and the in-process formatted text written", format!("exit {code}; file differs from in-process output: {}", after != expect)).with(case));
            }
            stats.nontrivial(hash_of(text));
        } else {
            if matches!(drive::parse_unit(text), drive::ParseOutcome::Ok(_)) {
                return Ok(());
            }
            if code == 0 || &after != text || err.is_empty() {
                return Err(Fail::new("cli-fmt-unparseable", "non-zero exit, an error on stderr, file byte-for-byte unchanged", format!("exit {code}; changed: {}; stderr empty: {}", &after != text, err.is_empty())).with(case));
            }
            stats.nontrivial(hash_of(text));
        }
        Ok(())
    });
    report.absorb(r);
    report.assume("structure is compared through the repository's own bitter `ugly` rendering of both sides (a metamorphic relation: the same function is applied to input and output)");
    report
}

pub fn replay(_ctx: &Ctx, doc: &Value) -> Result<(), Fail> {
    let text = doc["rendered"]["text"].as_str().unwrap_or("");
    let mut stats = Stats::new();
    check_text(text, &doc["rendered"]["origin"], &mut stats).map(|_| ())
}
