//! C06 — every host operation honours its declared type and contract.

use crate::core::harness as h;
use crate::core::print;
use crate::drive::{self, Analyzed, Invoked, RoleArg, RunEnd};
use crate::engine::*;
use crate::hmodel::{self, HOut, HV, HostIo, INT_TYS, IntTy, ParseVerdict};
use serde_json::{Value, json};
use std::path::{Path, PathBuf};
use zydeco_syntax::{BuiltinValueRole as Role, FloatOperation, FloatType, IntegerOperation, IntegerType};

/// Host symbol of a role, by the harness's own table (explicit match on the enum variants).
pub fn model_name(role: Role) -> String {
    let int = |t: IntegerType| match t {
        | IntegerType::Int8 => "int8",
        | IntegerType::Int16 => "int16",
        | IntegerType::Int32 => "int32",
        | IntegerType::Int64 => "int64",
        | IntegerType::UInt8 => "uint8",
        | IntegerType::UInt16 => "uint16",
        | IntegerType::UInt32 => "uint32",
        | IntegerType::UInt64 => "uint64",
    };
    match role {
        | Role::Integer(t, o) => format!(
            "{}_{}",
            int(t),
            match o {
                | IntegerOperation::Add => "add",
                | IntegerOperation::Sub => "sub",
                | IntegerOperation::Mul => "mul",
                | IntegerOperation::Div => "div",
                | IntegerOperation::Mod => "mod",
                | IntegerOperation::Eq => "eq_branch",
                | IntegerOperation::Lt => "lt_branch",
                | IntegerOperation::Gt => "gt_branch",
                | IntegerOperation::ToString => "to_string",
            }
        ),
        | Role::Float(t, o) => format!(
            "{}_{}",
            match t {
                | FloatType::Float32 => "float32",
                | FloatType::Float64 => "float64",
            },
            match o {
                | FloatOperation::Add => "add",
                | FloatOperation::Sub => "sub",
                | FloatOperation::Mul => "mul",
                | FloatOperation::Div => "div",
                | FloatOperation::Eq => "eq_branch",
                | FloatOperation::Lt => "lt_branch",
                | FloatOperation::Gt => "gt_branch",
                | FloatOperation::ToString => "to_string",
            }
        ),
        | Role::StrScalarLength => "str_scalar_length".into(),
        | Role::StrByteLength => "str_byte_length".into(),
        | Role::StrAppend => "str_append".into(),
        | Role::StrSplitOnce => "str_split_once_branch".into(),
        | Role::StrSplitAt => "str_split_at_branch".into(),
        | Role::StrEq => "str_eq_branch".into(),
        | Role::StrGet => "str_get_branch".into(),
        | Role::CharToStr => "char_to_str".into(),
        | Role::CharCodepoint => "char_codepoint".into(),
        | Role::CharFromCodepoint => "char_from_codepoint_branch".into(),
        | Role::StrParseInt => "str_parse_int_branch".into(),
        | Role::BytesEmpty => "bytes_empty".into(),
        | Role::BytesLength => "bytes_length".into(),
        | Role::BytesAppend => "bytes_append".into(),
        | Role::BytesFromStr => "bytes_from_str".into(),
        | Role::BytesToStr => "bytes_to_str_branch".into(),
        | Role::Stdin => "stdin".into(),
        | Role::Stdout => "stdout".into(),
        | Role::Stderr => "stderr".into(),
        | Role::IoRead => "io_read".into(),
        | Role::IoReadLine => "io_read_line".into(),
        | Role::IoReadAll => "io_read_all".into(),
        | Role::IoWriteAll => "io_write_all".into(),
        | Role::IoFlush => "io_flush".into(),
        | Role::IoCloseReader => "io_close_reader".into(),
        | Role::IoCloseWriter => "io_close_writer".into(),
        | Role::FsOpenReader => "fs_open_reader".into(),
        | Role::FsCreateWriter => "fs_create_writer".into(),
        | Role::FsAppendWriter => "fs_append_writer".into(),
        | Role::WriteStr => "write_str".into(),
        | Role::WriteInt => "write_int".into(),
        | Role::WriteLine => "write_line".into(),
        | Role::ReadLine => "read_line".into(),
        | Role::ReadLineAsInt => "read_line_as_int_branch".into(),
        | Role::ReadTillEof => "read_till_eof".into(),
        | Role::ArgList => "arg_fold".into(),
        | Role::RandomInt => "random_int".into(),
        | Role::Exit => "exit".into(),
    }
}

/* --------------------------- (a) direct invocation ------------------------ */

const STRS: &[&str] = &[
    "", "a", "abc", "héllo", "日本語テキスト", "𝄞𝄞", "e\u{301}", "a,b,c", "x=1;y=2", " lead", "tail ", "\n", "tab\t", "0",
    "🙂 smile", "ß",
];

fn gen_string(t: &mut Tape) -> String {
    if t.chance(150) {
        return t.pick(STRS).to_string();
    }
    let n = t.below(12);
    let mut s = String::new();
    for _ in 0..n {
        let c = match t.below(6) {
            | 0 => char::from(b'a' + t.below(26) as u8),
            | 1 => char::from_u32(0x80 + t.below(0x700) as u32).unwrap_or('é'),
            | 2 => char::from_u32(0x4e00 + t.below(0x1000) as u32).unwrap_or('日'),
            | 3 => char::from_u32(0x1f600 + t.below(0x40) as u32).unwrap_or('🙂'),
            | 4 => [' ', ',', ';', '=', '\n', '0', '-'][t.below(7)],
            | _ => char::from(b'0' + t.below(10) as u8),
        };
        s.push(c);
    }
    s
}

fn gen_index(t: &mut Tape, s: &str) -> i128 {
    let n = s.chars().count() as i128;
    match t.below(10) {
        | 0 => -1,
        | 1 => 0,
        | 2 => n - 1,
        | 3 => n,
        | 4 => n + 1,
        | 5 => i64::MIN as i128,
        | 6 => i64::MAX as i128,
        | 7 => s.len() as i128,
        | _ => t.below(14) as i128 - 1,
    }
}

fn gen_numeric_string(t: &mut Tape) -> String {
    match t.below(16) {
        | 0 => "".into(),
        | 1 => "0".into(),
        | 2 => "-0".into(),
        | 3 => "+5".into(),
        | 4 => "007".into(),
        | 5 => " 42".into(),
        | 6 => "42 ".into(),
        | 7 => "9223372036854775807".into(),
        | 8 => "9223372036854775808".into(),
        | 9 => "-9223372036854775808".into(),
        | 10 => "-9223372036854775809".into(),
        | 11 => "12a".into(),
        | 12 => "१२३".into(),
        | 13 => "-".into(),
        | 14 => format!("{}", t.u64() as i64),
        | _ => format!("{}", t.below(1000)),
    }
}

fn gen_bytes(t: &mut Tape) -> Vec<u8> {
    match t.below(6) {
        | 0 => vec![],
        | 1 => gen_string(t).into_bytes(),
        | 2 => vec![0xff, 0xfe],
        | 3 => vec![0xc3, 0x28],
        | 4 => vec![0xe2, 0x82],
        | _ => (0..t.below(10)).map(|_| t.byte()).collect(),
    }
}

fn compare(role: Role, args: &[RoleArg], model: &HOut, got: &Invoked, out: &[u8], model_out: &[u8]) -> Result<(), (String, String)> {
    let name = model_name(role);
    let ok = match (model, got) {
        | (HOut::Ret(v), Invoked::Ret(g)) => v == g,
        | (HOut::Select(pos, vals), Invoked::Select(k, gvals)) => {
            pos == k && vals.len() == gvals.len() && vals.iter().zip(gvals.iter()).all(|(v, g)| matches!(g, Invoked::Ret(x) if x == v))
        }
        | (HOut::Exit(c), Invoked::Exit(g)) => c == g,
        | (HOut::Trap, Invoked::Panic { msg, .. }) => msg.contains("divide by zero") || msg.contains("divisor of zero"),
        | (HOut::Undetermined(_), Invoked::Select(..) | Invoked::Ret(_)) => true,
        | _ => false,
    };
    if !ok {
        return Err((format!("role-{name}"), format!("model: {model:?}; interpreter: {got:?}; args {args:?}")));
    }
    if out != model_out {
        return Err((format!("role-{name}-output"), format!("model wrote {model_out:?}; interpreter wrote {out:?}")));
    }
    Ok(())
}

/// Generate an argument tuple from the role's declared classifier.
fn gen_args(role: Role, t: &mut Tape) -> Option<(Vec<RoleArg>, Vec<u8>)> {
    let s = |x: String| RoleArg::Val(HV::Str(x));
    let i = |x: i128| RoleArg::Val(HV::Int(IntTy::I64, x));
    let mut stdin = vec![];
    let args = match role {
        | Role::StrScalarLength | Role::StrByteLength | Role::BytesFromStr => vec![s(gen_string(t))],
        | Role::StrAppend => vec![s(gen_string(t)), s(gen_string(t))],
        | Role::StrSplitOnce => {
            let st = gen_string(t);
            let sep = if t.flag() { st.chars().nth(t.below(st.chars().count().max(1))).unwrap_or(',') } else { [',', ';', '=', 'x', '語'][t.below(5)] };
            vec![s(st), RoleArg::Val(HV::Char(sep)), RoleArg::Kont(2), RoleArg::Kont(3)]
        }
        | Role::StrSplitAt | Role::StrGet => {
            let st = gen_string(t);
            let idx = gen_index(t, &st);
            vec![s(st), i(idx), RoleArg::Kont(2), RoleArg::Kont(3)]
        }
        | Role::StrEq => {
            let a = gen_string(t);
            let b = if t.flag() { a.clone() } else { gen_string(t) };
            vec![s(a), s(b), RoleArg::Kont(2), RoleArg::Kont(3)]
        }
        | Role::CharToStr | Role::CharCodepoint => {
            let c = gen_string(t).chars().next().unwrap_or('q');
            vec![RoleArg::Val(HV::Char(c))]
        }
        | Role::CharFromCodepoint => {
            let cp: i128 = match t.below(12) {
                | 0 => -1,
                | 1 => 0,
                | 2 => 0x7f,
                | 3 => 0xd7ff,
                | 4 => 0xd800,
                | 5 => 0xdfff,
                | 6 => 0xe000,
                | 7 => 0x10ffff,
                | 8 => 0x110000,
                | 9 => i64::MAX as i128,
                | 10 => i64::MIN as i128,
                | _ => t.below(0x2000) as i128,
            };
            vec![i(cp), RoleArg::Kont(1), RoleArg::Kont(2)]
        }
        | Role::StrParseInt => vec![s(gen_numeric_string(t)), RoleArg::Kont(1), RoleArg::Kont(2)],
        | Role::BytesEmpty => vec![],
        | Role::BytesLength => vec![RoleArg::Val(HV::Bytes(gen_bytes(t)))],
        | Role::BytesAppend => vec![RoleArg::Val(HV::Bytes(gen_bytes(t))), RoleArg::Val(HV::Bytes(gen_bytes(t)))],
        | Role::BytesToStr => vec![RoleArg::Val(HV::Bytes(gen_bytes(t))), RoleArg::Kont(1), RoleArg::Kont(2)],
        | Role::WriteStr | Role::WriteLine => vec![s(gen_string(t)), RoleArg::Kont(1)],
        | Role::WriteInt => vec![i(t.u64() as i64 as i128), RoleArg::Kont(1)],
        | Role::ReadLine | Role::ReadTillEof => {
            stdin = format!("{}\n{}", gen_string(t).replace('\n', " "), gen_string(t)).into_bytes();
            vec![RoleArg::Kont(0)]
        }
        | Role::ReadLineAsInt => {
            stdin = format!("{}\nrest", gen_numeric_string(t)).into_bytes();
            vec![RoleArg::Kont(0), RoleArg::Kont(1)]
        }
        | Role::Exit => vec![i([0i128, 1, 255, 256, -1, i64::MAX as i128, i64::MIN as i128, 42][t.below(8)])],
        | _ => return None,
    };
    Some((args, stdin))
}

fn to_model_args(args: &[RoleArg]) -> Vec<HV> {
    args.iter()
        .map(|a| match a {
            | RoleArg::Val(v) => v.clone(),
            | RoleArg::Bytes(b) => HV::Bytes(b.clone()),
            | RoleArg::Kont(_) => HV::Opaque,
        })
        .collect()
}

fn check_direct(role: Role, tape: &[u8], stats: &mut Stats) -> Result<(), Fail> {
    let mut t = Tape::new(tape);
    let Some((args, stdin)) = gen_args(role, &mut t) else { return Ok(()) };
    stats.eval();
    let name = model_name(role);
    let mut io = HostIo::new(&stdin);
    let model = hmodel::host_call(&name, &to_model_args(&args), &mut io)
        .map_err(|e| Fail::new("harness-model-error", "the model to accept its own generated tuple", e))?;
    let (got, out) = drive::invoke_role(role, &args, &stdin, &[]);
    // grey zone of parse: a `some` must carry the mathematical value
    if let (HOut::Undetermined(_), Invoked::Select(_, gv)) = (&model, &got) {
        if let (Some(RoleArg::Val(HV::Str(s))), Some(Invoked::Ret(HV::Int(_, n)))) = (args.first(), gv.first()) {
            if let ParseVerdict::Either(v) = hmodel::parse_int_contract(s) {
                if *n != v as i128 {
                    return Err(Fail::new(format!("role-{name}-greyzone"), format!("some {v} or none"), format!("{got:?}"))
                        .with(json!({"role": name, "args": format!("{args:?}")})));
                }
            }
        }
    }
    if let Err((sig, obs)) = compare(role, &args, &model, &got, &out, &io.out) {
        return Err(Fail::new(sig, "agreement with the host model (declared type and contract)", obs)
            .with(json!({"role": name, "args": format!("{args:?}"), "stdin": String::from_utf8_lossy(&stdin)})));
    }
    // classification of the tuple for the evidence
    let class = match &model {
        | HOut::Select(p, v) => format!("{name}:select{p}/{}", v.len()),
        | HOut::Ret(_) => format!("{name}:ret"),
        | HOut::Exit(_) => format!("{name}:exit"),
        | _ => format!("{name}:other"),
    };
    stats.count(&format!("branch:{class}"));
    let distinguishing = args.iter().any(|a| matches!(a, RoleArg::Val(HV::Str(s)) if !s.is_ascii()))
        || matches!(model, HOut::Select(..));
    if distinguishing {
        stats.nontrivial(hash_of(&(name.as_str(), format!("{args:?}"))));
    }
    stats.sample(|| json!({"role": name, "args": format!("{args:?}"), "model": format!("{model:?}")}));
    Ok(())
}

/// The four tables must agree: role arity (syntax), Stack-IR builtin arity and call mode, host model.
fn check_tables(stats: &mut Stats) -> Result<(), Fail> {
    let builtins = zydeco_stackir::Builtin::all();
    for role in Role::all() {
        stats.eval();
        let name = model_name(role);
        let want = hmodel::host_arity(&name);
        if want != Some(role.arity()) {
            return Err(Fail::new(format!("arity-table-{name}"), format!("{want:?} arguments (declared source type)"), format!("BuiltinValueRole::arity = {}", role.arity()))
                .with(json!({"role": name})));
        }
        if role.host_name() != name {
            return Err(Fail::new(format!("host-name-{name}"), name.clone(), role.host_name()).with(json!({"role": name})));
        }
        match builtins.get(&name) {
            | None => return Err(Fail::new(format!("stackir-table-{name}"), "a Stack IR builtin entry", "missing").with(json!({"role": name}))),
            | Some(b) => {
                if Some(b.arity) != want {
                    return Err(Fail::new(format!("stackir-arity-{name}"), format!("{want:?}"), format!("{}", b.arity)).with(json!({"role": name})));
                }
            }
        }
        if Role::from_source_name(&role.source_name()) != Some(role) {
            return Err(Fail::new(format!("source-name-{name}"), "from_source_name(source_name(r)) == r", role.source_name()).with(json!({"role": name})));
        }
        stats.nontrivial(hash_of(&name));
    }
    Ok(())
}

/* ------------------- (b) caller programs through the package -------------- */

struct Call {
    code: String,
    expect: String,
}

fn q(s: &str) -> String {
    print::escape_str(s)
}

/// One call of a pure text role at its declared type, printing what it continued with.
fn gen_call(t: &mut Tape, k: &str) -> Option<Call> {
    let pr = |label: &str| format!("! ( stdio / write_line ) {} {{ {k} }}", q(label));
    let role = [
        Role::StrScalarLength, Role::StrByteLength, Role::StrAppend, Role::StrSplitOnce, Role::StrSplitAt, Role::StrEq,
        Role::StrGet, Role::CharCodepoint, Role::CharFromCodepoint, Role::StrParseInt, Role::BytesToStr, Role::BytesLength,
    ][t.below(12)];
    let (args, _) = gen_args(role, t)?;
    // char literals only cover printable ASCII: restrict where a Char argument is needed
    let name = model_name(role);
    let mut io = HostIo::new(b"");
    let model = hmodel::host_call(&name, &to_model_args(&args), &mut io).ok()?;
    let sarg = |i: usize| match &args[i] {
        | RoleArg::Val(HV::Str(s)) => q(s),
        | RoleArg::Val(HV::Int(_, n)) => format!("{n}"),
        | RoleArg::Val(HV::Char(c)) => print::escape_char(*c),
        | _ => "()".into(),
    };
    let show_int = |v: &str, k2: &str| format!("do s_ <- ! ( int64 / to_string ) {v} ; ! ( stdio / write_line ) s_ {{ {k2} }}");
    let (code, expect) = match (role, &model) {
        | (Role::StrScalarLength, HOut::Ret(HV::Int(_, n))) => (format!("do n_ <- ! ( string / length ) {} ; {}", sarg(0), show_int("n_", k)), format!("{n}\n")),
        | (Role::StrByteLength, HOut::Ret(HV::Int(_, n))) => (format!("do n_ <- ! ( string / byte_length ) {} ; {}", sarg(0), show_int("n_", k)), format!("{n}\n")),
        | (Role::StrAppend, HOut::Ret(HV::Str(r))) => (format!("do r_ <- ! ( string / append ) {} {} ; ! ( stdio / write_line ) r_ {{ {k} }}", sarg(0), sarg(1)), format!("{r}\n")),
        | (Role::StrEq, HOut::Select(p, _)) => (format!("! ( string / eq ) OS {} {} {{ {} }} {{ {} }}", sarg(0), sarg(1), pr("eq"), pr("ne")), if *p == 2 { "eq\n".into() } else { "ne\n".into() }),
        | (Role::StrGet, m) => {
            let code = format!("! ( string / get ) OS {} {} {{ {} }} {{ fn ( c_ : Char ) => do s_ <- ! ( char / to_string ) c_ ; ! ( stdio / write_line ) s_ {{ {k} }} }}", sarg(0), sarg(1), pr("none"));
            let exp = match m {
                | HOut::Select(3, v) => match &v[0] { | HV::Char(c) => format!("{c}\n"), | _ => return None },
                | _ => "none\n".into(),
            };
            (code, exp)
        }
        | (Role::StrSplitAt, m) => {
            let code = format!("! ( string / split_at ) OS {} {} {{ {} }} {{ fn ( a_ : String ) ( b_ : String ) => ! ( stdio / write_line ) a_ {{ ! ( stdio / write_line ) b_ {{ {k} }} }} }}", sarg(0), sarg(1), pr("none"));
            let exp = match m {
                | HOut::Select(3, v) => match (&v[0], &v[1]) { | (HV::Str(a), HV::Str(b)) => format!("{a}\n{b}\n"), | _ => return None },
                | _ => "none\n".into(),
            };
            (code, exp)
        }
        | (Role::StrSplitOnce, m) => {
            if !matches!(&args[1], RoleArg::Val(HV::Char(c)) if (' '..='~').contains(c)) {
                return None;
            }
            let code = format!("! ( string / split_once ) OS {} {} {{ {} }} {{ fn ( a_ : String ) ( b_ : String ) => ! ( stdio / write_line ) a_ {{ ! ( stdio / write_line ) b_ {{ {k} }} }} }}", sarg(0), sarg(1), pr("none"));
            let exp = match m {
                | HOut::Select(3, v) => match (&v[0], &v[1]) { | (HV::Str(a), HV::Str(b)) => format!("{a}\n{b}\n"), | _ => return None },
                | _ => "none\n".into(),
            };
            (code, exp)
        }
        | (Role::CharCodepoint, HOut::Ret(HV::Int(_, n))) => {
            if !matches!(&args[0], RoleArg::Val(HV::Char(c)) if (' '..='~').contains(c)) {
                return None;
            }
            (format!("do n_ <- ! ( char / codepoint ) {} ; {}", sarg(0), show_int("n_", k)), format!("{n}\n"))
        }
        | (Role::CharFromCodepoint, m) => {
            let code = format!("! ( char / from_codepoint ) OS {} {{ {} }} {{ fn ( c_ : Char ) => do n_ <- ! ( char / codepoint ) c_ ; {} }}", sarg(0), pr("none"), show_int("n_", k));
            let exp = match m {
                | HOut::Select(2, v) => match &v[0] { | HV::Char(c) => format!("{}\n", *c as u32), | _ => return None },
                | _ => "none\n".into(),
            };
            (code, exp)
        }
        | (Role::StrParseInt, m) => {
            let code = format!("! ( string / parse_int ) OS {} {{ {} }} {{ fn ( n_ : Int64 ) => {} }}", sarg(0), pr("none"), show_int("n_", k));
            let exp = match m {
                | HOut::Select(2, v) => match &v[0] { | HV::Int(_, n) => format!("{n}\n"), | _ => return None },
                | HOut::Undetermined(_) => return None,
                | _ => "none\n".into(),
            };
            (code, exp)
        }
        | (Role::BytesToStr | Role::BytesLength, _) => {
            // bytes are built from a string literal (valid UTF-8 by construction) and round-tripped
            let s0 = gen_string(t);
            let code = format!("do b_ <- ! ( bytes / from_string ) {} ; do e_ <- ! ( bytes / empty ) ; do b2_ <- ! ( bytes / append ) b_ e_ ; do n_ <- ! ( bytes / length ) b2_ ; do s_ <- ! ( int64 / to_string ) n_ ; ! ( stdio / write_line ) s_ {{ ! ( bytes / to_string ) OS b2_ {{ {} }} {{ fn ( r_ : String ) => ! ( stdio / write_line ) r_ {{ {k} }} }} }}", q(&s0), pr("invalid"));
            (code, format!("{}\n{}\n", s0.len(), s0))
        }
        | _ => return None,
    };
    Some(Call { code, expect })
}

fn check_callers(ctx: &Ctx, tape: &[u8], stats: &mut Stats) -> Result<(), Fail> {
    let mut t = Tape::new(tape);
    // build a chain of calls from the inside out
    let n = 4 + t.below(8);
    let mut code = "! ( process / exit ) 0".to_string();
    let mut expects: Vec<String> = vec![];
    for _ in 0..n {
        // the continuation is bound once as a thunk: branches share it instead of duplicating it
        if let Some(c) = gen_call(&mut t, "! k_") {
            code = format!("let k_ : Thk OS = {{ {code} }} in {}", c.code);
            expects.push(c.expect);
        }
    }
    expects.reverse();
    let expect: String = expects.concat();
    let text = format!("{}( {code} : OS )\n", print::prelude(&ctx.repo_root));
    let dir = thread_dir(ctx);
    let (_s, analyzed) = h::write_and_analyze(&dir, &text);
    let case = json!({"source": format!("( {code} : OS )"), "expected_stdout": expect});
    stats.eval();
    match analyzed {
        | Analyzed::Executable(exe, _) => {
            let run = h::interp_run(exe, b"", 2_000_000);
            let got = String::from_utf8_lossy(&run.stdout).to_string();
            if run.end != RunEnd::Exit(0) || got != expect {
                return Err(Fail::new("caller-program-output", format!("Exit(0) printing {expect:?}"), format!("{:?} printing {got:?}", run.end)).with(case));
            }
            stats.nontrivial(hash_of(&code));
            stats.sample(|| case.clone());
            Ok(())
        }
        | Analyzed::NotAccepted(front) => Err(Fail::new(
            "caller-program-rejected",
            "a call at the declared type of the standard signature to be accepted",
            format!("{:?}", front.kinds.iter().take(2).collect::<Vec<_>>()),
        )
        .with(case)),
        | Analyzed::AcceptedOther(_, why) => Err(Fail::new("caller-program-not-executable", "an executable", why).with(case)),
        | Analyzed::Panic(p) => Err(Fail::new(format!("caller-{}", p.signature()), "analysis to return", p.describe()).with(case)),
    }
}

/* ---------------------- (b2) I/O scenarios with a file model -------------- */

#[derive(Clone, Debug)]
enum IoOp {
    Create(usize, usize),      // path index, handle slot
    Append(usize, usize),
    Write(usize, String),      // handle slot, text
    Flush(usize),
    CloseW(usize),
    Open(usize, usize),        // path index, reader slot
    ReadAll(usize),
    Read(usize, i128),
    ReadLine(usize),
    CloseR(usize),
}

const KIND_NOT_FOUND: i64 = 0;
const KIND_INVALID_INPUT: i64 = 3;
const KIND_CLOSED: i64 = 6;
const KIND_OTHER: i64 = 7;

struct FsModel {
    /// file contents by path index; None = absent
    files: Vec<Option<Vec<u8>>>,
    /// path kinds: 0,1 regular candidates; 2 = in a missing directory; 3 = an existing directory
    writers: Vec<Option<(usize, bool)>>, // open? (path, append)
    readers: Vec<Option<(usize, usize)>>, // (path, position)
    out: String,
}

/// what scenarios write: text with and without line ends, empty lines in the middle, CRLF, nothing
const IO_TEXTS: &[&str] = &["hello\n", "ünï", "", "line1\nline2\r\nlast", "x", "\n", "a\n\nb\n", "\r\nz", "\n\n"];

fn io_scenario(t: &mut Tape) -> Vec<IoOp> {
    let n = 3 + t.below(9);
    let mut ops = vec![];
    if t.chance(170) {
        // a coherent story first: write a file, close it, read it back in pieces
        let p = t.below(2);
        let ws = t.below(2);
        let rs = t.below(2);
        ops.push(if t.flag() { IoOp::Create(p, ws) } else { IoOp::Append(p, ws) });
        for _ in 0..1 + t.below(3) {
            ops.push(IoOp::Write(ws, IO_TEXTS[t.below(IO_TEXTS.len())].to_string()));
        }
        if t.flag() {
            ops.push(IoOp::Flush(ws));
        }
        ops.push(IoOp::CloseW(ws));
        ops.push(IoOp::Open(p, rs));
        for _ in 0..1 + t.below(4) {
            ops.push(match t.below(4) {
                | 0 | 3 => IoOp::ReadLine(rs),
                | 1 => IoOp::Read(rs, [0i128, 1, 3, 100, -1][t.below(5)]),
                | _ => IoOp::ReadAll(rs),
            });
        }
        if t.flag() {
            ops.push(IoOp::CloseR(rs));
            ops.push(IoOp::ReadLine(rs));
        }
    }
    for _ in 0..n {
        let p = t.below(4);
        let slot = t.below(2);
        ops.push(match t.below(10) {
            | 0 => IoOp::Create(p, slot),
            | 1 => IoOp::Append(p, slot),
            | 2 | 3 => IoOp::Write(slot, IO_TEXTS[t.below(IO_TEXTS.len())].to_string()),
            | 4 => IoOp::Flush(slot),
            | 5 => IoOp::CloseW(slot),
            | 6 => IoOp::Open(p, slot),
            | 7 => IoOp::ReadAll(slot),
            | 8 => if t.flag() { IoOp::Read(slot, [0i128, 1, 3, 100, -1][t.below(5)]) } else { IoOp::ReadLine(slot) },
            | _ => IoOp::CloseR(slot),
        });
    }
    ops
}

/// Source text + expected stdout for a scenario.  Handles live in variables w0,w1,r0,r1 that start
/// as handles of files closed right away (so every slot always holds *some* handle).
fn io_program(dir: &Path, ops: &[IoOp]) -> (String, String, Vec<Option<Vec<u8>>>) {
    let paths: Vec<PathBuf> = vec![dir.join("f0.txt"), dir.join("f1.txt"), dir.join("missing-dir").join("g.txt"), dir.join("adir")];
    let mut m = FsModel { files: vec![None, None, None, None], writers: vec![None, None], readers: vec![None, None], out: String::new() };
    let err = |label: &str, k: &str| {
        format!("{{ fn ( k_ : Int64 ) ( m_ : String ) => do s_ <- ! ( int64 / to_string ) k_ ; do l_ <- ! ( string / length ) m_ ; ! ( int64 / gt ) OS l_ 0 {{ ! ( stdio / write ) {} {{ ! ( stdio / write_line ) s_ {{ {k} }} }} }} {{ ! ( stdio / write_line ) \"EMPTY ERROR MESSAGE\" {{ {k} }} }} }}", q(&format!("{label} err ")))
    };
    let ok = |label: &str, k: &str| format!("! ( stdio / write_line ) {} {{ {k} }}", q(&format!("{label} ok")));
    // build from the inside out: first compute the model forward to know expectations, then emit code backward
    let mut code_parts: Vec<Box<dyn Fn(&str) -> String>> = vec![];
    for op in ops.iter().cloned() {
        match op {
            | IoOp::Create(p, slot) | IoOp::Append(p, slot) => {
                let append = matches!(op, IoOp::Append(..));
                let label = if append { "append" } else { "create" };
                let path = paths[p].display().to_string();
                let result: Result<(), i64> = match p {
                    | 2 => Err(KIND_NOT_FOUND),
                    | 3 => Err(KIND_OTHER),
                    | _ => Ok(()),
                };
                match result {
                    | Ok(()) => {
                        if !append || m.files[p].is_none() {
                            if !append {
                                m.files[p] = Some(vec![]);
                            } else {
                                m.files[p] = Some(m.files[p].clone().unwrap_or_default());
                            }
                        }
                        m.writers[slot] = Some((p, append));
                        m.out.push_str(&format!("{label} ok\n"));
                    }
                    | Err(k) => m.out.push_str(&format!("{label} err {k}\n")),
                }
                let role = if append { "append_writer" } else { "create_writer" };
                let (e, o) = (err.clone(), ok.clone());
                let lab = label.to_string();
                code_parts.push(Box::new(move |k: &str| {
                    format!("! ( fs / {role} ) {} {} {{ fn ( w{slot} : Writer ) => {} }}", q(&path), e(&lab, k), o(&lab, k))
                }));
            }
            | IoOp::Write(slot, text) => {
                match m.writers[slot] {
                    | Some((p, _)) => {
                        m.files[p].as_mut().unwrap().extend_from_slice(text.as_bytes());
                        m.out.push_str("write ok\n");
                    }
                    | None => m.out.push_str(&format!("write err {KIND_CLOSED}\n")),
                }
                let (e, o) = (err.clone(), ok.clone());
                code_parts.push(Box::new(move |k: &str| {
                    format!("do b_ <- ! ( bytes / from_string ) {} ; ! ( io / write_all ) w{slot} b_ {} {{ {} }}", q(&text), e("write", k), o("write", k))
                }));
            }
            | IoOp::Flush(slot) => {
                match m.writers[slot] {
                    | Some(_) => m.out.push_str("flush ok\n"),
                    | None => m.out.push_str(&format!("flush err {KIND_CLOSED}\n")),
                }
                let (e, o) = (err.clone(), ok.clone());
                code_parts.push(Box::new(move |k: &str| format!("! ( io / flush ) w{slot} {} {{ {} }}", e("flush", k), o("flush", k))));
            }
            | IoOp::CloseW(slot) => {
                match m.writers[slot].take() {
                    | Some(_) => m.out.push_str("closew ok\n"),
                    | None => m.out.push_str(&format!("closew err {KIND_CLOSED}\n")),
                }
                let (e, o) = (err.clone(), ok.clone());
                code_parts.push(Box::new(move |k: &str| format!("! ( io / close_writer ) w{slot} {} {{ {} }}", e("closew", k), o("closew", k))));
            }
            | IoOp::Open(p, slot) => {
                let path = paths[p].display().to_string();
                let res: Result<(), i64> = match p {
                    | 2 => Err(KIND_NOT_FOUND),
                    | 3 => Ok(()), // opening a directory succeeds; reading it fails
                    | _ => if m.files[p].is_some() { Ok(()) } else { Err(KIND_NOT_FOUND) },
                };
                match res {
                    | Ok(()) => {
                        m.readers[slot] = Some((p, 0));
                        m.out.push_str("open ok\n");
                    }
                    | Err(k) => m.out.push_str(&format!("open err {k}\n")),
                }
                let (e, o) = (err.clone(), ok.clone());
                code_parts.push(Box::new(move |k: &str| {
                    format!("! ( fs / open_reader ) {} {} {{ fn ( r{slot} : Reader ) => {} }}", q(&path), e("open", k), o("open", k))
                }));
            }
            | IoOp::ReadAll(slot) | IoOp::Read(slot, _) | IoOp::ReadLine(slot) => {
                // what the reader sees: the file's bytes *now* from its position (unbuffered model is only
                // exact when no writer appended after the reader's first read: scenarios keep to that by
                // treating any read after a later write to the same path as undetermined → we end there)
                let label = match op { | IoOp::ReadAll(_) => "readall", | IoOp::Read(..) => "read", | _ => "readline" };
                let expect: String = match (m.readers[slot], &op) {
                    | (None, IoOp::Read(_, n)) if *n < 0 => format!("{label} err {KIND_INVALID_INPUT}\n"),
                    | (None, _) => format!("{label} err {KIND_CLOSED}\n"),
                    | (Some((3, _)), IoOp::Read(_, n)) if *n < 0 => format!("{label} err {KIND_INVALID_INPUT}\n"),
                    | (Some((3, _)), IoOp::Read(_, 0)) => format!("{label} bytes 0 valid \n"),
                    | (Some((3, _)), _) => format!("{label} err {KIND_OTHER}\n"),
                    | (Some((p, pos)), _) => {
                        let data = m.files[p].clone().unwrap_or_default();
                        let rest = &data[pos.min(data.len())..];
                        match &op {
                            | IoOp::ReadAll(_) => {
                                m.readers[slot] = Some((p, data.len()));
                                render_bytes(label, rest)
                            }
                            | IoOp::Read(_, n) => {
                                if *n < 0 {
                                    format!("{label} err {KIND_INVALID_INPUT}\n")
                                } else {
                                    let k = (*n as usize).min(rest.len());
                                    m.readers[slot] = Some((p, pos + k));
                                    render_bytes(label, &rest[..k])
                                }
                            }
                            | _ => {
                                if rest.is_empty() {
                                    format!("{label} eof\n")
                                } else {
                                    let end = rest.iter().position(|b| *b == b'\n').map(|i| i + 1).unwrap_or(rest.len());
                                    let mut line = rest[..end].to_vec();
                                    m.readers[slot] = Some((p, pos + end));
                                    if line.last() == Some(&b'\n') {
                                        line.pop();
                                        if line.last() == Some(&b'\r') {
                                            line.pop();
                                        }
                                    }
                                    render_bytes(label, &line)
                                }
                            }
                        }
                    }
                };
                m.out.push_str(&expect);
                let e = err.clone();
                let lab = label.to_string();
                let opc = op.clone();
                code_parts.push(Box::new(move |k: &str| {
                    let show = format!("{{ fn ( b_ : Bytes ) => do n_ <- ! ( bytes / length ) b_ ; do s_ <- ! ( int64 / to_string ) n_ ; ! ( stdio / write ) {} {{ ! ( stdio / write ) s_ {{ ! ( bytes / to_string ) OS b_ {{ ! ( stdio / write_line ) \" invalid\" {{ {k} }} }} {{ fn ( t_ : String ) => ! ( stdio / write ) \" valid \" {{ ! ( stdio / write_line ) t_ {{ {k} }} }} }} }} }} }}", q(&format!("{lab} bytes ")));
                    match &opc {
                        | IoOp::ReadAll(_) => format!("! ( io / read_all ) r{slot} {} {show}", e(&lab, k)),
                        | IoOp::Read(_, n) => format!("! ( io / read ) r{slot} {n} {} {show}", e(&lab, k)),
                        | _ => format!("! ( io / read_line ) r{slot} {} {{ ! ( stdio / write_line ) {} {{ {k} }} }} {show}", e(&lab, k), q(&format!("{lab} eof"))),
                    }
                }));
            }
            | IoOp::CloseR(slot) => {
                match m.readers[slot].take() {
                    | Some(_) => m.out.push_str("closer ok\n"),
                    | None => m.out.push_str(&format!("closer err {KIND_CLOSED}\n")),
                }
                let (e, o) = (err.clone(), ok.clone());
                code_parts.push(Box::new(move |k: &str| format!("! ( io / close_reader ) r{slot} {} {{ {} }}", e("closer", k), o("closer", k))));
            }
        }
    }
    let mut code = "! ( process / exit ) 0".to_string();
    for part in code_parts.iter().rev() {
        // the rest of the scenario is one shared thunk taking the current handle state
        code = format!(
            "let kk_ : Thk ( Writer -> Writer -> Reader -> Reader -> OS ) = {{ fn ( w0 : Writer ) ( w1 : Writer ) ( r0 : Reader ) ( r1 : Reader ) => {code} }} in {}",
            part("! kk_ w0 w1 r0 r1")
        );
    }
    // initial handles: closed ones (created then closed on scratch files), so every slot is defined
    let scratch_w = dir.join("init-w.tmp").display().to_string();
    let init = format!(
        "! ( fs / create_writer ) {sw} {{ fn ( k_ : Int64 ) ( m_ : String ) => ! ( process / exit ) 99 }} {{ fn ( iw_ : Writer ) => \
         ! ( io / close_writer ) iw_ {{ fn ( k_ : Int64 ) ( m_ : String ) => ! ( process / exit ) 98 }} {{ \
         ! ( fs / open_reader ) {sw} {{ fn ( k_ : Int64 ) ( m_ : String ) => ! ( process / exit ) 97 }} {{ fn ( ir_ : Reader ) => \
         ! ( io / close_reader ) ir_ {{ fn ( k_ : Int64 ) ( m_ : String ) => ! ( process / exit ) 96 }} {{ \
         let w0 : Writer = iw_ in let w1 : Writer = iw_ in let r0 : Reader = ir_ in let r1 : Reader = ir_ in {code} }} }} }} }}",
        sw = q(&scratch_w)
    );
    (init, m.out, m.files)
}

fn render_bytes(label: &str, b: &[u8]) -> String {
    match std::str::from_utf8(b) {
        | Ok(s) => format!("{label} bytes {} valid {s}\n", b.len()),
        | Err(_) => format!("{label} bytes {} invalid\n", b.len()),
    }
}

/// A scenario is decidable by the simple model only if no file is written after a reader on it was opened.
fn scenario_decidable(ops: &[IoOp]) -> bool {
    // track per path: has an open reader been created? then later writes through any writer on that path → undecidable
    let mut reader_on: [bool; 4] = [false; 4];
    let mut writer_path: [Option<usize>; 2] = [None, None];
    for op in ops {
        match op {
            | IoOp::Create(p, s) | IoOp::Append(p, s) => {
                if *p < 2 {
                    if reader_on[*p] && matches!(op, IoOp::Create(..)) {
                        return false; // truncation under a reader
                    }
                    writer_path[*s] = Some(*p);
                }
            }
            | IoOp::Write(s, _) => {
                if let Some(p) = writer_path[*s] {
                    if reader_on[p] {
                        return false;
                    }
                }
            }
            | IoOp::CloseW(s) => writer_path[*s] = None,
            | IoOp::Open(p, _) => {
                if *p < 2 {
                    reader_on[*p] = true;
                }
            }
            | _ => {}
        }
    }
    true
}

fn check_io(ctx: &Ctx, tape: &[u8], stats: &mut Stats) -> Result<(), Fail> {
    let mut t = Tape::new(tape);
    let ops = io_scenario(&mut t);
    if !scenario_decidable(&ops) {
        stats.count("io:scenario-outside-simple-file-model(discarded)");
        return Ok(());
    }
    let base = thread_dir(ctx);
    let dir = base.join("io");
    let _ = std::fs::remove_dir_all(&dir);
    std::fs::create_dir_all(dir.join("adir")).unwrap();
    let (code, expect, files) = io_program(&dir, &ops);
    let text = format!("{}( {code} : OS )\n", print::prelude(&ctx.repo_root));
    let (_s, analyzed) = h::write_and_analyze(&base, &text);
    let case = json!({"ops": format!("{ops:?}"), "expected_stdout": expect});
    stats.eval();
    match analyzed {
        | Analyzed::Executable(exe, _) => {
            let run = h::interp_run(exe, b"", 5_000_000);
            let got = String::from_utf8_lossy(&run.stdout).to_string();
            if run.end != RunEnd::Exit(0) || got != expect {
                return Err(Fail::new("io-scenario-output", format!("Exit(0) printing {expect:?}"), format!("{:?} printing {got:?}", run.end)).with(case));
            }
            for (i, f) in files.iter().enumerate().take(2) {
                let on_disk = std::fs::read(dir.join(format!("f{i}.txt"))).ok();
                if &on_disk != f {
                    return Err(Fail::new("io-scenario-file-contents", format!("f{i}.txt = {f:?}"), format!("{on_disk:?}")).with(case));
                }
            }
            if expect.contains("err 6") || expect.contains("err 0") || expect.contains("err 7") {
                stats.nontrivial(hash_of(&format!("{ops:?}")));
            }
            for l in expect.lines() {
                let key: String = l.split(' ').take(2).collect::<Vec<_>>().join(" ");
                stats.count(&format!("io:{key}"));
            }
            stats.sample(|| case.clone());
            Ok(())
        }
        | Analyzed::NotAccepted(front) => Err(Fail::new("io-program-rejected", "accepted at the declared types", format!("{:?}", front.kinds.iter().take(2).collect::<Vec<_>>())).with(json!({"source": code}))),
        | Analyzed::AcceptedOther(_, why) => Err(Fail::new("io-program-not-executable", "an executable", why).with(case)),
        | Analyzed::Panic(p) => Err(Fail::new(format!("io-{}", p.signature()), "analysis to return", p.describe()).with(case)),
    }
}

/* ----------------------- (c) signature mutations -------------------------- */

fn copy_tree(from: &Path, to: &Path) {
    std::fs::create_dir_all(to).unwrap();
    for e in std::fs::read_dir(from).unwrap().flatten() {
        let p = e.path();
        let dst = to.join(e.file_name());
        if p.is_dir() {
            copy_tree(&p, &dst);
        } else {
            std::fs::copy(&p, &dst).unwrap();
        }
    }
}

/// All `@[builtin(role)]` occurrences of value roles in the signature files: (file, byte range of the role name).
fn role_sites(root: &Path) -> Vec<(PathBuf, usize, usize, String)> {
    let mut out = vec![];
    let mut files = vec![];
    fn walk(d: &Path, out: &mut Vec<PathBuf>) {
        for e in std::fs::read_dir(d).unwrap().flatten() {
            let p = e.path();
            if p.is_dir() {
                walk(&p, out);
            } else {
                out.push(p);
            }
        }
    }
    walk(root, &mut files);
    files.sort();
    for f in files {
        let Ok(text) = std::fs::read_to_string(&f) else { continue };
        let mut from = 0;
        while let Some(i) = text[from..].find("@[builtin(") {
            let start = from + i + "@[builtin(".len();
            let end = start + text[start..].find(')').unwrap_or(0);
            let name = text[start..end].to_string();
            if Role::from_source_name(&name).is_some() {
                out.push((f.clone(), start, end, name));
            }
            from = end;
        }
    }
    out
}

fn trivial_program(builtin: &Path) -> String {
    format!(
        "param (\n  (/system) :\n  @(import(\"{}\"))\n) in\nlet (/process) = system in\n! (process/exit) 0\n",
        builtin.display()
    )
}

fn check_signature_mutation(ctx: &Ctx, sites: &[(PathBuf, usize, usize, String)], tape: &[u8], stats: &mut Stats) -> Result<(), Fail> {
    let mut t = Tape::new(tape);
    let src_root = ctx.repo_root.join("lib/std");
    let base = thread_dir(ctx).join("sig");
    let _ = std::fs::remove_dir_all(&base);
    copy_tree(&src_root.join("builtin"), &base.join("builtin"));
    std::fs::copy(src_root.join("builtin.zy"), base.join("builtin.zy")).unwrap();
    let (file, start, end, name) = &sites[t.below(sites.len())];
    let rel = file.strip_prefix(&src_root).unwrap();
    let target = base.join(rel);
    let text = std::fs::read_to_string(&target).unwrap();
    let role = Role::from_source_name(name).unwrap();
    // choose a mutation
    let kind = t.below(5);
    let (mutated, what, must_reject) = match kind {
        | 0 => {
            // swap the role name with a role of a different arity / classifier
            let others: Vec<Role> = Role::all().filter(|r| r.arity() != role.arity() || matches!((r, role), (Role::Integer(a, _), Role::Integer(b, _)) if *a != b)).collect();
            let other = others[t.below(others.len())];
            if matches!((other, role), (Role::Integer(a, oa), Role::Integer(b, ob)) if a == b && oa.arity() == ob.arity() && oa.is_branch() == ob.is_branch()) {
                return Ok(());
            }
            (format!("{}{}{}", &text[..*start], other.source_name(), &text[*end..]), format!("role `{name}` replaced by `{}`", other.source_name()), true)
        }
        | 1 => {
            // wrap the declared type in an extra Thk (… :: T) → (… :: Thk (Ret T))  — find the `::` after the site
            let Some(cc) = text[*end..].find("::") else { return Ok(()) };
            let at = end + cc + 2;
            // type extends to the matching ')' of the field group
            let mut depth = 0i32;
            let mut close = None;
            for (i, c) in text[at..].char_indices() {
                match c {
                    | '(' => depth += 1,
                    | ')' => {
                        if depth == 0 {
                            close = Some(at + i);
                            break;
                        }
                        depth -= 1;
                    }
                    | _ => {}
                }
            }
            let Some(close) = close else { return Ok(()) };
            let ty = text[at..close].trim();
            let ret = base.join("builtin/intrinsic/ret.zy").display().to_string();
            let thk = base.join("builtin/intrinsic/thk.zy").display().to_string();
            (
                format!("{} (@(import(\"{thk}\"))) ((@(import(\"{ret}\"))) ({ty})) {}", &text[..at], &text[close..]),
                format!("declared type of `{name}` wrapped in an extra Thk (Ret …)"),
                true,
            )
        }
        | 2 => {
            // attach the same role to a second entry (duplicate): duplicate the whole annotation on the next role site in the file
            let next = sites.iter().find(|(f, s, _, n)| f == file && s > end && n != name);
            let Some((_, s2, e2, n2)) = next else { return Ok(()) };
            (format!("{}{}{}", &text[..*s2], name, &text[*e2..]), format!("role `{name}` attached twice (also where `{n2}` was)"), true)
        }
        | 3 => {
            // a type role on a value entry
            let tr = ["reader", "writer", "os"][t.below(3)];
            (format!("{}{}{}", &text[..*start], tr, &text[*end..]), format!("type role `{tr}` on the value entry of `{name}`"), true)
        }
        | _ => {
            // control: unmutated copy must be accepted
            (text.clone(), "unmutated copy".to_string(), false)
        }
    };
    std::fs::write(&target, &mutated).unwrap();
    let root = base.join("case.zy");
    std::fs::write(&root, trivial_program(&base.join("builtin.zy"))).unwrap();
    let session = zydeco_session::CompilerSession::default();
    let analyzed = drive::analyze_executable(&session, &root);
    let case = json!({"file": rel, "mutation": what});
    stats.eval();
    let rejected = match analyzed {
        | Analyzed::NotAccepted(_) => true,
        | Analyzed::AcceptedOther(..) => true,
        | Analyzed::Panic(p) => {
            return Err(Fail::new(format!("signature-{}", p.signature()), "a diagnostic", p.describe()).with(case));
        }
        | Analyzed::Executable(exe, _) => {
            let run = drive::run_executable(exe, b"", &[], 100_000);
            match run.end {
                | RunEnd::LinkError(_) => true,
                | RunEnd::Exit(0) => false,
                | other => {
                    return Err(Fail::new("signature-run", "rejection before any step, or a clean run of the unmutated copy", format!("{other:?}")).with(case));
                }
            }
        }
    };
    if rejected != must_reject {
        return Err(Fail::new(
            if must_reject { "mutated-signature-accepted" } else { "standard-signature-rejected" },
            if must_reject { "the mutated Builtin signature to be rejected" } else { "the unmutated copy to be accepted" },
            format!("rejected = {rejected}; mutation: {what}"),
        )
        .with(case));
    }
    stats.count(&format!("signature-mutation:{}", ["swap-role", "extra-thk", "duplicate-role", "type-role", "control"][kind]));
    if must_reject {
        stats.nontrivial(hash_of(&what));
    }
    stats.sample(|| case.clone());
    Ok(())
}

pub fn run(ctx: &Ctx) -> Report {
    let mut report = Report::new(
        "(0) table agreement for all 126 roles (role arity, host name, Stack-IR builtin arity vs the harness's table \
         of declared types); (a) direct invocation through the interpreter's Prim step of the 24 text/bytes/stdio/\
         process roles on tuples generated from their declared classifier (Unicode strings incl. astral and \
         combining scalars, boundary indices −1/0/len−1/len/len+1/i64 extremes/byte length, invalid UTF-8 buffers, \
         surrogate and out-of-range code points, numeric strings with signs/whitespace/overflow) with a sentinel \
         frame below the arguments, against the host model; (b) generated caller programs calling text/bytes roles \
         at their declared source types through the linked Builtin package; (b2) generated I/O scenarios (create/\
         append/write/flush/close/open/read/read_line/read_all incl. closed handles, missing directory, directory \
         path) against a file model, checking error kinds, non-empty messages and final file contents; (c) one-role \
         mutations of a private copy of lib/std/builtin/** (role swapped, extra Thk layer, duplicate role, type role \
         on a value entry) must be rejected, the unmutated copy accepted; non-trivial = tuple that distinguishes \
         scalar from byte indexing or takes a none/error branch, scenarios with an error, any mutation",
    );
    let r = run_items(ctx, "tables", vec![()], |_, stats| check_tables(stats));
    report.absorb(r);
    let roles: Vec<Role> = Role::all().filter(|r| !matches!(r, Role::Integer(..) | Role::Float(..))).collect();
    let per_role = ctx.tier.pick(1_200, 20_000);
    for role in roles {
        if gen_args(role, &mut Tape::new(&[0; 32])).is_none() {
            continue;
        }
        let r = run_tapes(ctx, &format!("direct-{}", model_name(role)), per_role, 48, |tape, stats| check_direct(role, tape, stats));
        report.absorb(r);
    }
    let cases = ctx.tier.pick(1_200, 12_000);
    let r = run_tapes(ctx, "caller-programs", cases, 400, |tape, stats| check_callers(ctx, tape, stats));
    report.absorb(r);
    let cases = ctx.tier.pick(1_200, 12_000);
    let r = run_tapes(ctx, "io-scenarios", cases, 64, |tape, stats| check_io(ctx, tape, stats));
    report.absorb(r);
    let sites = role_sites(&ctx.repo_root.join("lib/std/builtin"));
    report.extra.insert("role_annotation_sites".into(), json!(sites.len()));
    let cases = ctx.tier.pick(1_000, 8_000);
    let sites_ref = &sites;
    let r = run_tapes(ctx, "signature-mutations", cases, 16, |tape, stats| check_signature_mutation(ctx, sites_ref, tape, stats));
    report.absorb(r);
    report.assume("numeric roles (88 of 126) are decided operand-by-operand under C05; here they take part in the table agreement only");
    report.assume("legacy stdio roles get valid UTF-8 only; random_int, arg_fold, stdin/stdout/stderr handles are exercised through caller programs in C01/C02, not modelled here");
    report.assume("the sandbox runs as root, so permission-denied paths cannot be produced; missing-directory and directory paths stand in for failing opens");
    report
}

pub fn replay(ctx: &Ctx, doc: &Value) -> Result<(), Fail> {
    let tape = unhex(doc["tape_hex"].as_str().unwrap_or(""));
    let stage = doc["stage"].as_str().unwrap_or("");
    let mut stats = Stats::new();
    if let Some(name) = stage.strip_prefix("direct-") {
        let role = Role::all().find(|r| model_name(*r) == name).ok_or_else(|| Fail::new("replay", "role", name.to_string()))?;
        return check_direct(role, &tape, &mut stats);
    }
    match stage {
        | "tables" => check_tables(&mut stats),
        | "caller-programs" => check_callers(ctx, &tape, &mut stats),
        | "io-scenarios" => check_io(ctx, &tape, &mut stats),
        | "signature-mutations" => {
            let sites = role_sites(&ctx.repo_root.join("lib/std/builtin"));
            check_signature_mutation(ctx, &sites, &tape, &mut stats)
        }
        | other => Err(Fail::new("replay-unsupported", "a known stage", other.to_string())),
    }
}
