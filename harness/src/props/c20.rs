//! C20 — monadic blocks instantiated at the identity monad compute the same result.

use crate::core::ast::CTy;
use crate::core::eval::{self, REnd};
use crate::core::generate::{self, Cfg};
use crate::core::print::{self, Names, Printer, Style};
use crate::drive::{self, Analyzed, RunEnd};
use crate::engine::*;
use serde_json::{Value, json};
use zydeco_session::CompilerSession;

const SEP: &str = "--8<--";

fn mo_prelude(ctx: &Ctx) -> String {
    let mut s = print::prelude(&ctx.repo_root);
    let basis = ctx.repo_root.join("lib/std/control/monad.zy");
    s.push_str(&format!("let monadic_basis = @[import(\"{}\")] _ in\n", basis.display()));
    s.push_str("let (= Monad, = Algebra, ()) = monadic_basis builtin in\n");
    s
}

pub fn check_case(ctx: &Ctx, tape: &[u8], cfg: &Cfg, stats: &mut Stats) -> Result<(), Fail> {
    let t_case = std::time::Instant::now();
    let r = check_case_inner(ctx, tape, cfg, stats);
    if t_case.elapsed().as_secs_f64() > 1.5 && std::env::var_os("VERIF_TIMING").is_some() {
        eprintln!("SLOW case {:.1}s tape {} bytes", t_case.elapsed().as_secs_f64(), tape.len());
    }
    r
}

fn check_case_inner(ctx: &Ctx, tape: &[u8], cfg: &Cfg, stats: &mut Stats) -> Result<(), Fail> {
    let g = generate::gen_mo_program(tape, cfg);
    // reference semantics of the plain body
    let reference = eval::run(&g.prog, b"", 300_000);
    if !matches!(reference.end, REnd::Exit(0)) {
        stats.inconclusive += 1;
        return Ok(());
    }
    let expected = String::from_utf8_lossy(&reference.stdout).to_string();
    let names = Names::unique(&g.prog);
    let style = Style::default();
    let piece = |f: &dyn Fn(&mut Printer)| -> String {
        let mut pr = Printer::new(&g.prog, &names, &style);
        f(&mut pr);
        print::join(&pr.out)
    };
    let ret_a = CTy::Ret(Box::new(g.a.clone()));
    let decls = piece(&|pr| pr.decls());
    // leading closed lets of the body become global definitions of the enclosing block (the translation inlines
    // references to closed globals); the rest is the body of the monadic blocks
    let mut globals = String::new();
    let mut n_globals = 0;
    let mut rest: &crate::core::ast::Comp = &g.body;
    if tape.first().map(|b| b % 2 == 0).unwrap_or(false) {
        loop {
            let crate::core::ast::Comp::Let(crate::core::ast::Pat::Var(b), a, v, n) = rest else { break };
            let mut used = std::collections::BTreeSet::new();
            crate::core::naming::uses_of_val(v, &mut used);
            if !used.is_empty() || n_globals >= 3 {
                break;
            }
            let (b, a, v) = (*b, a.clone(), v.clone());
            let name = names.binder[b as usize].clone();
            let ty = piece(&|pr| pr.vty(&a, 5));
            let val = piece(&|pr| pr.val(&v, &a));
            globals.push_str(&format!("let {name} : {ty} = {val} that\n"));
            n_globals += 1;
            rest = n;
        }
    }
    // a direct call of the first global in a let tail — a second, different block over the same global
    fn lit(t: &crate::core::ast::VTy) -> Option<String> {
        use crate::core::ast::VTy;
        Some(match t {
            | VTy::Int(_) => "1".into(),
            | VTy::Str => "\"s\"".into(),
            | VTy::Char => "'c'".into(),
            | VTy::Unit => "()".into(),
            | VTy::Prod(items) => format!("({})", items.iter().map(lit).collect::<Option<Vec<_>>>()?.join(", ")),
            | _ => return None,
        })
    }
    let mut tail_call: Option<(String, String)> = None; // (call text, result type text)
    if n_globals > 0 {
        if let crate::core::ast::Comp::Let(crate::core::ast::Pat::Var(b), crate::core::ast::VTy::Thk(fty), _, _) = &g.body {
            let mut args = vec![];
            let mut cur: &CTy = fty;
            let mut ok = true;
            while let CTy::Arrow(a, rest_ty) = cur {
                match lit(a) {
                    | Some(l) => args.push(l),
                    | None => ok = false,
                }
                cur = rest_ty;
            }
            if let (true, CTy::Ret(r)) = (ok, cur) {
                if lit(r).is_some() {
                    let name = names.binder[*b as usize].clone();
                    let rty = piece(&|pr| pr.vty(r, 0));
                    tail_call = Some((format!("! {name} {}", args.join(" ")), rty));
                }
            }
        }
    }
    let body = piece(&|pr| pr.comp(rest, &ret_a));
    let _plain_body_is_whole = n_globals == 0;
    let a_ty = piece(&|pr| pr.vty(&g.a, 5));
    let a_atom = piece(&|pr| pr.vty(&g.a, 0));
    let show = piece(&|pr| pr.comp(&g.show, &CTy::OS));
    let (r, k) = (names.binder[g.r as usize].clone(), names.binder[g.k as usize].clone());
    let (extra_block, extra_main) = match &tail_call {
        | Some((call, rty)) => (
            // the global is first referenced (from a checked position) by an earlier block, then from a let tail and
            // from a match-like position by later ones
            format!("def ! translated_first = @[monadic] begin\n( do zf <- {call} ; ret zf : Ret {rty} )\nend that\nlet Zd : VType = data | +Zk : Unit | +Zj : Unit end that\ndef ! translated_arm = @[monadic] begin\nlet zs : Zd = +Zk () in match zs | +Zk () => {call} | +Zj () => {call} end\nend that\n"),
            format!("do q0 <- ! translated_first Ret {{ ! ret_monad }} ; do q1 <- ( {call} : Ret {rty} ) ; do q3 <- ! translated_arm Ret {{ ! ret_monad }} ; let zq : {rty} * {rty} * {rty} = ( q0 , q1 , q3 ) in\n"),
        ),
        | None => (String::new(), String::new()),
    };
    // a separate small program for the global-calling blocks, so that a block the checker refuses in one of them
    // does not hide the others: first a block that binds the call's result, then one that calls from match arms
    if tail_call.is_some() {
        let text2 = format!(
            "{prelude}begin\n{decls}{globals}\
def ! ret_monad : Monad Ret =\n  comatch\n  | .return A value => ret value\n  | .bind A B computation function =>\n    do value <- ! computation ;\n    ! function value\n  end\nthat\n\
{extra_block}( {extra_main}! (process/exit) 0 : OS )\nend\n",
            prelude = mo_prelude(ctx),
        );
        stats.eval();
        let path2 = thread_dir(ctx).join("mo2.zy");
        std::fs::write(&path2, &text2).expect("write case");
        let session2 = CompilerSession::default();
        let t0 = std::time::Instant::now();
        let analyzed2 = drive::analyze_executable(&session2, &path2);
        if t0.elapsed().as_secs_f64() > 2.0 && std::env::var_os("VERIF_TIMING").is_some() {
            eprintln!("SLOW mo2 analysis {:.1}s, {} bytes", t0.elapsed().as_secs_f64(), text2.len());
        }
        match analyzed2 {
            | Analyzed::Executable(exe, _) => {
                let run = drive::run_executable(exe, b"", &[], 1_000_000);
                if let RunEnd::Stuck { msg, file, line } = &run.end {
                    let short: String = msg.chars().take(48).collect();
                    return Err(Fail::new(
                        format!("translated-block-goes-wrong[{short}]@{}", file.rsplit("/repo/").next().unwrap_or(file)),
                        "a run that never goes wrong with a lawful instance",
                        format!("`{msg}` at {file}:{line} after {} steps", run.steps),
                    )
                    .with(json!({"source": text2[text2.find("begin\n").unwrap_or(0)..].to_string(), "program": "blocks calling a global definition"})));
                }
                stats.count("global-calling-blocks:accepted-and-ran");
            }
            | Analyzed::Panic(p) => return Err(Fail::new(format!("analysis-{}", p.signature()), "analysis to return", p.describe())),
            | _ => stats.count("global-calling-blocks:not-accepted(discarded)"),
        }
    }
    let text = format!(
        "{prelude}begin\n{decls}{globals}\
def ! ret_monad : Monad Ret =\n  comatch\n  | .return A value => ret value\n  | .bind A B computation function =>\n    do value <- ! computation ;\n    ! function value\n  end\nthat\n\
let RU (A : VType) : CType = Unit -> Ret A that\n\
def ! reader_monad : Monad RU =\n  comatch\n  | .return A value => fn (_ : Unit) => ret value\n  | .bind A B computation function => fn (u : Unit) =>\n    do value <- ! computation u ;\n    ! function value u\n  end\nthat\n\
def ! translated = @[monadic] begin\n( {body}\n: Ret {a_atom} )\nend that\n\
def ! translated_again = @[monadic] begin\n( {body}\n: Ret {a_atom} )\nend that\n\
let show : Thk ({a_atom} -> Thk OS -> OS) = {{ fn ({r} : {a_ty}) => fn ({k} : Thk OS) =>\n{show}\n}} that\n\
( do p1 <- ( {body}\n: Ret {a_atom} ) ; ! show p1 {{ ! (stdio/write_line) \"{SEP}\" {{\n\
do p2 <- ! translated Ret {{ ! ret_monad }} ; ! show p2 {{ ! (stdio/write_line) \"{SEP}\" {{\n\
do p3 <- ! translated RU {{ ! reader_monad }} () ; ! show p3 {{ ! (stdio/write_line) \"{SEP}\" {{\n\
do p4 <- ! translated_again Ret {{ ! ret_monad }} ; ! show p4 {{\n\
! (process/exit) 0 }} }} }} }} }} }} }} : OS )\nend\n",
        prelude = mo_prelude(ctx),
    );
    stats.eval();
    let path = thread_dir(ctx).join("mo.zy");
    std::fs::write(&path, &text).expect("write case");
    let session = CompilerSession::default();
    let case = |extra: Value| json!({"source": text[text.find("begin\n").unwrap_or(0)..].to_string(), "reference_stdout": expected, "info": extra});
    let t1 = std::time::Instant::now();
    let analyzed1 = drive::analyze_executable(&session, &path);
    if t1.elapsed().as_secs_f64() > 2.0 && std::env::var_os("VERIF_TIMING").is_some() {
        eprintln!("SLOW main analysis {:.1}s, {} bytes, globals {n_globals}", t1.elapsed().as_secs_f64(), text.len());
    }
    match analyzed1 {
        | Analyzed::Panic(p) => Err(Fail::new(format!("analysis-{}", p.signature()), "analysis to return", p.describe()).with(case(json!({})))),
        | Analyzed::NotAccepted(front) => {
            let kind = front.kinds.first().cloned().unwrap_or_default();
            let short: String = kind.chars().take(40).collect();
            stats.count(&format!("discarded:block-not-accepted[{short}]"));
            Ok(())
        }
        | Analyzed::AcceptedOther(_, why) => Err(Fail::new("harness-program-not-executable", "an executable", why).with(case(json!({})))),
        | Analyzed::Executable(exe, _) => {
            let run = drive::run_executable(exe, b"", &[], 3_000_000);
            let out = String::from_utf8_lossy(&run.stdout).to_string();
            if let RunEnd::Stuck { msg, file, line } = &run.end {
                let short: String = msg.chars().take(48).collect();
                return Err(Fail::new(
                    format!("translated-block-goes-wrong[{short}]@{}", file.rsplit("/repo/").next().unwrap_or(file)),
                    "a run that never goes wrong with a lawful instance",
                    format!("`{msg}` at {file}:{line} after {} steps; stdout so far {out:?}", run.steps),
                )
                .with(case(json!({}))));
            }
            if matches!(run.end, RunEnd::OutOfFuel) {
                stats.inconclusive += 1;
                return Ok(());
            }
            let parts: Vec<&str> = out.split(&format!("{SEP}\n")).collect();
            let plain = parts.first().copied().unwrap_or("");
            if plain != expected {
                // the plain run itself disagrees with the reference: C02's subject, not C20's
                stats.count("discarded:plain-run-differs-from-reference(C02)");
                return Ok(());
            }
            let identity = parts.get(1).copied();
            if identity != Some(expected.as_str()) {
                return Err(Fail::new(
                    "identity-instance-differs-from-plain",
                    format!("the plain computation's result {expected:?}"),
                    format!("{:?} (run ended {:?})", identity, run.end),
                )
                .with(case(json!({}))));
            }
            if !matches!(run.end, RunEnd::Exit(0)) {
                return Err(Fail::new("run-does-not-complete", "exit 0 after the three instantiations", format!("{:?}", run.end)).with(case(json!({}))));
            }
            match parts.get(2).copied() {
                | Some(p) if p == expected => stats.count("reader-instance-agrees"),
                | _ => stats.count("note:reader-instance-differs"),
            }
            // a second monadic block over the same body (and the same globals) in the same program
            let second = parts.get(3).copied();
            if second != Some(expected.as_str()) {
                return Err(Fail::new(
                    "second-block-at-the-identity-instance-differs-from-plain",
                    format!("the plain computation's result {expected:?}"),
                    format!("{:?} (run ended {:?})", second, run.end),
                )
                .with(case(json!({}))));
            }
            if n_globals > 0 {
                stats.count("with-global-definitions");
            }
            if tail_call.is_some() {
                stats.count("with-a-third-block-calling-a-global-in-a-let-tail");
            }
            stats.count("identity-instance-agrees");
            let f = &g.feats;
            let nontrivial = f.get("do").copied().unwrap_or(0) >= 2 && (f.contains_key("call") || f.contains_key("beta-redex")) && f.contains_key("match");
            if nontrivial {
                stats.nontrivial(hash_of(&body));
                stats.sample(|| json!({"body": body, "result_type": a_ty, "stdout_per_instance": expected}));
            }
            for (name, n) in f {
                stats.add(&format!("feature:{name}"), *n as u64);
            }
            Ok(())
        }
    }
}

pub fn run(ctx: &Ctx) -> Report {
    let mut report = Report::new(
        "closed returning computations over the fragment the algebra translation supports (ret, do, fn/application, \
         thunks/force, transparent data with matches incl. nested and wildcard arms, tuples, lets, calls to let-bound \
         thunks; no host operations inside), generated type-directed with a printable result type; one program runs \
         the body plain, then `@[monadic]` at the identity monad (Ret, return = ret, bind = run then continue), then at \
         Reader Unit, then a second monadic block over the same body at the identity monad; in half of the cases the leading closed lets of the body are global definitions of the enclosing block, referenced from both blocks; oracle: the printed result of the identity instantiation equals the plain one (which equals the \
         reference machine's), and no instantiation goes wrong; a block the checker refuses is a counted discard; \
         non-trivial = body with ≥ 2 do, a call or redex, and a match",
    );
    let cfg = ctx.tier.pick(Cfg::monadic(60, 6), Cfg::monadic(160, 9));
    let cases = ctx.tier.pick(1_500, 40_000);
    let r = run_tapes(ctx, "monadic-blocks", cases, 500, |tape, stats| check_case(ctx, tape, &cfg, stats));
    report.absorb(r);
    report.assume("bodies are effect free, so only value-level results are compared at the identity monad; a differing Reader result is counted, not reported (the statement demands only that lawful instances never go wrong)");
    report
}

pub fn replay(ctx: &Ctx, doc: &Value) -> Result<(), Fail> {
    let mut stats = Stats::new();
    let tape = unhex(doc["tape_hex"].as_str().unwrap_or(""));
    check_case(ctx, &tape, &Cfg::monadic(60, 6), &mut stats)?;
    check_case(ctx, &tape, &Cfg::monadic(160, 9), &mut stats)
}
