//! C08 — block contributions are ordered by dependency.
//! (a) the public graph API on all digraphs with ≤ 4 nodes (exhaustive) and random larger ones;
//! (b),(c) language-level permutation / cycle probes live in `c08_blocks` (added by `run`).

use crate::engine::*;
use serde_json::{Value, json};
use std::collections::{BTreeSet, HashSet};
use zydeco_utils::graph::{DepGraph, Kosaraju};

/// A digraph on nodes `0..n`; `adj[i]` has bit j set when i depends on j.
#[derive(Clone, Debug, PartialEq, Eq, Hash)]
pub struct Graph {
    pub n: usize,
    pub adj: Vec<u32>,
}

impl Graph {
    pub fn from_mask(n: usize, mask: u64) -> Graph {
        let mut adj = vec![0u32; n];
        for i in 0..n {
            for j in 0..n {
                if mask >> (i * n + j) & 1 == 1 {
                    adj[i] |= 1 << j;
                }
            }
        }
        Graph { n, adj }
    }
    pub fn edges(&self) -> Vec<(usize, usize)> {
        let mut v = vec![];
        for i in 0..self.n {
            for j in 0..self.n {
                if self.adj[i] >> j & 1 == 1 {
                    v.push((i, j));
                }
            }
        }
        v
    }
    /// reach[i] = set of nodes reachable from i by ≥ 0 edges
    pub fn reach(&self) -> Vec<u32> {
        let n = self.n;
        let mut r: Vec<u32> = (0..n).map(|i| self.adj[i] | 1 << i).collect();
        for k in 0..n {
            for i in 0..n {
                if r[i] >> k & 1 == 1 {
                    r[i] |= r[k];
                }
            }
        }
        r
    }
    /// Reference SCCs: i ~ j iff each reaches the other.
    pub fn sccs(&self) -> Vec<BTreeSet<usize>> {
        let r = self.reach();
        let mut seen = vec![false; self.n];
        let mut out = vec![];
        for i in 0..self.n {
            if seen[i] {
                continue;
            }
            let mut c = BTreeSet::new();
            for j in 0..self.n {
                if r[i] >> j & 1 == 1 && r[j] >> i & 1 == 1 {
                    c.insert(j);
                    seen[j] = true;
                }
            }
            out.push(c);
        }
        out
    }
    pub fn render(&self) -> Value {
        json!({ "nodes": self.n, "edges(dependent->dependency)": self.edges() })
    }
}

#[derive(Clone, Copy, Debug)]
pub enum Mode {
    /// release every ready component at once (as BindingContext::from_bindings does)
    Batch,
    /// release the members of one ready component one at a time (as the repo's test_scc_1 does)
    Piecemeal,
}

/// Drive the repo's SCC machinery over `g` with node labels `label[i]`, adding sink nodes
/// explicitly only when `add_sinks`; compare against the reference SCCs.
pub fn check_graph(g: &Graph, label: &[u64], add_sinks: bool, mode: Mode) -> Result<(), Fail> {
    let n = g.n;
    let mut deps: DepGraph<u64> = DepGraph::new();
    let mut present = vec![false; n];
    for i in 0..n {
        let ds: Vec<u64> = (0..n).filter(|j| g.adj[i] >> j & 1 == 1).map(|j| label[j]).collect();
        if !ds.is_empty() || add_sinks {
            present[i] = true;
            for j in 0..n {
                if g.adj[i] >> j & 1 == 1 {
                    present[j] = true;
                }
            }
            deps.add(label[i], ds);
        }
    }
    // nodes the graph actually contains
    let nodes: Vec<usize> = (0..n).filter(|i| present[*i]).collect();
    let back = |l: u64| label.iter().position(|x| *x == l).expect("label issued by harness");
    let reference: Vec<BTreeSet<usize>> =
        g.sccs().into_iter().filter(|c| c.iter().all(|i| present[*i])).collect();
    let reach = g.reach();
    let fail = |sig: &str, exp: String, obs: String| {
        Err(Fail::new(format!("graph-{sig}"), exp, obs).with(json!({
            "graph": g.render(), "labels": label, "sinks_added_explicitly": add_sinks,
            "mode": format!("{mode:?}"), "reference_sccs": reference,
        })))
    };

    let mut scc = Kosaraju::new(&deps).run();
    let mut released: Vec<BTreeSet<usize>> = vec![];
    let mut released_nodes: HashSet<usize> = HashSet::new();
    let mut rounds = 0usize;
    loop {
        rounds += 1;
        if rounds > 4 * n + 4 {
            return fail(
                "no-termination",
                format!("top()/release to drain the graph within {} rounds", 4 * n + 4),
                format!("still non-empty after {rounds} rounds; released so far {released:?}"),
            );
        }
        let ready = scc.top();
        if ready.is_empty() {
            break;
        }
        let batch: Vec<BTreeSet<usize>> =
            ready.iter().map(|grp| grp.iter().map(|l| back(*l)).collect()).collect();
        // every ready group must be a reference SCC (restricted to unreleased nodes in piecemeal
        // mode), not yet released, with all dependencies released in *earlier* rounds
        for grp in &batch {
            if grp.is_empty() {
                return fail("empty-group", "non-empty ready groups".into(), format!("{batch:?}"));
            }
            let full = reference.iter().find(|c| grp.iter().all(|i| c.contains(i)));
            let Some(full) = full else {
                return fail(
                    "group-not-scc",
                    format!("each ready group inside one SCC of {reference:?}"),
                    format!("ready group {grp:?}"),
                );
            };
            let remaining: BTreeSet<usize> =
                full.iter().copied().filter(|i| !released_nodes.contains(i)).collect();
            if &remaining != grp {
                return fail(
                    "group-not-whole-scc",
                    format!("ready group = unreleased members {remaining:?} of SCC {full:?}"),
                    format!("ready group {grp:?}"),
                );
            }
            for i in grp {
                for j in 0..n {
                    if reach[*i] >> j & 1 == 1 && !full.contains(&j) && !released_nodes.contains(&j) {
                        return fail(
                            "dependency-order",
                            format!("node {i} ready only after its dependency {j} was released"),
                            format!("ready batch {batch:?} while {j} is unreleased (released: {released:?})"),
                        );
                    }
                }
            }
        }
        // distinct groups of a batch are disjoint
        let total: usize = batch.iter().map(|g| g.len()).sum();
        let union: BTreeSet<usize> = batch.iter().flatten().copied().collect();
        if union.len() != total {
            return fail("overlap", "disjoint ready groups".into(), format!("{batch:?}"));
        }
        // completeness of the ready set: every unreleased SCC whose dependencies are all released
        // must be offered
        for c in &reference {
            if c.iter().any(|i| released_nodes.contains(i)) && matches!(mode, Mode::Batch) {
                continue;
            }
            let remaining: BTreeSet<usize> =
                c.iter().copied().filter(|i| !released_nodes.contains(i)).collect();
            if remaining.is_empty() {
                continue;
            }
            let deps_done = c.iter().all(|i| {
                (0..n).all(|j| reach[*i] >> j & 1 == 0 || c.contains(&j) || released_nodes.contains(&j))
            });
            if deps_done && !batch.iter().any(|g| g == &remaining) {
                return fail(
                    "ready-incomplete",
                    format!("component {remaining:?} (all dependencies released) to be ready"),
                    format!("ready batch {batch:?}"),
                );
            }
        }
        match mode {
            | Mode::Batch => {
                scc.release(ready.iter().flat_map(|grp| grp.iter()).copied());
                for grp in batch {
                    released_nodes.extend(grp.iter().copied());
                    released.push(grp);
                }
            }
            | Mode::Piecemeal => {
                // release exactly one member of the first (smallest-label) ready group
                let grp = batch.iter().min().unwrap();
                let one = *grp.iter().next().unwrap();
                scc.release([label[one]]);
                released_nodes.insert(one);
                released.push([one].into_iter().collect());
            }
        }
    }
    let all: BTreeSet<usize> = released_nodes.iter().copied().collect();
    let want: BTreeSet<usize> = nodes.iter().copied().collect();
    if all != want {
        return fail(
            "lost-nodes",
            format!("all nodes {want:?} released exactly once"),
            format!("released {all:?} in {released:?}; top() is empty"),
        );
    }
    if matches!(mode, Mode::Batch) {
        let mut got: Vec<BTreeSet<usize>> = released.clone();
        got.sort();
        let mut exp = reference.clone();
        exp.sort();
        if got != exp {
            return fail("scc-mismatch", format!("{exp:?}"), format!("{got:?}"));
        }
    } else {
        let count: usize = released.iter().map(|g| g.len()).sum();
        if count != want.len() {
            return fail("duplicate-release", format!("{} releases", want.len()), format!("{count}"));
        }
    }
    Ok(())
}

fn labelings(n: usize, salt: u64) -> Vec<Vec<u64>> {
    vec![
        (0..n as u64).collect(),
        (0..n as u64).map(|i| 1000 - 7 * i).collect(),
        (0..n as u64).map(|i| mix(salt, i) >> 8).collect(),
    ]
}

fn nontrivial(g: &Graph) -> bool {
    let sccs = g.sccs();
    if sccs.iter().any(|c| c.len() > 1) {
        return true;
    }
    // ≥ 2 edges into one component from other components
    for c in &sccs {
        let mut into = 0;
        for (i, j) in g.edges() {
            if c.contains(&j) && !c.contains(&i) {
                into += 1;
            }
        }
        if into >= 2 {
            return true;
        }
    }
    false
}

fn check_all_variants(g: &Graph, salt: u64, stats: &mut Stats) -> Result<(), Fail> {
    for label in labelings(g.n, salt) {
        for add_sinks in [true, false] {
            for mode in [Mode::Batch, Mode::Piecemeal] {
                stats.eval();
                check_graph(g, &label, add_sinks, mode)?;
            }
        }
    }
    if nontrivial(g) {
        stats.nontrivial(hash_of(g));
        stats.count("graphs_with_nontrivial_scc_or_fan_in");
    }
    if g.edges().iter().any(|(i, j)| i == j) {
        stats.count("graphs_with_self_loop");
    }
    Ok(())
}

pub fn decode_graph(t: &mut Tape) -> Graph {
    let n = 5 + t.below(8);
    let density = 1 + t.below(5) as u8; // edge probability density/8 … sparse to medium
    let mut adj = vec![0u32; n];
    for i in 0..n {
        for j in 0..n {
            if t.byte() >= 255 - density * 20 {
                adj[i] |= 1 << j;
            }
        }
    }
    Graph { n, adj }
}

pub fn run_graphs(ctx: &Ctx, report: &mut Report) {
    // exhaustive: all digraphs (self-loops included) on 1..=4 nodes
    let mut items: Vec<(usize, u64)> = vec![];
    for n in 0..=4usize {
        for mask in 0..(1u64 << (n * n)) {
            items.push((n, mask));
        }
    }
    // chunk to keep scheduling overhead low
    let chunks: Vec<Vec<(usize, u64)>> = items.chunks(512).map(|c| c.to_vec()).collect();
    let seed = ctx.seed;
    let r = run_items(ctx, "graphs-exhaustive", chunks, |chunk, stats| {
        for (n, mask) in chunk {
            let g = Graph::from_mask(*n, *mask);
            check_all_variants(&g, mix(seed, *mask), stats)?;
            if *n == 4 && *mask % 9973 == 1 {
                stats.sample(|| g.render());
            }
        }
        Ok(())
    });
    report.absorb(r);
    let cases = ctx.tier.pick(20_000, 600_000);
    let r = run_tapes(ctx, "graphs-random", cases, 200, |tape, stats| {
        let mut t = Tape::new(tape);
        let g = decode_graph(&mut t);
        check_all_variants(&g, mix(seed, hash_of(&g)), stats)?;
        stats.sample(|| g.render());
        Ok(())
    });
    report.absorb(r);
    report.extra.insert("exhaustive_graph_space".into(), json!("all digraphs with self-loops on 0..=4 nodes (69,905 graphs) × 3 labelings × {sinks explicit, implicit} × {batch, piecemeal release}"));
}

pub fn run(ctx: &Ctx) -> Report {
    let mut report = Report::new(
        "(a) graphs: every digraph on ≤4 nodes (exhaustive) and random digraphs on 5–12 nodes, each under 3 node \
         labelings × explicit/implicit sink nodes × batch/piecemeal release, against transitive-closure SCCs; \
         non-trivial = has a non-singleton SCC or ≥2 edges into one component; distinct by adjacency matrix; (b) generated begin-blocks with 2–9 `that` contributions (type declarations, value and thunk definitions with dependencies) printed in every permutation (≤4 contributions) or 8–30 random ones: same acceptance and (stdout, exit), equal to the reference machine; (c) 13 cycle probes (value / parameter / thunk / transparent-type cycles rejected with a diagnostic, type-only recursion accepted, no hang)",
    );
    report.exhaustive = Some(true);
    run_graphs(ctx, &mut report);
    crate::props::c08_blocks::run_blocks(ctx, &mut report);
    report.assume("reference SCCs by transitive closure are correct (12 lines, bit sets)");
    report
}

pub fn replay(_ctx: &Ctx, doc: &Value) -> Result<(), Fail> {
    let stage = doc["stage"].as_str().unwrap_or("");
    if stage.starts_with("graphs") {
        let r = &doc["rendered"];
        let n = r["graph"]["nodes"].as_u64().unwrap_or(0) as usize;
        let mut adj = vec![0u32; n];
        for e in r["graph"]["edges(dependent->dependency)"].as_array().cloned().unwrap_or_default() {
            let i = e[0].as_u64().unwrap() as usize;
            let j = e[1].as_u64().unwrap() as usize;
            adj[i] |= 1 << j;
        }
        let g = Graph { n, adj };
        let mut stats = Stats::new();
        return check_all_variants(&g, 1, &mut stats);
    }
    crate::props::c08_blocks::replay(_ctx, doc)
}
