pub mod drive;
pub mod engine;
pub mod props;
pub mod scan;
pub mod surfgen;
