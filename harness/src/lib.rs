pub mod core;
pub mod drive;
pub mod engine;
pub mod hmodel;
pub mod props;
pub mod scan;
pub mod sps;
pub mod surfgen;
