//! P-print: G-core AST → Zydeco source, in bidirectional *checking style*: every position that must
//! synthesise a type either is neutral (variable / host operation / elimination spine of one) or gets
//! an explicit annotation, so a generated program carries exactly the annotations Appendix A.3 asks for.

use super::ast::*;
use std::path::Path;

/// Names chosen for binders, type variables and declarations.
#[derive(Clone, Debug)]
pub struct Names {
    pub binder: Vec<String>,
    pub tyvar: Vec<String>,
    pub data: Vec<String>,
    pub codata: Vec<String>,
}

impl Names {
    pub fn unique(p: &Program) -> Names {
        Names {
            binder: (0..p.n_binders).map(|i| format!("v{i}")).collect(),
            tyvar: (0..p.n_tyvars).map(|i| format!("X{i}")).collect(),
            data: (0..p.datas.len()).map(|i| format!("D{i}")).collect(),
            codata: (0..p.codatas.len()).map(|i| format!("C{i}")).collect(),
        }
    }
}

/// Printing options (strategies that must not change meaning).
#[derive(Clone, Debug, Default)]
pub struct Style {
    /// regroup flat tuples / tuple patterns / product types to the right: (a, (b, c))
    pub regroup: bool,
    /// redundant parentheses around atoms
    pub extra_parens: bool,
    /// merge nested `fn` into one multi-parameter `fn`
    pub merge_fn: bool,
    /// print `let` value bindings with `def`
    pub def_values: bool,
    /// annotate copattern parameters
    pub annotate_coparams: bool,
    /// wrap sub-computations in `begin … end`
    pub blocks: bool,
    /// print a function telescope as one comatch clause of value patterns: `comatch | p q r => M end`
    pub fn_as_comatch: bool,
}

/// File splitting: closed literal sub-values are moved to provider files and imported.
#[derive(Clone, Debug, Default)]
pub struct Exporter {
    /// decisions consumed one per eligible literal: 0 = keep inline; k>0 = export (spelling k)
    pub plan: Vec<u8>,
    pub next: usize,
    /// provider files written so far: (file name, source text, type as a `.zyi` text)
    pub providers: Vec<(String, String, String)>,
    /// how the i-th provider is imported at this occurrence
    pub occurrences: usize,
}

pub struct Printer<'a> {
    pub prog: &'a Program,
    pub names: &'a Names,
    pub style: &'a Style,
    pub out: Vec<String>,
    pub exporter: Option<Exporter>,
    pub mutator: Option<crate::core::mutate::Mutator>,
    /// where the next checking site sits (set by the parent construct; used for mutation labels)
    pub hint: &'static str,
    /// emit scope markers (`\u{1}S<bid>` … `\u{1}E<bid>`) around the scope of every lexical term binder
    pub scopes: bool,
}

pub fn prelude(repo: &Path) -> String {
    let builtin = repo.join("lib/std/builtin.zy");
    let mut s = format!(
        r#"let Builtin = @[import("{}")] _ in
param (
  (/core; /representations; /numeric; /text; /system; builtin) :
  Builtin
) in
let (/VType; /CType; /Thk; /Ret; /Unit) = core in
let (/Scalar = Int8) = representations/i8 in
let (/Scalar = Int16) = representations/i16 in
let (/Scalar = Int32) = representations/i32 in
let (/Scalar = Int64) = representations/i64 in
let (/Scalar = UInt8) = representations/u8 in
let (/Scalar = UInt16) = representations/u16 in
let (/Scalar = UInt32) = representations/u32 in
let (/Scalar = UInt64) = representations/u64 in
let (/Scalar = Float32) = representations/f32 in
let (/Scalar = Float64) = representations/f64 in
let (/Scalar = Char) = representations/char in
let (/Scalar = String) = representations/string in
let (/Scalar = Bytes) = representations/bytes in
"#,
        builtin.display()
    );
    for (t, n) in [
        ("Int8", "int8"),
        ("Int16", "int16"),
        ("Int32", "int32"),
        ("Int64", "int64"),
        ("UInt8", "uint8"),
        ("UInt16", "uint16"),
        ("UInt32", "uint32"),
        ("UInt64", "uint64"),
        ("Float32", "float32"),
        ("Float64", "float64"),
    ] {
        s.push_str(&format!("let (Scalar = Numeric{t}, {n}) = numeric/{n} in\n"));
    }
    s.push_str("let (/char; /string; /bytes; text_rest) = text in\n");
    s.push_str("let (/Reader; /Writer; /OS; /process; /stdio; /io; /fs; /args; system_rest) = system in\n");
    s
}

/// Names the prelude opens: no naming strategy may reuse them.
pub const RESERVED: &[&str] = &[
    "Builtin", "core", "representations", "numeric", "text", "system", "builtin", "VType", "CType", "Thk", "Ret",
    "Unit", "Int8", "Int16", "Int32", "Int64", "UInt8", "UInt16", "UInt32", "UInt64", "Float32", "Float64", "Char",
    "String", "Bytes", "int8", "int16", "int32", "int64", "uint8", "uint16", "uint32", "uint64", "float32",
    "float64", "char", "string", "bytes", "text_rest", "Reader", "Writer", "OS", "process", "stdio", "io", "fs",
    "args", "system_rest", "NumericInt8", "NumericInt16", "NumericInt32", "NumericInt64", "NumericUInt8",
    "NumericUInt16", "NumericUInt32", "NumericUInt64", "NumericFloat32", "NumericFloat64",
];

pub fn escape_str(s: &str) -> String {
    let mut o = String::from("\"");
    for c in s.chars() {
        match c {
            | '"' => o.push_str("\\\""),
            | '\\' => o.push_str("\\\\"),
            | '\n' => o.push_str("\\n"),
            | '\t' => o.push_str("\\t"),
            | '\r' => o.push_str("\\r"),
            | c => o.push(c),
        }
    }
    o.push('"');
    o
}

pub fn escape_char(c: char) -> String {
    match c {
        | '\'' => "'\\''".into(),
        | '\\' => "'\\\\'".into(),
        | '\n' => "'\\n'".into(),
        | '\t' => "'\\t'".into(),
        | '\r' => "'\\r'".into(),
        | c => format!("'{c}'"),
    }
}

pub fn f64_literal(bits: u64) -> String {
    let v = f64::from_bits(bits);
    let s = format!("{v:?}");
    // Rust prints e.g. `1e21`, `1.5`, `-0.0`, `1e-7`: all are FloatLit spellings
    if s.contains('.') || s.contains('e') { s } else { format!("{s}.0") }
}

impl<'a> Printer<'a> {
    pub fn new(prog: &'a Program, names: &'a Names, style: &'a Style) -> Self {
        Printer { prog, names, style, out: vec![], exporter: None, mutator: None, hint: "root", scopes: false }
    }
    /// open the scopes of the binders of `p` (a no-op unless scope markers are requested)
    fn scope_open(&mut self, p: &Pat) -> Vec<Bid> {
        if !self.scopes {
            return vec![];
        }
        fn bs(p: &Pat, out: &mut Vec<Bid>) {
            match p {
                | Pat::Var(b) => out.push(*b),
                | Pat::Tuple(items) | Pat::Alias(items) => items.iter().for_each(|i| bs(i, out)),
                | Pat::Ctor(_, _, inner) => bs(inner, out),
                | _ => {}
            }
        }
        let mut out = vec![];
        bs(p, &mut out);
        for b in &out {
            self.out.push(format!("\u{1}S{b}"));
        }
        out
    }
    fn scope_close(&mut self, bids: Vec<Bid>) {
        for b in bids.into_iter().rev() {
            self.out.push(format!("\u{1}E{b}"));
        }
    }

    pub(crate) fn p(&mut self, s: &str) {
        self.out.push(s.to_string());
    }

    /* ----------------------------- types ---------------------------------- */

    /// level: 0 atom, 2 application, 3 product, 4 arrow, 5 quantifier
    pub fn vty(&mut self, t: &VTy, level: u8) {
        match t {
            | VTy::Int(i) => self.p(i.type_name()),
            | VTy::F64 => self.p("Float64"),
            | VTy::Str => self.p("String"),
            | VTy::Char => self.p("Char"),
            | VTy::Unit => self.p("Unit"),
            | VTy::Data(d) => {
                let n = self.names.data[*d].clone();
                self.p(&n)
            }
            | VTy::Var(x) => {
                let n = self.names.tyvar[*x as usize].clone();
                self.p(&n)
            }
            | VTy::Thk(c) => {
                let paren = level < 2;
                if paren {
                    self.p("(");
                }
                self.p("Thk");
                self.cty(c, 0);
                if paren {
                    self.p(")");
                }
            }
            | VTy::Prod(items) => {
                let paren = level < 3;
                if paren {
                    self.p("(");
                }
                let n = items.len();
                if self.style.regroup && n > 2 {
                    // A * (B * (C …)) — same type as A * B * C
                    for (i, it) in items.iter().enumerate() {
                        if i > 0 {
                            self.p("*");
                            if i + 1 < n {
                                self.p("(");
                            }
                        }
                        self.vty(it, 2);
                    }
                    for _ in 0..n - 2 {
                        self.p(")");
                    }
                } else {
                    for (i, it) in items.iter().enumerate() {
                        if i > 0 {
                            self.p("*");
                        }
                        self.vty(it, 2);
                    }
                }
                if paren {
                    self.p(")");
                }
            }
        }
    }

    pub fn cty(&mut self, t: &CTy, level: u8) {
        match t {
            | CTy::OS => self.p("OS"),
            | CTy::Codata(c) => {
                let n = self.names.codata[*c].clone();
                self.p(&n)
            }
            | CTy::Var(x) => {
                let n = self.names.tyvar[*x as usize].clone();
                self.p(&n)
            }
            | CTy::Ret(v) => {
                let paren = level < 2;
                if paren {
                    self.p("(");
                }
                self.p("Ret");
                self.vty(v, 0);
                if paren {
                    self.p(")");
                }
            }
            | CTy::Arrow(a, b) => {
                let paren = level < 4;
                if paren {
                    self.p("(");
                }
                self.vty(a, 3);
                self.p("->");
                self.cty(b, 4);
                if paren {
                    self.p(")");
                }
            }
            | CTy::ForallV(x, b) | CTy::ForallC(x, b) => {
                let paren = level < 5;
                if paren {
                    self.p("(");
                }
                self.p("forall");
                self.p("(");
                let n = self.names.tyvar[*x as usize].clone();
                self.p(&n);
                self.p(":");
                self.p(if matches!(t, CTy::ForallV(..)) { "VType" } else { "CType" });
                self.p(")");
                self.p(".");
                self.cty(b, 4);
                if paren {
                    self.p(")");
                }
            }
        }
    }

    pub(crate) fn tyarg(&mut self, a: &TyArg) {
        match a {
            | TyArg::V(v) => self.vty(v, 0),
            | TyArg::C(c) => self.cty(c, 0),
        }
    }

    /* ----------------------------- patterns ------------------------------- */

    pub fn pat(&mut self, p: &Pat) {
        match p {
            | Pat::Var(b) => {
                let n = self.names.binder[*b as usize].clone();
                self.p(&n)
            }
            | Pat::Wild => self.p("_"),
            | Pat::Unit => {
                if let Some(ch) = self.mut_site(11) {
                    self.applied("pattern-of-wrong-shape", false, "Unit", "pattern");
                    if ch % 2 == 0 {
                        for tok in ["(", "_", ",", "_", ")"] {
                            self.p(tok);
                        }
                    } else {
                        for tok in ["+Zq", "(", ")"] {
                            self.p(tok);
                        }
                    }
                    return;
                }
                self.p("()")
            }
            | Pat::Tuple(items) => {
                let n = items.len();
                self.p("(");
                if self.style.regroup && n > 2 {
                    for (i, it) in items.iter().enumerate() {
                        if i > 0 {
                            self.p(",");
                            if i + 1 < n {
                                self.p("(");
                            }
                        }
                        self.pat(it);
                    }
                    for _ in 0..n - 2 {
                        self.p(")");
                    }
                } else {
                    for (i, it) in items.iter().enumerate() {
                        if i > 0 {
                            self.p(",");
                        }
                        self.pat(it);
                    }
                }
                self.p(")");
            }
            | Pat::Ctor(d, c, inner) => {
                let mut name = self.prog.datas[*d].ctors[*c].0.clone();
                if self.mut_site(10).is_some() {
                    self.applied("unknown-constructor", false, "Data", "pattern");
                    name = "+Zq".into();
                }
                self.p(&name);
                match &**inner {
                    | Pat::Unit => self.p("()"),
                    | Pat::Tuple(_) => self.pat(inner),
                    | other => {
                        self.p("(");
                        self.pat(other);
                        self.p(")");
                    }
                }
            }
            | Pat::Alias(items) => {
                self.p("(");
                for (i, it) in items.iter().enumerate() {
                    if i > 0 {
                        self.p(";");
                    }
                    self.pat(it);
                }
                self.p(")");
            }
        }
    }

    pub(crate) fn pat_ann(&mut self, p: &Pat, t: &VTy) {
        self.p("(");
        self.pat(p);
        self.p(":");
        if let Some(ch) = self.mut_site(13) {
            // the parameter annotation of a function / clause checked against a known arrow / destructor type
            let t2 = self.near_v(t, ch);
            self.applied("parameter-annotation-changed", false, Self::former_v(t), "fn-param");
            self.vty(&t2, 5);
        } else {
            self.vty(t, 5);
        }
        self.p(")");
    }

    /* ----------------------------- values --------------------------------- */

    /// Print a value in checking position against `t`, as an atomic term.
    pub fn val(&mut self, v: &Val, t: &VTy) {
        let kind = match t {
            | VTy::Data(_) => 1,
            | VTy::Thk(_) => 2,
            | _ => 0,
        };
        if let Some(ch) = self.mut_site(kind) {
            self.mutate_val(v, t, ch);
            return;
        }
        if self.style.extra_parens && matches!(v, Val::Var(_) | Val::Int(..) | Val::Str(_)) {
            self.p("(");
            self.val_inner(v, t);
            self.p(")");
        } else {
            self.val_inner(v, t);
        }
    }

    /// Text and signature of a closed literal value that can live in a provider file (its type must be
    /// synthesisable without the prelude: Int64, String, Char, Unit and products of them).
    pub(crate) fn closed_literal(v: &Val, t: &VTy) -> Option<(String, String)> {
        match (v, t) {
            | (Val::Int(crate::hmodel::IntTy::I64, n), VTy::Int(crate::hmodel::IntTy::I64)) => Some((format!("{n}"), "(@(intrinsic(i64)))".into())),
            | (Val::Str(s), VTy::Str) => Some((escape_str(s), "(@(intrinsic(string)))".into())),
            | (Val::Char(c), VTy::Char) => Some((escape_char(*c), "(@(intrinsic(char)))".into())),
            | (Val::Unit, VTy::Unit) => Some(("()".into(), "(@(intrinsic(unit)))".into())),
            | (Val::Tuple(items), VTy::Prod(tys)) if items.len() == tys.len() => {
                let parts: Option<Vec<(String, String)>> = items.iter().zip(tys.iter()).map(|(i, ty)| Self::closed_literal(i, ty)).collect();
                let parts = parts?;
                Some((
                    format!("({})", parts.iter().map(|p| p.0.clone()).collect::<Vec<_>>().join(", ")),
                    format!("({})", parts.iter().map(|p| p.1.clone()).collect::<Vec<_>>().join(" * ")),
                ))
            }
            | _ => None,
        }
    }

    pub(crate) fn val_inner(&mut self, v: &Val, t: &VTy) {
        if self.exporter.is_some() {
            if let Some((text, sig)) = Self::closed_literal(v, t) {
                let ex = self.exporter.as_mut().unwrap();
                let decision = ex.plan.get(ex.next).copied().unwrap_or(0);
                ex.next += 1;
                if decision > 0 {
                    // reuse an existing provider with the same text (imported several times) or add one
                    let idx = match ex.providers.iter().position(|p| p.1 == text) {
                        | Some(i) => i,
                        | None => {
                            ex.providers.push((format!("p{}.zy", ex.providers.len()), text, sig));
                            ex.providers.len() - 1
                        }
                    };
                    ex.occurrences += 1;
                    let name = ex.providers[idx].0.clone();
                    let spelled = match decision % 4 {
                        | 1 => format!("\"{name}\""),
                        | 2 => format!("\"./{name}\""),
                        | 3 => format!("\"sub/../{name}\""),
                        | _ => format!("\"{name}\""),
                    };
                    if decision % 8 >= 4 {
                        for tok in ["(", "@", "[", "import", "(", &spelled, ")", "]", "_", ")"] {
                            self.p(tok);
                        }
                    } else {
                        for tok in ["(", "@", "(", "import", "(", &spelled, ")", ")", ")"] {
                            self.p(tok);
                        }
                    }
                    return;
                }
            }
        }
        match v {
            | Val::Var(b) => {
                let n = self.names.binder[*b as usize].clone();
                self.p(&n)
            }
            | Val::Int(_, n) => self.p(&format!("{n}")),
            | Val::F64(b) => self.p(&f64_literal(*b)),
            | Val::Str(s) => self.p(&escape_str(s)),
            | Val::Char(c) => self.p(&escape_char(*c)),
            | Val::Unit => self.p("()"),
            | Val::Host(op) => {
                self.p("(");
                let path = op.path();
                let mut parts = path.split('/');
                self.p(parts.next().unwrap());
                for part in parts {
                    self.p("/");
                    self.p(part);
                }
                self.p(")");
            }
            | Val::Tuple(items) => {
                let tys: Vec<VTy> = match t {
                    | VTy::Prod(ts) => ts.clone(),
                    | other => vec![other.clone()],
                };
                let n = items.len();
                let comp_ty = |i: usize| -> VTy {
                    if i + 1 == n { prod(tys[i..].to_vec()) } else { tys[i].clone() }
                };
                self.p("(");
                if self.style.regroup && n > 2 {
                    for (i, it) in items.iter().enumerate() {
                        if i > 0 {
                            self.p(",");
                            if i + 1 < n {
                                self.p("(");
                            }
                        }
                        self.hint = "tuple-component";
                        self.val(it, &comp_ty(i));
                    }
                    for _ in 0..n - 2 {
                        self.p(")");
                    }
                } else {
                    for (i, it) in items.iter().enumerate() {
                        if i > 0 {
                            self.p(",");
                        }
                        self.hint = "tuple-component";
                        self.val(it, &comp_ty(i));
                    }
                }
                self.p(")");
            }
            | Val::Ctor(d, c, payload) => {
                let (mut name, pty) = self.prog.datas[*d].ctors[*c].clone();
                if self.mut_site(9).is_some() {
                    self.applied("unknown-constructor", false, "Data", "value");
                    name = "+Zq".into();
                }
                self.p(&name);
                match &**payload {
                    | Val::Unit => self.p("()"),
                    | Val::Tuple(_) => self.val_inner(payload, &pty),
                    | other => {
                        self.p("(");
                        self.hint = "constructor-payload";
                        self.val(other, &pty);
                        self.p(")");
                    }
                }
            }
            | Val::Thunk(c) => {
                let VTy::Thk(b) = t else { panic!("harness: thunk printed against non-thunk type {t:?}") };
                self.p("{");
                self.hint = "thunk-body";
                self.comp(c, b);
                self.p("}");
            }
        }
    }

    /// A value in synthesis position (scrutinee, forced value): neutral or annotated.
    pub(crate) fn val_syn(&mut self, v: &Val, t: &VTy) {
        match v {
            | Val::Var(_) | Val::Host(_) => self.val_inner(v, t),
            | _ => {
                self.p("(");
                self.val_inner(v, t);
                self.p(":");
                self.vty(t, 5);
                self.p(")");
            }
        }
    }

    /* --------------------------- computations ----------------------------- */

    pub(crate) fn neutral(c: &Comp) -> bool {
        match c {
            | Comp::Force(Val::Var(_) | Val::Host(_), _) => true,
            | Comp::App(h, _, _) | Comp::TApp(h, _, _) | Comp::Dtor(h, _, _, _) => Self::neutral(h),
            | _ => false,
        }
    }

    /// A computation in synthesis position (head of an elimination, `do` bindee).
    pub(crate) fn head(&mut self, c: &Comp, t: &CTy, atomic: bool) {
        if Self::neutral(c) {
            let simple = matches!(c, Comp::Force(..));
            if atomic && !simple {
                self.p("(");
                self.comp_inner(c, t);
                self.p(")");
            } else {
                self.comp_inner(c, t);
            }
        } else {
            self.p("(");
            self.comp(c, t);
            self.p(":");
            self.cty(t, 5);
            self.p(")");
        }
    }

    /// Print a computation in checking position against `t`.
    pub fn comp(&mut self, c: &Comp, t: &CTy) {
        if let Some(ch) = self.mut_site(if matches!(t, CTy::Codata(_)) { 4 } else { 3 }) {
            self.mutate_comp(c, t, ch);
            return;
        }
        if self.style.blocks && matches!(c, Comp::Do(..) | Comp::Let(..) | Comp::Match(..)) {
            self.p("begin");
            self.comp_inner(c, t);
            self.p("end");
        } else {
            self.comp_inner(c, t);
        }
    }

    pub(crate) fn comp_inner(&mut self, c: &Comp, t: &CTy) {
        match c {
            | Comp::Ret(v) => {
                let CTy::Ret(a) = t else { panic!("harness: ret against {t:?}") };
                self.p("ret");
                self.hint = "ret";
                self.val(v, a);
            }
            | Comp::Do(p, a, m, n) => {
                self.p("do");
                self.pat(p);
                self.p("<-");
                self.head(m, &CTy::Ret(Box::new(a.clone())), false);
                self.p(";");
                self.hint = "do-tail";
                let sc = self.scope_open(p);
                self.comp(n, t);
                self.scope_close(sc);
            }
            | Comp::Let(p, a, v, n) => {
                self.p(if self.style.def_values { "def" } else { "let" });
                self.pat(p);
                self.p(":");
                // only a variable bindee has a type the annotation cannot re-interpret
                let site = if matches!(v, Val::Var(_)) { self.mut_site(12) } else { None };
                if let Some(ch) = site {
                    let a2 = self.near_v(a, ch);
                    self.applied("let-annotation-changed", false, Self::former_v(a), "let");
                    self.vty(&a2, 5);
                    self.p("=");
                    self.val_inner(v, a);
                } else {
                    self.vty(a, 5);
                    self.p("=");
                    self.hint = "let-bindee";
                    self.val(v, a);
                }
                self.p("in");
                self.hint = "let-body";
                let sc = self.scope_open(p);
                self.comp(n, t);
                self.scope_close(sc);
            }
            | Comp::Fn(..) if self.style.fn_as_comatch => {
                self.p("comatch");
                self.p("|");
                let mut cur = c;
                let mut ty = t;
                let mut sc = vec![];
                loop {
                    let (Comp::Fn(p, a, m), CTy::Arrow(_, b)) = (cur, ty) else { break };
                    self.pat_ann(p, a);
                    sc.extend(self.scope_open(p));
                    cur = m;
                    ty = b;
                }
                self.p("=>");
                self.hint = "fn-body";
                self.comp(cur, ty);
                self.scope_close(sc);
                self.p("end");
            }
            | Comp::Fn(..) => {
                self.p("fn");
                let mut cur = c;
                let mut ty = t;
                let mut sc = vec![];
                loop {
                    let (Comp::Fn(p, a, m), CTy::Arrow(_, b)) = (cur, ty) else { break };
                    self.pat_ann(p, a);
                    sc.extend(self.scope_open(p));
                    cur = m;
                    ty = b;
                    if !self.style.merge_fn {
                        break;
                    }
                }
                self.p("=>");
                self.hint = "fn-body";
                self.comp(cur, ty);
                self.scope_close(sc);
            }
            | Comp::TFn(x, is_c, m) => {
                let body_ty = match t {
                    | CTy::ForallV(_, b) | CTy::ForallC(_, b) => b,
                    | _ => panic!("harness: type abstraction against {t:?}"),
                };
                self.p("fn");
                self.p("(");
                let n = self.names.tyvar[*x as usize].clone();
                self.p(&n);
                self.p(":");
                let mut is_c = *is_c;
                if self.mut_site(15).is_some() {
                    self.applied("type-binder-kind-changed", false, "Forall", "type-abstraction");
                    is_c = !is_c;
                }
                self.p(if is_c { "CType" } else { "VType" });
                self.p(")");
                self.p("=>");
                self.hint = "type-abstraction-body";
                self.comp(m, body_ty);
            }
            | Comp::App(h, ht, v) => {
                let CTy::Arrow(a, _) = ht else { panic!("harness: application head type {ht:?}") };
                self.head(h, ht, false);
                if let Some(ch) = self.mut_site(5) {
                    self.applied("function-eliminated-at-wrong-former", false, "Arrow", "application");
                    self.p(if ch % 2 == 0 { ".zq" } else { "Int64" });
                    return;
                }
                self.hint = "argument";
                self.val(v, a);
            }
            | Comp::TApp(h, ht, arg) => {
                self.head(h, ht, false);
                if let Some(ch) = self.mut_site(6) {
                    match ch % 3 {
                        | 0 => {
                            self.applied("type-argument-of-wrong-kind", false, "Forall", "type-application");
                            match arg {
                                | TyArg::V(_) => {
                                    for tok in ["(", "Ret", "Unit", ")"] {
                                        self.p(tok);
                                    }
                                }
                                | TyArg::C(_) => self.p("Unit"),
                            }
                        }
                        | 1 => {
                            self.applied("forall-eliminated-at-wrong-former", false, "Forall", "type-application");
                            self.p("5");
                        }
                        | _ => {
                            self.applied("forall-eliminated-at-wrong-former", false, "Forall", "type-application");
                            self.p(".zq");
                        }
                    }
                    return;
                }
                self.tyarg(arg);
            }
            | Comp::Force(v, b) => {
                self.p("!");
                self.val_syn(v, &VTy::Thk(Box::new(b.clone())));
            }
            | Comp::Match(v, a, arms) => {
                self.p("match");
                self.val_syn(v, a);
                for arm in arms {
                    self.p("|");
                    self.pat(&arm.pat);
                    self.p("=>");
                    self.hint = "match-arm";
                    let sc = self.scope_open(&arm.pat);
                    self.comp(&arm.body, t);
                    self.scope_close(sc);
                }
                self.p("end");
            }
            | Comp::Comatch(cd, clauses) => {
                self.p("comatch");
                for cl in clauses {
                    let decl = self.prog.codatas[*cd].dtors[cl.dtor].clone();
                    // clause-level edits: 0 unknown destructor; 1 the last parameter moved into a `fn` (another
                    // spelling of the same clause); 2 that spelling *next to* the original, 3 the clause twice,
                    // 4 the clause dropped (2–4 are free-form: only totality of the front end is demanded)
                    let edit = self.mut_site(8).map(|ch| ch % 5);
                    let n_params = cl.params.len();
                    match edit {
                        | Some(1) if n_params >= 1 => self.applied("clause-parameter-moved-into-fn", true, "Codata", "comatch-clause"),
                        | Some(2) if n_params >= 1 => self.applied_free("clause-and-its-split-spelling"),
                        | Some(3) => self.applied_free("clause-duplicated"),
                        | Some(4) => {
                            self.applied_free("clause-dropped");
                            continue;
                        }
                        | Some(_) => self.applied("unknown-destructor", false, "Codata", "comatch-clause"),
                        | None => {}
                    }
                    let split_spelling = matches!(edit, Some(1) | Some(2)) && n_params >= 1;
                    let twice = matches!(edit, Some(3)) || (matches!(edit, Some(2)) && n_params >= 1);
                    if twice {
                        // the original spelling first (no further sites inside: the edit is already applied)
                        self.p("|");
                        self.p(&decl.name);
                        for (p, _) in &cl.params {
                            self.pat(p);
                        }
                        self.p("=>");
                        let mut rt0 = decl.result.clone();
                        for a in decl.params[cl.params.len()..].iter().rev() {
                            rt0 = CTy::Arrow(Box::new(a.clone()), Box::new(rt0));
                        }
                        self.comp(&cl.body, &rt0);
                    }
                    if split_spelling {
                        self.p("|");
                        self.p(&decl.name);
                        for (p, _) in &cl.params[..n_params - 1] {
                            self.pat(p);
                        }
                        self.p("=>");
                        self.p("fn");
                        let (lp, la) = cl.params[n_params - 1].clone();
                        self.pat_ann(&lp, &la);
                        self.p("=>");
                        let mut rt0 = decl.result.clone();
                        for a in decl.params[cl.params.len()..].iter().rev() {
                            rt0 = CTy::Arrow(Box::new(a.clone()), Box::new(rt0));
                        }
                        self.comp(&cl.body, &rt0);
                        continue;
                    }
                    self.p("|");
                    if matches!(edit, Some(0)) || (matches!(edit, Some(1) | Some(2)) && n_params == 0) {
                        self.p(".zq");
                    } else {
                        self.p(&decl.name);
                    }
                    let mut sc = vec![];
                    for (p, a) in &cl.params {
                        if self.style.annotate_coparams {
                            self.pat_ann(p, a);
                        } else {
                            self.pat(p);
                        }
                        sc.extend(self.scope_open(p));
                    }
                    self.p("=>");
                    // clause body type: remaining parameters as arrows
                    let mut rt = decl.result.clone();
                    for a in decl.params[cl.params.len()..].iter().rev() {
                        rt = CTy::Arrow(Box::new(a.clone()), Box::new(rt));
                    }
                    self.hint = "comatch-clause";
                    self.comp(&cl.body, &rt);
                    self.scope_close(sc);
                }
                self.p("end");
            }
            | Comp::Dtor(h, cd, d, args) => {
                let decl = self.prog.codatas[*cd].dtors[*d].clone();
                self.head(h, &CTy::Codata(*cd), false);
                if let Some(ch) = self.mut_site(7) {
                    if ch % 2 == 0 {
                        self.applied("unknown-destructor", false, "Codata", "destructor");
                        self.p(".zq");
                    } else {
                        self.applied("codata-eliminated-at-wrong-former", false, "Codata", "destructor");
                        self.p("()");
                    }
                    return;
                }
                self.p(&decl.name);
                for (a, ty) in args.iter().zip(decl.params.iter()) {
                    self.hint = "destructor-argument";
                    self.val(a, ty);
                }
            }
            | Comp::Fix(f, b, m) => {
                self.p("fix");
                self.p("(");
                let n = self.names.binder[*f as usize].clone();
                self.p(&n);
                self.p(":");
                if let Some(ch) = self.mut_site(14) {
                    let b2 = self.near_c(b, ch);
                    self.applied("fix-annotation-changed", false, Self::former_c(b), "fix");
                    self.vty(&VTy::Thk(Box::new(b2)), 5);
                } else {
                    self.vty(&VTy::Thk(Box::new(b.clone())), 5);
                }
                self.p(")");
                self.p("=>");
                self.hint = "fix-body";
                let sc = self.scope_open(&Pat::Var(*f));
                self.comp(m, b);
                self.scope_close(sc);
            }
        }
    }

    /* ------------------------------ program ------------------------------- */

    pub fn decls(&mut self) {
        for (i, d) in self.prog.datas.iter().enumerate() {
            let sealed = d.sealed || d.recursive;
            self.p(if sealed { "def" } else { "let" });
            let n = self.names.data[i].clone();
            self.p(&n);
            self.p(":");
            self.p("VType");
            self.p("=");
            self.p("data");
            for (name, ty) in &d.ctors {
                self.p("|");
                self.p(name);
                self.p(":");
                self.vty(ty, 5);
            }
            self.p("end");
            self.p("that");
            self.p("\n");
        }
        for (i, d) in self.prog.codatas.iter().enumerate() {
            let sealed = d.sealed || d.recursive;
            self.p(if sealed { "def" } else { "let" });
            let n = self.names.codata[i].clone();
            self.p(&n);
            self.p(":");
            self.p("CType");
            self.p("=");
            self.p("codata");
            for dt in &d.dtors {
                self.p("|");
                self.p(&dt.name);
                self.p(":");
                let mut t = dt.result.clone();
                for a in dt.params.iter().rev() {
                    t = CTy::Arrow(Box::new(a.clone()), Box::new(t));
                }
                self.cty(&t, 5);
            }
            self.p("end");
            self.p("that");
            self.p("\n");
        }
    }

    /// The program as one block whose first `k` lets of main are `that` contributions, all
    /// contributions (type declarations included) printed in the order `perm` (a permutation of
    /// 0..ndecls+k, declaration indices first).
    pub fn program_as_block(&mut self, k: usize, perm: &[usize]) {
        let nd = self.prog.datas.len() + self.prog.codatas.len();
        // render declarations separately
        let saved = std::mem::take(&mut self.out);
        self.decls();
        let decl_tokens = std::mem::take(&mut self.out);
        let mut decl_chunks: Vec<Vec<String>> = vec![];
        let mut cur = vec![];
        for t in decl_tokens {
            let nl = t == "\n";
            cur.push(t);
            if nl {
                decl_chunks.push(std::mem::take(&mut cur));
            }
        }
        assert_eq!(decl_chunks.len(), nd, "one chunk per declaration");
        // peel k lets
        let mut lets = vec![];
        let mut body = self.prog.main.clone();
        for _ in 0..k {
            let Comp::Let(p, a, v, n) = body else { panic!("harness: block program with fewer lets than promised") };
            lets.push((p, a, v));
            body = *n;
        }
        self.out = saved;
        self.p("begin");
        self.p("\n");
        for i in perm {
            if *i < nd {
                let chunk = decl_chunks[*i].clone();
                self.out.extend(chunk);
            } else {
                let (p, a, v) = lets[*i - nd].clone();
                self.p(if self.style.def_values { "def" } else { "let" });
                self.pat(&p);
                self.p(":");
                self.vty(&a, 5);
                self.p("=");
                self.val(&v, &a);
                self.p("that");
                self.p("\n");
            }
        }
        self.p("(");
        self.comp(&body, &CTy::OS);
        self.p(":");
        self.p("OS");
        self.p(")");
        self.p("\n");
        self.p("end");
        self.p("\n");
    }

    /// As `program_as_block`, but the first `k` lets form an inner block in which the flagged ones are
    /// `param (x : T) that` contributions, the block being applied to their values in parameter order:
    /// `((begin … end : T1 -> … -> OS) v1 …)`.  Type declarations stay in the outer block.  `order` lists
    /// the inner contributions (0..k) in print order; parameters must keep their relative order in it.
    pub fn program_as_param_block(&mut self, k: usize, order: &[usize], params: &[bool]) {
        let mut lets = vec![];
        let mut body = self.prog.main.clone();
        for _ in 0..k {
            let Comp::Let(p, a, v, n) = body else { panic!("harness: block program with fewer lets than promised") };
            lets.push((p, a, v));
            body = *n;
        }
        self.p("begin");
        self.p("\n");
        self.decls();
        self.p("(");
        self.p("(");
        self.p("begin");
        self.p("\n");
        for i in order {
            let (p, a, v) = lets[*i].clone();
            if params[*i] {
                self.p("param");
                self.p("(");
                self.pat(&p);
                self.p(":");
                self.vty(&a, 5);
                self.p(")");
            } else {
                self.p(if self.style.def_values { "def" } else { "let" });
                self.pat(&p);
                self.p(":");
                self.vty(&a, 5);
                self.p("=");
                self.val(&v, &a);
            }
            self.p("that");
            self.p("\n");
        }
        self.p("(");
        self.comp(&body, &CTy::OS);
        self.p(":");
        self.p("OS");
        self.p(")");
        self.p("\n");
        self.p("end");
        self.p(":");
        for i in 0..k {
            if params[i] {
                let a = lets[i].1.clone();
                self.vty(&a, 3);
                self.p("->");
            }
        }
        self.p("OS");
        self.p(")");
        for i in 0..k {
            if params[i] {
                let (_, a, v) = lets[i].clone();
                self.val(&v, &a);
            }
        }
        self.p(":");
        self.p("OS");
        self.p(")");
        self.p("\n");
        self.p("end");
        self.p("\n");
    }

    /// The body after the prelude.
    pub fn program(&mut self) {
        self.p("begin");
        self.p("\n");
        self.decls();
        if let Some(m) = self.mutator.as_mut() {
            m.decl_insert = Some(self.out.len());
        }
        self.p("(");
        self.comp(&self.prog.main.clone(), &CTy::OS);
        self.p(":");
        self.p("OS");
        self.p(")");
        self.p("\n");
        self.p("end");
        self.p("\n");
        if let Some(m) = self.mutator.as_mut() {
            if let (Some(at), false) = (m.decl_insert, m.extra_decl.is_empty()) {
                let extra = std::mem::take(&mut m.extra_decl);
                self.out.splice(at..at, extra);
            }
        }
    }
}

/// Join tokens; newlines in the token stream are kept, other gaps are single spaces with a line
/// break every ~12 tokens (keeps diagnostics readable).
pub fn join(tokens: &[String]) -> String {
    let mut s = String::new();
    let mut col = 0usize;
    for t in tokens {
        if t.starts_with('\u{1}') {
            continue;
        }
        if t == "\n" {
            s.push('\n');
            col = 0;
            continue;
        }
        if col > 0 {
            if col > 90 {
                s.push('\n');
                col = 0;
            } else {
                s.push(' ');
                col += 1;
            }
        }
        s.push_str(t);
        col += t.len();
    }
    s
}

pub fn print_program(repo: &Path, prog: &Program, names: &Names, style: &Style) -> String {
    let mut pr = Printer::new(prog, names, style);
    pr.program();
    format!("{}{}", prelude(repo), join(&pr.out))
}
