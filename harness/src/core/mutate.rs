//! C03: derivation-aware mutation of generated core programs.  The generated program is its own typing
//! derivation (every checking site knows the type it is checked against), so a local edit at one site
//! has a known classification: *definite error* (the edit puts a term of a definitely different type,
//! former, sort or kind there, or relies on a sealed/abstract representation) or *type preserving* (a
//! redundant annotation, a transparent alias, an administrative redex, opening a package abstractly).

use super::ast::*;
use super::print::Printer;
use crate::hmodel::IntTy;

#[derive(Clone, Debug)]
pub struct Applied {
    pub op: &'static str,
    pub expect_accept: bool,
    pub former: String,
    pub ctx: &'static str,
    /// free-form edit: no classification is claimed (used for totality checks only)
    pub free: bool,
}

#[derive(Clone, Debug, Default)]
pub struct Mutator {
    /// (site kind, index among the sites of that kind) to mutate (None: counting pass)
    pub target: Option<(usize, usize)>,
    /// operator choice
    pub choice: u32,
    /// sites seen so far per kind (pre-order)
    pub sites: [usize; N_KINDS],
    pub applied: Option<Applied>,
    /// token index after the declarations (extra aliases are spliced there)
    pub decl_insert: Option<usize>,
    pub extra_decl: Vec<String>,
}

pub const N_KINDS: usize = 16;
pub const KIND_NAMES: [&str; N_KINDS] = [
    "value", "value-of-data-type", "value-of-thunk-type", "computation", "computation-of-codata-type", "application",
    "type-application", "destructor", "comatch-clause", "constructor", "constructor-pattern", "unit-pattern",
    "let-annotation", "parameter-annotation", "fix-annotation", "type-binder",
];
pub const KIND_WEIGHTS: [u32; N_KINDS] = [6, 5, 2, 10, 4, 2, 2, 2, 2, 1, 1, 1, 2, 2, 2, 2];

const INT_TYPES: [IntTy; 8] = [IntTy::I8, IntTy::I16, IntTy::I32, IntTy::I64, IntTy::U8, IntTy::U16, IntTy::U32, IntTy::U64];

impl<'a> Printer<'a> {
    /// Register a mutation site; returns the operator choice when this is the targeted one.
    pub(crate) fn mut_site(&mut self, kind: usize) -> Option<u32> {
        let m = self.mutator.as_mut()?;
        let idx = m.sites[kind];
        m.sites[kind] += 1;
        if m.target == Some((kind, idx)) && m.applied.is_none() { Some(m.choice) } else { None }
    }

    pub(crate) fn applied(&mut self, op: &'static str, expect_accept: bool, former: impl Into<String>, ctx: &'static str) {
        if let Some(m) = self.mutator.as_mut() {
            m.applied = Some(Applied { op, expect_accept, former: former.into(), ctx, free: false });
        }
    }

    pub(crate) fn applied_free(&mut self, op: &'static str) {
        if let Some(m) = self.mutator.as_mut() {
            m.applied = Some(Applied { op, expect_accept: false, former: "-".into(), ctx: "free-form", free: true });
        }
    }

    pub(crate) fn former_v(t: &VTy) -> &'static str {
        match t {
            | VTy::Int(_) => "Int",
            | VTy::F64 => "Float64",
            | VTy::Str => "String",
            | VTy::Char => "Char",
            | VTy::Unit => "Unit",
            | VTy::Prod(_) => "Prod",
            | VTy::Data(_) => "Data",
            | VTy::Thk(_) => "Thk",
            | VTy::Var(_) => "TypeVar",
        }
    }
    pub(crate) fn former_c(t: &CTy) -> &'static str {
        match t {
            | CTy::Ret(_) => "Ret",
            | CTy::Arrow(..) => "Arrow",
            | CTy::ForallV(..) | CTy::ForallC(..) => "Forall",
            | CTy::Codata(_) => "Codata",
            | CTy::OS => "OS",
            | CTy::Var(_) => "CTypeVar",
        }
    }

    fn closed_v(t: &VTy) -> bool {
        match t {
            | VTy::Var(_) => false,
            | VTy::Prod(v) => v.iter().all(Self::closed_v),
            | VTy::Thk(c) => Self::closed_c(c),
            | _ => true,
        }
    }
    fn closed_c(t: &CTy) -> bool {
        match t {
            | CTy::Var(_) => false,
            | CTy::Ret(v) => Self::closed_v(v),
            | CTy::Arrow(a, b) => Self::closed_v(a) && Self::closed_c(b),
            // bound variables print by name and are bound inside: a quantified type is closed when the
            // body mentions no *other* variable; keep it simple and say no
            | CTy::ForallV(..) | CTy::ForallC(..) => false,
            | _ => true,
        }
    }

    /// A type definitely different from `t` (never equal under the documented equality: structural
    /// with alpha-correspondence, products right-nested, named declarations distinct by constructor /
    /// destructor names), close to it where possible so that one comparison decides.
    pub(crate) fn near_v(&self, t: &VTy, ch: u32) -> VTy {
        let far = |t: &VTy| if matches!(t, VTy::Str) { VTy::Int(IntTy::I64) } else { VTy::Str };
        match t {
            | VTy::Int(w) => {
                let others: Vec<IntTy> = INT_TYPES.iter().copied().filter(|x| x != w).collect();
                VTy::Int(others[(ch / 7) as usize % others.len()])
            }
            | VTy::F64 => VTy::Int(IntTy::I64),
            | VTy::Str => [VTy::Char, VTy::Int(IntTy::I64), VTy::Unit][(ch / 7) as usize % 3].clone(),
            | VTy::Char => [VTy::Str, VTy::Int(IntTy::U32)][(ch / 7) as usize % 2].clone(),
            | VTy::Unit => [VTy::Int(IntTy::I64), VTy::Prod(vec![VTy::Unit, VTy::Unit])][(ch / 7) as usize % 2].clone(),
            | VTy::Prod(items) => {
                let k = (ch / 7) as usize % items.len();
                match (ch / 3) % 4 {
                    | 0 => {
                        // one component changed
                        let mut v = items.clone();
                        v[k] = self.near_v(&items[k], ch / 11);
                        // keep the canonical right-nested form definite: a changed last component must not
                        // become a product that re-associates into the same type — it cannot equal anyway
                        VTy::Prod(v)
                    }
                    | 1 => {
                        // one component dropped
                        let mut v = items.clone();
                        v.remove(k);
                        prod(v)
                    }
                    | 2 => {
                        // one more component (Unit in front: A*B vs Unit*A*B)
                        let mut v = items.clone();
                        v.insert(0, VTy::Unit);
                        VTy::Prod(v)
                    }
                    | _ => {
                        // two components of different types swapped, else far
                        let j = (k + 1) % items.len();
                        if items[k] != items[j] {
                            let mut v = items.clone();
                            v.swap(k, j);
                            let swapped = prod(v);
                            if &swapped != t { swapped } else { far(t) }
                        } else {
                            far(t)
                        }
                    }
                }
            }
            | VTy::Data(d) => {
                let n = self.prog.datas.len();
                if n >= 2 && ch % 2 == 0 { VTy::Data((d + 1 + (ch / 7) as usize % (n - 1)) % n) } else { far(t) }
            }
            | VTy::Thk(c) => match (ch / 3) % 3 {
                | 0 | 1 => VTy::Thk(Box::new(self.near_c(c, ch / 5))),
                | _ => VTy::Unit,
            },
            | VTy::Var(_) => [VTy::Int(IntTy::I64), VTy::Unit][(ch / 7) as usize % 2].clone(),
        }
    }

    pub(crate) fn near_c(&self, t: &CTy, ch: u32) -> CTy {
        match t {
            | CTy::Ret(a) => match (ch / 3) % 4 {
                | 0 | 1 | 2 => CTy::Ret(Box::new(self.near_v(a, ch / 5))),
                | _ => CTy::OS,
            },
            | CTy::Arrow(a, b) => match (ch / 3) % 4 {
                | 0 => CTy::Arrow(Box::new(self.near_v(a, ch / 5)), b.clone()),
                | 1 => CTy::Arrow(a.clone(), Box::new(self.near_c(b, ch / 5))),
                | 2 => CTy::Arrow(Box::new(VTy::Unit), Box::new(t.clone())),
                | _ => (**b).clone(),
            },
            | CTy::ForallV(x, b) => match (ch / 3) % 2 {
                | 0 => CTy::ForallV(*x, Box::new(self.near_c(b, ch / 5))),
                | _ => CTy::Arrow(Box::new(VTy::Unit), Box::new(b.subst(*x, &TyArg::V(VTy::Unit)))),
            },
            | CTy::ForallC(x, b) => match (ch / 3) % 2 {
                | 0 => CTy::ForallC(*x, Box::new(self.near_c(b, ch / 5))),
                | _ => CTy::Arrow(Box::new(VTy::Unit), Box::new(b.subst(*x, &TyArg::C(CTy::OS)))),
            },
            | CTy::Codata(c) => {
                let n = self.prog.codatas.len();
                if n >= 2 && ch % 2 == 0 { CTy::Codata((c + 1 + (ch / 7) as usize % (n - 1)) % n) } else { CTy::Ret(Box::new(VTy::Unit)) }
            }
            | CTy::OS => [CTy::Ret(Box::new(VTy::Unit)), CTy::Arrow(Box::new(VTy::Unit), Box::new(CTy::OS))][(ch / 7) as usize % 2].clone(),
            | CTy::Var(_) => [CTy::OS, CTy::Ret(Box::new(VTy::Unit))][(ch / 7) as usize % 2].clone(),
        }
    }

    /// A closed literal whose type is definitely not `t`.
    fn far_literal(&mut self, t: &VTy, ch: u32) {
        match t {
            | VTy::Int(w) => match ch % 3 {
                | 0 => self.p("\"zz\""),
                | 1 => {
                    // a literal pinned at another width
                    let others: Vec<IntTy> = INT_TYPES.iter().copied().filter(|x| x != w).collect();
                    let o = others[(ch / 7) as usize % others.len()];
                    self.toks(&["(", "5", ":", o.type_name(), ")"]);
                }
                | _ => self.p("()"),
            },
            | VTy::F64 => self.p(["\"zz\"", "'c'", "()"][(ch % 3) as usize]),
            | VTy::Str => self.p(["5", "'c'", "()"][(ch % 3) as usize]),
            | VTy::Char => self.p(["5", "\"zz\"", "()"][(ch % 3) as usize]),
            | VTy::Unit => self.p(["5", "\"zz\"", "'c'"][(ch % 3) as usize]),
            | VTy::Prod(_) | VTy::Data(_) | VTy::Thk(_) | VTy::Var(_) => self.p(["5", "\"zz\"", "()"][(ch % 3) as usize]),
        }
    }

    pub(crate) fn toks(&mut self, toks: &[&str]) {
        for t in toks {
            self.p(t);
        }
    }

    fn alias_decl_v(&mut self, sealed: bool, t: &VTy) {
        let saved = std::mem::take(&mut self.out);
        self.toks(&[if sealed { "def" } else { "let" }, "Zs", ":", "VType", "="]);
        self.vty(t, 5);
        self.toks(&["that", "\n"]);
        let decl = std::mem::replace(&mut self.out, saved);
        self.mutator.as_mut().unwrap().extra_decl = decl;
    }
    fn alias_decl_c(&mut self, sealed: bool, t: &CTy) {
        let saved = std::mem::take(&mut self.out);
        self.toks(&[if sealed { "def" } else { "let" }, "Zs", ":", "CType", "="]);
        self.cty(t, 5);
        self.toks(&["that", "\n"]);
        let decl = std::mem::replace(&mut self.out, saved);
        self.mutator.as_mut().unwrap().extra_decl = decl;
    }

    /// A copy of data declaration `d` under the name `Zs`: identical, or a near miss.
    fn data_copy_decl(&mut self, d: usize, variant: u32) {
        let decl = self.prog.datas[d].clone();
        let mut ctors = decl.ctors.clone();
        let k = (variant / 5) as usize % ctors.len();
        match variant % 5 {
            | 0 => {}
            | 1 => {
                ctors.remove(k);
            }
            | 2 => ctors.push(("+Zextra".into(), VTy::Unit)),
            | 3 => ctors[k].0 = format!("{}z", ctors[k].0),
            | _ => ctors[k].1 = self.near_v(&ctors[k].1.clone(), variant / 9),
        }
        let saved = std::mem::take(&mut self.out);
        self.toks(&["let", "Zs", ":", "VType", "=", "data"]);
        for (name, ty) in &ctors {
            self.p("|");
            self.p(name);
            self.p(":");
            self.vty(ty, 5);
        }
        self.toks(&["end", "that", "\n"]);
        let decl = std::mem::replace(&mut self.out, saved);
        self.mutator.as_mut().unwrap().extra_decl = decl;
    }

    fn codata_copy_decl(&mut self, c: usize, variant: u32) {
        let decl = self.prog.codatas[c].clone();
        let mut dtors = decl.dtors.clone();
        let k = (variant / 5) as usize % dtors.len();
        match variant % 5 {
            | 0 => {}
            | 1 => {
                dtors.remove(k);
            }
            | 2 => dtors.push(DtorDecl { name: ".zextra".into(), params: vec![], result: CTy::Ret(Box::new(VTy::Unit)) }),
            | 3 => dtors[k].name = format!("{}z", dtors[k].name),
            | _ => dtors[k].result = self.near_c(&dtors[k].result.clone(), variant / 9),
        }
        let saved = std::mem::take(&mut self.out);
        self.toks(&["let", "Zs", ":", "CType", "=", "codata"]);
        for dt in &dtors {
            self.p("|");
            self.p(&dt.name);
            self.p(":");
            let mut t = dt.result.clone();
            for a in dt.params.iter().rev() {
                t = CTy::Arrow(Box::new(a.clone()), Box::new(t));
            }
            self.cty(&t, 5);
        }
        self.toks(&["end", "that", "\n"]);
        let decl = std::mem::replace(&mut self.out, saved);
        self.mutator.as_mut().unwrap().extra_decl = decl;
    }

    fn data_mentions_itself_or_later(&self, d: usize) -> bool {
        fn m(t: &VTy, d: usize) -> bool {
            match t {
                | VTy::Data(e) => *e >= d,
                | VTy::Prod(v) => v.iter().any(|x| m(x, d)),
                | VTy::Thk(c) => mc(c, d),
                | _ => false,
            }
        }
        fn mc(t: &CTy, d: usize) -> bool {
            match t {
                | CTy::Ret(v) => m(v, d),
                | CTy::Arrow(a, b) => m(a, d) || mc(b, d),
                | CTy::ForallV(_, b) | CTy::ForallC(_, b) => mc(b, d),
                | _ => false,
            }
        }
        self.prog.datas[d].recursive || self.prog.datas[d].ctors.iter().any(|c| m(&c.1, d))
    }

    pub(crate) fn mutate_val(&mut self, v: &Val, t: &VTy, ch: u32) {
        let ctx = self.hint;
        let former = Self::former_v(t);
        let closed = Self::closed_v(t);
        let mut op = ch % 21;
        if matches!(t, VTy::Data(_)) && (ch >> 20) % 2 == 0 {
            op = 8 + (ch >> 21) % 2;
        }
        // fall back where an operator does not apply
        if matches!(op, 6 | 7) && !closed {
            op = if op == 6 { 2 } else { 1 };
        }
        if matches!(op, 8 | 9) {
            match t {
                | VTy::Data(d) if !self.data_mentions_itself_or_later(*d) && !self.prog.datas[*d].ctors.is_empty() => {}
                | _ => op = if op == 8 { 1 } else { 0 },
            }
        }
        if op == 10 && !matches!(t, VTy::Thk(_)) {
            op = 1;
        }
        match op {
            | 0 | 12 => {
                self.applied("value-of-another-type", false, former, ctx);
                self.far_literal(t, ch / 21);
            }
            | 1 | 13 => {
                self.applied("redundant-annotation", true, former, ctx);
                self.p("(");
                self.val_inner(v, t);
                self.p(":");
                self.vty(t, 5);
                self.p(")");
            }
            | 2 => {
                self.applied("annotation-of-a-different-type", false, former, ctx);
                let t2 = self.near_v(t, ch / 21);
                self.p("(");
                self.val_inner(v, t);
                self.p(":");
                self.vty(&t2, 5);
                self.p(")");
            }
            | 3 => {
                self.applied("computation-where-a-value-is-expected", false, former, ctx);
                self.toks(&["(", "ret"]);
                self.val_inner(v, t);
                self.p(")");
            }
            | 4 => {
                self.applied("thunk-of-a-value", false, former, ctx);
                self.p("{");
                self.far_or_same_literal(ch / 21);
                self.p("}");
            }
            | 5 => {
                self.applied("type-used-as-a-value", false, former, ctx);
                self.p(["Int64", "Ret", "VType", "Thk"][(ch / 21) as usize % 4]);
            }
            | 6 => {
                self.applied("sealed-alias-used-at-its-representation", false, former, ctx);
                self.alias_decl_v(true, t);
                self.p("(");
                self.val_inner(v, t);
                self.toks(&[":", "Zs", ")"]);
            }
            | 7 => {
                self.applied("transparent-alias", true, former, ctx);
                self.alias_decl_v(false, t);
                self.p("(");
                self.val_inner(v, t);
                self.toks(&[":", "Zs", ")"]);
            }
            | 8 => {
                let VTy::Data(d) = t else { unreachable!() };
                let sealed = self.prog.datas[*d].sealed || self.prog.datas[*d].recursive;
                if sealed {
                    self.applied("structural-copy-of-a-sealed-data-type", false, former, ctx);
                } else {
                    self.applied("structural-copy-of-a-transparent-data-type", true, former, ctx);
                }
                self.data_copy_decl(*d, 0);
                self.p("(");
                self.val_inner(v, t);
                self.toks(&[":", "Zs", ")"]);
            }
            | 9 => {
                let VTy::Data(d) = t else { unreachable!() };
                self.applied("near-miss-copy-of-a-data-type", false, former, ctx);
                self.data_copy_decl(*d, 1 + (ch / 21) % 4 + 5 * (ch / 84));
                self.p("(");
                self.val_inner(v, t);
                self.toks(&[":", "Zs", ")"]);
            }
            | 10 => {
                self.applied("thunk-eta-expansion", true, former, ctx);
                self.toks(&["{", "!", "("]);
                self.val_inner(v, t);
                self.p(":");
                self.vty(t, 5);
                self.toks(&[")", "}"]);
            }
            | 14 | 15 | 16 => {
                // type operators: `let Zs (Za : VType) : VType = Za`, applied to the site's type, to another type, or sealed
                let (name, accept): (&'static str, bool) = match op {
                    | 14 => ("type-operator-applied-to-the-type", true),
                    | 15 => ("type-operator-applied-to-another-type", false),
                    | _ => ("sealed-type-operator", false),
                };
                self.applied(name, accept, former, ctx);
                self.operator_decl(op == 16, &["(", "Za", ":", "VType", ")"], "VType", &["Za"]);
                let arg = if op == 15 { self.near_v(t, ch / 21) } else { t.clone() };
                self.p("(");
                self.val_inner(v, t);
                self.toks(&[":", "Zs"]);
                self.vty(&arg, 0);
                self.p(")");
            }
            | 17 | 18 => {
                // a two-parameter operator over the head and the rest of a product
                let VTy::Prod(items) = t else {
                    self.applied("redundant-annotation", true, former, ctx);
                    self.p("(");
                    self.val_inner(v, t);
                    self.p(":");
                    self.vty(t, 5);
                    self.p(")");
                    return;
                };
                let head = items[0].clone();
                let rest = prod(items[1..].to_vec());
                let swapped = op == 18 && head != rest;
                self.applied(if swapped { "type-operator-arguments-swapped" } else { "type-operator-over-a-product" }, !swapped, former, ctx);
                self.operator_decl(false, &["(", "Za", ":", "VType", ")", "(", "Zb", ":", "VType", ")"], "VType", &["Za", "*", "Zb"]);
                self.p("(");
                self.val_inner(v, t);
                self.toks(&[":", "Zs"]);
                if swapped {
                    self.vty(&rest, 0);
                    self.vty(&head, 0);
                } else {
                    self.vty(&head, 0);
                    self.vty(&rest, 0);
                }
                self.p(")");
            }
            | 19 => {
                self.applied("higher-order-type-operator", true, former, ctx);
                self.operator_decl(false, &["(", "Zf", ":", "VType", "->", "VType", ")", "(", "Za", ":", "VType", ")"], "VType", &["Zf", "Za"]);
                let at = self.mutator.as_ref().unwrap().extra_decl.len();
                let _ = at;
                let mut extra = vec!["let".to_string(), "Zi".into(), "(".into(), "Zc".into(), ":".into(), "VType".into(), ")".into(), ":".into(), "VType".into(), "=".into(), "Zc".into(), "that".into(), "\n".into()];
                extra.extend(std::mem::take(&mut self.mutator.as_mut().unwrap().extra_decl));
                self.mutator.as_mut().unwrap().extra_decl = extra;
                self.p("(");
                self.val_inner(v, t);
                self.toks(&[":", "Zs", "Zi"]);
                self.vty(t, 0);
                self.p(")");
            }
            | 20 => {
                self.applied("ill-kinded-type-operator-application", false, former, ctx);
                self.operator_decl(false, &["(", "Za", ":", "VType", ")"], "VType", &["Za"]);
                self.p("(");
                self.val_inner(v, t);
                self.toks(&[":", "Zs"]);
                match (ch / 21) % 3 {
                    | 0 => self.toks(&["(", "Ret", "Unit", ")"]),
                    | 1 => {}
                    | _ => {
                        self.vty(t, 0);
                        self.vty(t, 0);
                    }
                }
                self.p(")");
            }
            | _ => {
                self.applied("field-projection-from-an-unnamed-value", false, former, ctx);
                self.toks(&["(", "("]);
                self.val_inner(v, t);
                self.p(":");
                self.vty(t, 5);
                self.toks(&[")", "/", "zq", ")"]);
            }
        }
    }

    /// `let|def Zs <params> : <kind> = <body> that` as the extra declaration
    fn operator_decl(&mut self, sealed: bool, params: &[&str], kind: &str, body: &[&str]) {
        let saved = std::mem::take(&mut self.out);
        self.toks(&[if sealed { "def" } else { "let" }, "Zs"]);
        self.toks(params);
        self.toks(&[":", kind, "="]);
        self.toks(body);
        self.toks(&["that", "\n"]);
        let decl = std::mem::replace(&mut self.out, saved);
        self.mutator.as_mut().unwrap().extra_decl = decl;
    }

    /// `let zh : Thk (A -> Ret Unit) = { fn (zx : A) => let zy : B = zx in ret () } in`
    fn probe(&mut self, a: &VTy, b: &VTy) {
        self.toks(&["let", "zh", ":", "Thk", "("]);
        self.vty(a, 3);
        self.toks(&["->", "Ret", "Unit", ")", "=", "{", "fn", "(", "zx", ":"]);
        self.vty(a, 5);
        self.toks(&[")", "=>", "let", "zy", ":"]);
        self.vty(b, 5);
        self.toks(&["=", "zx", "in", "ret", "()", "}", "in"]);
    }

    /// the probe between `orig` and the declared copy `Zs` (`Thk Zs` for codata)
    fn probe_text(&mut self, orig: &VTy, is_data: bool, copy_first: bool) {
        let copy: &[&str] = if is_data { &["Zs"] } else { &["Thk", "Zs"] };
        self.toks(&["let", "zh", ":", "Thk", "("]);
        if copy_first {
            self.toks(if is_data { &["Zs"] } else { &["(", "Thk", "Zs", ")"] });
        } else {
            self.vty(orig, 3);
        }
        self.toks(&["->", "Ret", "Unit", ")", "=", "{", "fn", "(", "zx", ":"]);
        if copy_first { self.toks(copy) } else { self.vty(orig, 5) }
        self.toks(&[")", "=>", "let", "zy", ":"]);
        if copy_first { self.vty(orig, 5) } else { self.toks(copy) }
        self.toks(&["=", "zx", "in", "ret", "()", "}", "in"]);
    }

    fn far_or_same_literal(&mut self, ch: u32) {
        self.p(["5", "\"zz\"", "()"][(ch % 3) as usize]);
    }

    fn existential(&mut self, manifest: bool, wrong_witness: bool, ch: u32) {
        // let zb : (exists (Xz [as W] : VType) . Xz * Thk (Xz -> Ret Unit)) = (W, lit, { fn (zq : W) => ret () }) in
        let (w, lit, other_w, other_lit) = [
            ("Int64", "5", "String", "\"zz\""),
            ("String", "\"zz\"", "Char", "'c'"),
            ("Char", "'c'", "Unit", "()"),
            ("Unit", "()", "Int64", "5"),
        ][(ch % 4) as usize];
        self.toks(&["let", "zb", ":", "(", "exists", "(", "Xz"]);
        if manifest {
            self.toks(&["as", w]);
        }
        self.toks(&[":", "VType", ")", ".", "Xz", "*", "Thk", "(", "Xz", "->", "Ret", "Unit", ")", ")", "=", "("]);
        if wrong_witness {
            self.toks(&[other_w, ",", other_lit, ",", "{", "fn", "(", "zq", ":", other_w, ")", "=>", "ret", "()", "}"]);
        } else {
            self.toks(&[w, ",", lit, ",", "{", "fn", "(", "zq", ":", w, ")", "=>", "ret", "()", "}"]);
        }
        self.toks(&[")", "in"]);
    }

    fn witness(ch: u32) -> (&'static str, &'static str) {
        [("Int64", "5"), ("String", "\"zz\""), ("Char", "'c'"), ("Unit", "()")][(ch % 4) as usize]
    }

    pub(crate) fn mutate_comp(&mut self, c: &Comp, t: &CTy, ch: u32) {
        let ctx = self.hint;
        let former = Self::former_c(t);
        let closed = Self::closed_c(t);
        let sub = ch / 45;
        let mut op = ch % 45;
        if matches!(t, CTy::Codata(_)) && (ch >> 20) % 2 == 0 {
            op = 22 + (ch >> 21) % 2;
        }
        if matches!(op, 13 | 14) && !closed {
            op = if op == 13 { 2 } else { 1 };
        }
        if matches!(op, 22 | 23) {
            match t {
                | CTy::Codata(cd) if !self.prog.codatas[*cd].recursive && !self.prog.codatas[*cd].dtors.is_empty() && self.codata_closed_before(*cd) => {}
                | _ => op = if op == 22 { 1 } else { 0 },
            }
        }
        match op {
            | 0 | 24 => {
                self.applied("computation-of-another-type", false, former, ctx);
                self.p("ret");
                match t {
                    | CTy::Ret(a) => self.far_literal(a, sub),
                    | _ => self.far_or_same_literal(sub),
                }
            }
            | 1 | 25 => {
                self.applied("redundant-annotation", true, former, ctx);
                self.p("(");
                self.comp_inner(c, t);
                self.p(":");
                self.cty(t, 5);
                self.p(")");
            }
            | 2 | 26 => {
                self.applied("annotation-of-a-different-type", false, former, ctx);
                let t2 = self.near_c(t, sub);
                self.p("(");
                self.comp_inner(c, t);
                self.p(":");
                self.cty(&t2, 5);
                self.p(")");
            }
            | 3 => {
                self.applied("force-of-a-non-thunk", false, former, ctx);
                self.toks(&["!", ["5", "\"zz\"", "()"][(sub % 3) as usize]]);
            }
            | 4 => {
                self.applied("application-of-a-returner", false, former, ctx);
                self.toks(&["(", "ret", "1", ")", "2"]);
            }
            | 5 => {
                self.applied("bind-of-a-value", false, former, ctx);
                self.toks(&["do", "zz", "<-", ["5", "\"zz\"", "()"][(sub % 3) as usize], ";"]);
                self.comp_inner(c, t);
            }
            | 6 => {
                self.applied("bind-of-a-function", false, former, ctx);
                self.toks(&["do", "zz", "<-", "(", "fn", "(", "zy", ":", "Int64", ")", "=>", "ret", "zy", ")", ";"]);
                self.comp_inner(c, t);
            }
            | 7 => {
                self.applied("match-on-a-thunk", false, former, ctx);
                self.toks(&["match", "{", "ret", "1", "}", "|", "+Zz", "(", ")", "=>"]);
                self.comp_inner(c, t);
                self.p("end");
            }
            | 8 => {
                self.applied("destructor-on-a-returner", false, former, ctx);
                self.toks(&["(", "ret", "1", ")", ".zz"]);
            }
            | 9 => {
                self.applied("return-of-a-computation", false, former, ctx);
                self.toks(&["do", "zz", "<-", "ret", "(", "ret", "1", ")", ";"]);
                self.comp_inner(c, t);
            }
            | 10 => {
                self.applied("ill-kinded-annotation", false, former, ctx);
                self.p("(");
                self.comp_inner(c, t);
                self.p(":");
                let bad: &[&str] = match sub % 7 {
                    | 0 => &["Thk", "Int64"],
                    | 1 => &["Ret", "(", "Ret", "Int64", ")"],
                    | 2 => &["Int64", "Int64"],
                    | 3 => &["Ret"],
                    | 4 => &["Thk"],
                    | 5 => &["Ret", "Int64", "Int64"],
                    | _ => &["Int64", "->", "Int64"],
                };
                self.toks(bad);
                self.p(")");
            }
            | 11 => {
                self.applied("administrative-bind", true, former, ctx);
                self.toks(&["do", "zz", "<-", "ret", "()", ";"]);
                self.comp_inner(c, t);
            }
            | 12 => {
                self.applied("administrative-let", true, former, ctx);
                self.toks(&["let", "zz", ":", "Int64", "=", "5", "in"]);
                self.comp_inner(c, t);
            }
            | 13 => {
                self.applied("sealed-alias-used-at-its-representation", false, former, ctx);
                self.alias_decl_c(true, t);
                self.p("(");
                self.comp_inner(c, t);
                self.toks(&[":", "Zs", ")"]);
            }
            | 14 => {
                self.applied("transparent-alias", true, former, ctx);
                self.alias_decl_c(false, t);
                self.p("(");
                self.comp_inner(c, t);
                self.toks(&[":", "Zs", ")"]);
            }
            | 15 => {
                self.applied("package-opened-and-used-abstractly", true, former, ctx);
                self.existential(false, false, sub);
                if sub / 4 % 2 == 0 {
                    self.toks(&["match", "zb", "|", "(", "Xz", ",", "zv", ",", "zk", ")", "=>", "do", "zu", "<-", "!", "zk", "zv", ";"]);
                    self.comp_inner(c, t);
                    self.p("end");
                } else {
                    self.toks(&["let", "(", "Xz", ",", "zv", ",", "zk", ")", "=", "zb", "in", "do", "zu", "<-", "!", "zk", "zv", ";"]);
                    self.comp_inner(c, t);
                }
            }
            | 16 => {
                self.applied("package-payload-used-at-the-witness-type", false, former, ctx);
                self.existential(false, false, sub);
                let (w, lit) = Self::witness(sub);
                if sub / 4 % 2 == 0 {
                    self.toks(&["match", "zb", "|", "(", "Xz", ",", "zv", ",", "zk", ")", "=>", "do", "zu", "<-", "!", "zk", lit, ";"]);
                } else {
                    self.toks(&["match", "zb", "|", "(", "Xz", ",", "zv", ",", "zk", ")", "=>", "let", "zy", ":", w, "=", "zv", "in"]);
                }
                self.comp_inner(c, t);
                self.p("end");
            }
            | 17 => {
                self.applied("package-witness-escapes", false, former, ctx);
                self.existential(false, false, sub);
                if sub / 4 % 2 == 0 {
                    self.toks(&["do", "zr", "<-", "match", "zb", "|", "(", "Xz", ",", "zv", ",", "zk", ")", "=>", "ret", "zv", "end", ";"]);
                } else {
                    let (w, _) = Self::witness(sub);
                    self.toks(&["do", "zr", "<-", "(", "match", "zb", "|", "(", "Xz", ",", "zv", ",", "zk", ")", "=>", "ret", "zv", "end", ":", "Ret", w, ")", ";"]);
                }
                self.comp_inner(c, t);
            }
            | 18 => {
                self.applied("manifest-package-used-at-its-disclosed-type", true, former, ctx);
                self.existential(true, false, sub);
                let (w, lit) = Self::witness(sub);
                if sub / 4 % 2 == 0 {
                    self.toks(&["match", "zb", "|", "(", "Xz", ",", "zv", ",", "zk", ")", "=>", "let", "zy", ":", w, "=", "zv", "in"]);
                } else {
                    self.toks(&["match", "zb", "|", "(", "Xz", ",", "zv", ",", "zk", ")", "=>", "do", "zu", "<-", "!", "zk", lit, ";"]);
                }
                self.comp_inner(c, t);
                self.p("end");
            }
            | 19 => {
                self.applied("package-with-a-wrong-witness", false, former, ctx);
                if sub / 4 % 2 == 0 {
                    self.existential(true, true, sub);
                } else {
                    // abstract package whose payload is not at the witness
                    let (w, _) = Self::witness(sub);
                    let (_, other_lit) = Self::witness(sub + 1);
                    self.toks(&["let", "zb", ":", "(", "exists", "(", "Xz", ":", "VType", ")", ".", "Xz", "*", "Thk", "(", "Xz", "->", "Ret", "Unit", ")", ")", "=", "("]);
                    self.toks(&[w, ",", other_lit, ",", "{", "fn", "(", "zq", ":", w, ")", "=>", "ret", "()", "}", ")", "in"]);
                }
                self.comp_inner(c, t);
            }
            | 20 => {
                self.applied(if matches!(t, CTy::Codata(_)) { "unknown-destructor" } else { "destructor-on-a-non-codata" }, false, former, ctx);
                self.p("(");
                self.comp_inner(c, t);
                self.p(":");
                self.cty(t, 5);
                self.toks(&[")", ".zq"]);
            }
            | 21 => {
                self.applied(if matches!(t, CTy::Arrow(..)) { "argument-of-another-type" } else { "application-of-a-non-function" }, false, former, ctx);
                self.p("(");
                self.comp_inner(c, t);
                self.p(":");
                self.cty(t, 5);
                self.p(")");
                match t {
                    | CTy::Arrow(a, _) => self.far_literal(&a.clone(), sub),
                    | _ => self.far_or_same_literal(sub),
                }
            }
            | 22 => {
                let CTy::Codata(cd) = t else { unreachable!() };
                let sealed = self.prog.codatas[*cd].sealed || self.prog.codatas[*cd].recursive;
                if sealed {
                    self.applied("structural-copy-of-a-sealed-codata-type", false, former, ctx);
                } else {
                    self.applied("structural-copy-of-a-transparent-codata-type", true, former, ctx);
                }
                self.codata_copy_decl(*cd, 0);
                self.p("(");
                self.comp_inner(c, t);
                self.toks(&[":", "Zs", ")"]);
            }
            | 23 => {
                let CTy::Codata(cd) = t else { unreachable!() };
                self.applied("near-miss-copy-of-a-codata-type", false, former, ctx);
                self.codata_copy_decl(*cd, 1 + sub % 4 + 5 * (sub / 4));
                self.p("(");
                self.comp_inner(c, t);
                self.toks(&[":", "Zs", ")"]);
            }
            | 29 | 30 => {
                // ((fn (Zp : K) => c : forall (Zp : K) . t) : forall (Zq : K') . t) <arg of kind K'>
                let same = op == 29;
                self.applied(if same { "phantom-forall-alpha-renamed" } else { "forall-binder-kind-differs" }, same, former, ctx);
                let (k, arg): (&str, &[&str]) = if sub % 2 == 0 { ("VType", &["Unit"]) } else { ("CType", &["(", "Ret", "Unit", ")"]) };
                let (k2, arg2): (&str, &[&str]) = if sub % 2 == 0 { ("CType", &["(", "Ret", "Unit", ")"]) } else { ("VType", &["Unit"]) };
                if sub / 2 % 2 == 0 {
                    self.toks(&["(", "(", "fn", "(", "Zp", ":", k, ")", "=>"]);
                    self.comp_inner(c, t);
                    self.toks(&[":", "forall", "(", "Zp", ":", k, ")", "."]);
                    self.cty(t, 4);
                    self.toks(&[")", ":", "forall", "(", "Zq", ":", if same { k } else { k2 }, ")", "."]);
                    self.cty(t, 4);
                    self.p(")");
                    self.toks(if same { arg } else { arg2 });
                } else {
                    // only compared, never eliminated: a thunk bound under the other quantifier and not used
                    self.toks(&["let", "zf", ":", "Thk", "(", "forall", "(", "Zq", ":", if same { k } else { k2 }, ")", "."]);
                    self.cty(t, 4);
                    self.toks(&[")", "=", "(", "{", "fn", "(", "Zp", ":", k, ")", "=>"]);
                    self.comp_inner(c, t);
                    self.toks(&["}", ":", "Thk", "(", "forall", "(", "Zp", ":", k, ")", "."]);
                    self.cty(t, 4);
                    self.toks(&[")", ")", "in"]);
                    self.comp_inner(c, t);
                }
            }
            | 31 | 32 | 33 | 34 => {
                let (w, _) = Self::witness(sub);
                let (w2, _) = Self::witness(sub + 1);
                let (manifest, ann_manifest, accept, name): (bool, Option<&str>, bool, &'static str) = match op {
                    | 31 => (false, None, true, "package-type-alpha-renamed"),
                    | 32 => (false, Some(w), false, "abstract-package-annotated-as-manifest"),
                    | 33 => (true, Some(w2), false, "manifest-package-annotated-with-another-definition"),
                    | _ => (true, Some(w), true, "manifest-package-type-alpha-renamed"),
                };
                self.applied(name, accept, former, ctx);
                self.existential(manifest, false, sub);
                self.toks(&["let", "zc", ":", "(", "exists", "(", "Yz"]);
                if let Some(w) = ann_manifest {
                    self.toks(&["as", w]);
                }
                self.toks(&[":", "VType", ")", ".", "Yz", "*", "Thk", "(", "Yz", "->", "Ret", "Unit", ")", ")", "=", "zb", "in"]);
                self.comp_inner(c, t);
            }
            | 35 | 36 => {
                // a variable of one type used at another: `{ fn (zx : A) => let zy : B = zx in ret () }`, never called,
                // so nothing but the comparison of A and B decides; A/B from the site's type (a value type when the
                // site is a let/do, else Thk of the computation type)
                let site_v: VTy = match c {
                    | Comp::Let(_, a, _, _) | Comp::Do(_, a, _, _) if sub % 2 == 0 => a.clone(),
                    | _ => VTy::Thk(Box::new(t.clone())),
                };
                let former_v = Self::former_v(&site_v);
                let (a, b, accept) = if op == 36 {
                    (site_v.clone(), site_v.clone(), true)
                } else if sub / 2 % 2 == 0 {
                    (site_v.clone(), self.near_v(&site_v, sub / 4), false)
                } else {
                    (self.near_v(&site_v, sub / 4), site_v.clone(), false)
                };
                self.applied(if accept { "variable-used-at-its-own-type" } else { "variable-used-at-a-near-miss-type" }, accept, former_v, ctx);
                self.probe(&a, &b);
                self.comp_inner(c, t);
            }
            | 37 => {
                // the same probe against a declared copy of a data / codata type
                let target: Option<(bool, usize)> = match (c, t) {
                    | (_, CTy::Codata(cd)) if !self.prog.codatas[*cd].dtors.is_empty() => Some((false, *cd)),
                    | (Comp::Let(_, VTy::Data(d), _, _) | Comp::Do(_, VTy::Data(d), _, _), _) if !self.prog.datas[*d].ctors.is_empty() => Some((true, *d)),
                    | _ => None,
                };
                match target {
                    | None => {
                        self.applied("variable-used-at-its-own-type", true, former, ctx);
                        let v = VTy::Thk(Box::new(t.clone()));
                        self.probe(&v, &v);
                        self.comp_inner(c, t);
                    }
                    | Some((is_data, idx)) => {
                        let variant = sub % 5;
                        let sealed = if is_data { self.prog.datas[idx].sealed || self.prog.datas[idx].recursive } else { self.prog.codatas[idx].sealed || self.prog.codatas[idx].recursive };
                        let accept = variant == 0 && !sealed;
                        self.applied(
                            match (variant == 0, sealed) {
                                | (true, false) => "variable-used-at-an-identical-transparent-declaration",
                                | (true, true) => "variable-used-at-a-copy-of-a-sealed-declaration",
                                | _ => "variable-used-at-a-near-miss-declaration",
                            },
                            accept,
                            if is_data { "Data" } else { "Codata" },
                            ctx,
                        );
                        if is_data {
                            self.data_copy_decl(idx, variant + 5 * (sub / 5));
                        } else {
                            self.codata_copy_decl(idx, variant + 5 * (sub / 5));
                        }
                        let orig = if is_data { VTy::Data(idx) } else { VTy::Thk(Box::new(CTy::Codata(idx))) };
                        // direction: found = copy, expected = original, or the reverse
                        let copy_first = sub / 25 % 2 == 0;
                        self.probe_text(&orig, is_data, copy_first);
                        self.comp_inner(c, t);
                    }
                }
            }
            | 38 => {
                // binder correspondence: nested quantifiers whose bodies differ only in *which* bound variable occurs
                const PAIRS: &[(&str, &str, bool, &str)] = &[
                    ("Thk ( forall ( Za : VType ) . forall ( Zb : VType ) . Za -> Zb -> Ret Za )", "Thk ( forall ( Za : VType ) . forall ( Zb : VType ) . Za -> Zb -> Ret Zb )", false, "bound-variables-confused"),
                    ("Thk ( forall ( Za : VType ) . forall ( Zb : VType ) . Za -> Zb -> Ret Za )", "Thk ( forall ( Zc : VType ) . forall ( Zd : VType ) . Zc -> Zd -> Ret Zc )", true, "alpha-renamed-quantifiers"),
                    ("Thk ( forall ( Za : VType ) . forall ( Zb : VType ) . Za -> Zb -> Ret Za )", "Thk ( forall ( Zb : VType ) . forall ( Za : VType ) . Za -> Zb -> Ret Za )", false, "bound-variables-confused"),
                    ("Thk ( forall ( Za : CType ) . forall ( Zb : CType ) . Thk Za -> Thk Zb -> Za )", "Thk ( forall ( Za : CType ) . forall ( Zb : CType ) . Thk Za -> Thk Zb -> Zb )", false, "bound-variables-confused"),
                    ("( exists ( Za : VType ) . exists ( Zb : VType ) . Za * Thk ( Zb -> Ret Unit ) )", "( exists ( Za : VType ) . exists ( Zb : VType ) . Zb * Thk ( Za -> Ret Unit ) )", false, "bound-variables-confused"),
                    ("( exists ( Za : VType ) . exists ( Zb : VType ) . Za * Thk ( Zb -> Ret Unit ) )", "( exists ( Zc : VType ) . exists ( Zd : VType ) . Zc * Thk ( Zd -> Ret Unit ) )", true, "alpha-renamed-quantifiers"),
                    ("Thk ( forall ( Za : VType ) . ( exists ( Zb : VType ) . Zb * Za ) -> Ret Za )", "Thk ( forall ( Za : VType ) . ( exists ( Zb : VType ) . Za * Zb ) -> Ret Za )", false, "bound-variables-confused"),
                    ("Thk ( forall ( Za : VType ) . Za -> ( forall ( Zb : VType ) . Zb -> Ret Zb ) )", "Thk ( forall ( Za : VType ) . Za -> ( forall ( Zb : VType ) . Zb -> Ret Za ) )", false, "bound-variables-confused"),
                    ("Thk ( forall ( Za : CType ) . forall ( Zb : CType ) . Thk Za -> Thk Zb -> Za )", "Thk ( forall ( Zx : CType ) . forall ( Zy : CType ) . Thk Zx -> Thk Zy -> Zx )", true, "alpha-renamed-quantifiers"),
                ];
                let (a, b, accept, name) = PAIRS[sub as usize % PAIRS.len()];
                let (a, b) = if sub / PAIRS.len() as u32 % 2 == 0 { (a, b) } else { (b, a) };
                self.applied(name, accept, former, ctx);
                self.toks(&["let", "zh", ":", "Thk", "("]);
                self.toks(&a.split(' ').collect::<Vec<_>>());
                self.toks(&["->", "Ret", "Unit", ")", "=", "{", "fn", "(", "zx", ":"]);
                self.toks(&a.split(' ').collect::<Vec<_>>());
                self.toks(&[")", "=>", "let", "zy", ":"]);
                self.toks(&b.split(' ').collect::<Vec<_>>());
                self.toks(&["=", "zx", "in", "ret", "()", "}", "in"]);
                self.comp_inner(c, t);
            }
            | 39 | 40 => {
                // a package opened through a tuple pattern, field projections, or under a constructor, in four
                // contexts whose type is synthesised; the payload escapes (39) or is used abstractly (40)
                let escape = op == 39;
                let (w, lit) = Self::witness(sub);
                let opening = sub / 4 % 3;
                let context = sub / 12 % 4;
                let names = ["tuple-pattern", "projection-pattern", "under-a-constructor"];
                let ctxs = ["do-bindee", "value-let", "thunk-let", "thunk-match"];
                let label: &'static str = match (escape, opening, context) {
                    | (true, 0, 0) => "package-witness-escapes[tuple-pattern,do-bindee]",
                    | (true, 0, 1) => "package-witness-escapes[tuple-pattern,value-let]",
                    | (true, 0, 2) => "package-witness-escapes[tuple-pattern,thunk-let]",
                    | (true, 0, _) => "package-witness-escapes[tuple-pattern,thunk-match]",
                    | (true, 1, 0) => "package-witness-escapes[projection-pattern,do-bindee]",
                    | (true, 1, 1) => "package-witness-escapes[projection-pattern,value-let]",
                    | (true, 1, _) => "package-witness-escapes[projection-pattern,thunk-let]",
                    | (true, _, 0) => "package-witness-escapes[under-a-constructor,do-bindee]",
                    | (true, _, 1) => "package-witness-escapes[under-a-constructor,value-let]",
                    | (true, _, 2) => "package-witness-escapes[under-a-constructor,thunk-let]",
                    | (true, _, _) => "package-witness-escapes[under-a-constructor,thunk-match]",
                    | (false, 0, _) => "package-opened-and-used-abstractly[tuple-pattern]",
                    | (false, 1, _) => "package-opened-and-used-abstractly[projection-pattern]",
                    | (false, _, _) => "package-opened-and-used-abstractly[under-a-constructor]",
                };
                let _ = (names, ctxs);
                self.applied(label, !escape, former, ctx);
                let pk: &[&str] = &["(", "exists", "(", "Xz", ":", "VType", ")", ".", "Xz", "*", "Thk", "(", "Xz", "->", "Ret", "Unit", ")", ")"];
                // the package value `zb` and the pattern that opens it; payload variable and consumer names
                let (pat, payload, consumer): (Vec<&str>, &str, &str) = match opening {
                    | 0 => {
                        self.toks(&["let", "zb", ":"]);
                        self.toks(pk);
                        self.toks(&["=", "(", w, ",", lit, ",", "{", "fn", "(", "zq", ":", w, ")", "=>", "ret", "()", "}", ")", "in"]);
                        (vec!["(", "Xz", ",", "zv", ",", "zk", ")"], "zv", "zk")
                    }
                    | 1 => {
                        self.toks(&["let", "zb", ":", "(", "exists", "(", "Xz", ":", "VType", ")", ".", "(", "value", "::", "Xz", ")", "*", "(", "consume", "::", "Thk", "(", "Xz", "->", "Ret", "Unit", ")", ")", "*", "Unit", ")", "="]);
                        self.toks(&["(", w, ",", "value", "=", lit, ",", "consume", "=", "{", "fn", "(", "zq", ":", w, ")", "=>", "ret", "()", "}", ",", "()", ")", "in"]);
                        (vec!["(", "/", "value", ";", "/", "consume", ")"], "value", "consume")
                    }
                    | _ => {
                        let saved = std::mem::take(&mut self.out);
                        self.toks(&["let", "Zs", ":", "VType", "=", "data", "|", "+Wrap", ":"]);
                        self.toks(pk);
                        self.toks(&["end", "that", "\n"]);
                        let decl = std::mem::replace(&mut self.out, saved);
                        self.mutator.as_mut().unwrap().extra_decl = decl;
                        self.toks(&["let", "zb", ":", "Zs", "=", "+Wrap", "(", w, ",", lit, ",", "{", "fn", "(", "zq", ":", w, ")", "=>", "ret", "()", "}", ")", "in"]);
                        (vec!["+Wrap", "(", "Xz", ",", "zv", ",", "zk", ")"], "zv", "zk")
                    }
                };
                // projection patterns are not match arms
                let context = if opening == 1 && context == 3 { 2 } else { context };
                match context {
                    | 0 => {
                        self.toks(&["do", "zr", "<-", "(", "let"]);
                        self.toks(&pat);
                        self.toks(&["=", "zb", "in"]);
                        if escape {
                            self.toks(&["ret", payload, ")", ";"]);
                        } else {
                            self.toks(&["do", "zu", "<-", "!", consumer, payload, ";", "ret", "()", ")", ";"]);
                        }
                    }
                    | 1 => {
                        self.toks(&["let", "zl", "=", "(", "let"]);
                        self.toks(&pat);
                        self.toks(&["=", "zb", "in", if escape { payload } else { "()" }, ")", "in"]);
                    }
                    | 2 => {
                        self.toks(&["let", "zl", "=", "{", "let"]);
                        self.toks(&pat);
                        self.toks(&["=", "zb", "in"]);
                        if escape {
                            self.toks(&["ret", payload, "}", "in"]);
                        } else {
                            self.toks(&["do", "zu", "<-", "!", consumer, payload, ";", "ret", "()", "}", "in"]);
                        }
                    }
                    | _ => {
                        self.toks(&["let", "zl", "=", "{", "match", "zb", "|"]);
                        self.toks(&pat);
                        self.p("=>");
                        if escape {
                            self.toks(&["ret", payload, "end", "}", "in"]);
                        } else {
                            self.toks(&["do", "zu", "<-", "!", consumer, payload, ";", "ret", "()", "end", "}", "in"]);
                        }
                    }
                }
                self.comp_inner(c, t);
            }
            | 41 | 42 => {
                // computation-type operator: `let Zs (Za : CType) : CType = Za`
                let accept = op == 41;
                self.applied(if accept { "type-operator-applied-to-the-type" } else { "type-operator-applied-to-another-type" }, accept, former, ctx);
                self.operator_decl(false, &["(", "Za", ":", "CType", ")"], "CType", &["Za"]);
                let arg = if accept { t.clone() } else { self.near_c(t, sub) };
                self.p("(");
                self.comp_inner(c, t);
                self.toks(&[":", "Zs"]);
                self.cty(&arg, 0);
                self.p(")");
            }
            | 43 | 44 => {
                // `let Zs (Za : VType) : CType = Ret Za` at a returner
                let CTy::Ret(a) = t else {
                    self.applied("redundant-annotation", true, former, ctx);
                    self.p("(");
                    self.comp_inner(c, t);
                    self.p(":");
                    self.cty(t, 5);
                    self.p(")");
                    return;
                };
                let accept = op == 43;
                self.applied(if accept { "returner-operator-applied-to-the-type" } else { "returner-operator-applied-to-another-type" }, accept, former, ctx);
                self.operator_decl(false, &["(", "Za", ":", "VType", ")"], "CType", &["Ret", "Za"]);
                let arg = if accept { (**a).clone() } else { self.near_v(a, sub) };
                self.p("(");
                self.comp_inner(c, t);
                self.toks(&[":", "Zs"]);
                self.vty(&arg, 0);
                self.p(")");
            }
            | 27 => {
                self.applied("thunk-in-computation-position", false, former, ctx);
                self.p("{");
                self.comp_inner(c, t);
                self.p("}");
            }
            | _ => {
                self.applied("value-in-computation-position", false, former, ctx);
                self.far_or_same_literal(sub);
            }
        }
    }

    /// every type mentioned by codata `cd` is declared (all declarations precede the splice point)
    fn codata_closed_before(&self, _cd: usize) -> bool {
        true
    }
}
