//! Naming strategies for P-print and the *spec resolver*: an own implementation of the lexical
//! scoping rules (Appendix A.2) over the AST that decides which reuses of a name are capture-free.

use super::ast::*;
use super::print::{Names, RESERVED};
use crate::engine::Tape;
use std::collections::{BTreeSet, HashMap};

#[derive(Clone, Copy, Debug, PartialEq, Eq)]
pub enum Strategy {
    Unique,
    /// reuse a small pool as aggressively as the scoping rules allow (shadow outer binders)
    Shadow,
    /// names with `'`, `?`, `-`, leading `_`
    Primes,
    /// names that start like keywords: `inx`, `lets`, `end'`
    Keywordish,
}

pub fn uses_of_val(v: &Val, out: &mut BTreeSet<Bid>) {
    uses_val(v, out)
}

fn uses_val(v: &Val, out: &mut BTreeSet<Bid>) {
    match v {
        | Val::Var(b) => {
            out.insert(*b);
        }
        | Val::Tuple(items) => items.iter().for_each(|i| uses_val(i, out)),
        | Val::Ctor(_, _, p) => uses_val(p, out),
        | Val::Thunk(c) => uses_comp(c, out),
        | _ => {}
    }
}

fn uses_comp(c: &Comp, out: &mut BTreeSet<Bid>) {
    match c {
        | Comp::Ret(v) => uses_val(v, out),
        | Comp::Do(_, _, m, n) => {
            uses_comp(m, out);
            uses_comp(n, out);
        }
        | Comp::Let(_, _, v, n) => {
            uses_val(v, out);
            uses_comp(n, out);
        }
        | Comp::Fn(_, _, m) | Comp::TFn(_, _, m) | Comp::Fix(_, _, m) => uses_comp(m, out),
        | Comp::App(h, _, v) => {
            uses_comp(h, out);
            uses_val(v, out);
        }
        | Comp::TApp(h, _, _) => uses_comp(h, out),
        | Comp::Force(v, _) => uses_val(v, out),
        | Comp::Match(v, _, arms) => {
            uses_val(v, out);
            arms.iter().for_each(|a| uses_comp(&a.body, out));
        }
        | Comp::Comatch(_, clauses) => clauses.iter().for_each(|cl| uses_comp(&cl.body, out)),
        | Comp::Dtor(h, _, _, args) => {
            uses_comp(h, out);
            args.iter().for_each(|a| uses_val(a, out));
        }
    }
}

fn pat_binders(p: &Pat, out: &mut Vec<Bid>) {
    match p {
        | Pat::Var(b) => out.push(*b),
        | Pat::Tuple(items) | Pat::Alias(items) => items.iter().for_each(|i| pat_binders(i, out)),
        | Pat::Ctor(_, _, inner) => pat_binders(inner, out),
        | _ => {}
    }
}

const POOL: &[&str] = &["x", "y", "f"];
const PRIME_POOL: &[&str] = &["x'", "go?", "a-b", "_u", "k''", "n?'", "w-1", "_"];
const KEYWORD_POOL: &[&str] = &["inx", "lets", "end'", "fixx", "do'", "ret?", "fn-", "match_", "thatt", "defined", "beginn", "as'"];

struct Namer<'t, 'b> {
    t: &'t mut Tape<'b>,
    names: Vec<Option<String>>,
    env: HashMap<String, Bid>,
    pub shadowed_uses: u32,
    fresh: u32,
}

impl<'t, 'b> Namer<'t, 'b> {
    /// Choose a name for `b`, whose scope is described by the uses `scope_uses` (all binder ids used
    /// inside the scope).  A pool name bound to an outer binder may be reused iff that outer binder is
    /// not used inside the scope (then shadowing captures nothing).
    fn choose(&mut self, b: Bid, scope_uses: &BTreeSet<Bid>, siblings: &[String]) -> String {
        let start = self.t.below(POOL.len());
        for k in 0..POOL.len() {
            let n = POOL[(start + k) % POOL.len()];
            if siblings.iter().any(|s| s == n) {
                continue;
            }
            match self.env.get(n) {
                | Some(outer) if scope_uses.contains(outer) => continue,
                | Some(_) => {
                    if scope_uses.contains(&b) {
                        self.shadowed_uses += 1;
                    }
                    return n.to_string();
                }
                | None => return n.to_string(),
            }
        }
        self.fresh += 1;
        format!("z{}", self.fresh)
    }

    fn bind_pat(&mut self, p: &Pat, scope_uses: &BTreeSet<Bid>) -> Vec<(String, Option<Bid>)> {
        let mut bs = vec![];
        pat_binders(p, &mut bs);
        let mut saved = vec![];
        let mut siblings: Vec<String> = vec![];
        for b in bs {
            let n = self.choose(b, scope_uses, &siblings);
            siblings.push(n.clone());
            self.names[b as usize] = Some(n.clone());
            saved.push((n.clone(), self.env.insert(n, b)));
        }
        saved
    }

    fn restore(&mut self, saved: Vec<(String, Option<Bid>)>) {
        for (n, old) in saved.into_iter().rev() {
            match old {
                | Some(b) => {
                    self.env.insert(n, b);
                }
                | None => {
                    self.env.remove(&n);
                }
            }
        }
    }

    fn val(&mut self, v: &Val) {
        match v {
            | Val::Tuple(items) => items.iter().for_each(|i| self.val(i)),
            | Val::Ctor(_, _, p) => self.val(p),
            | Val::Thunk(c) => self.comp(c),
            | _ => {}
        }
    }

    fn comp(&mut self, c: &Comp) {
        match c {
            | Comp::Ret(v) => self.val(v),
            | Comp::Do(p, _, m, n) => {
                // the bindee is outside the binder's scope
                self.comp(m);
                let mut uses = BTreeSet::new();
                uses_comp(n, &mut uses);
                let saved = self.bind_pat(p, &uses);
                self.comp(n);
                self.restore(saved);
            }
            | Comp::Let(p, _, v, n) => {
                self.val(v);
                let mut uses = BTreeSet::new();
                uses_comp(n, &mut uses);
                let saved = self.bind_pat(p, &uses);
                self.comp(n);
                self.restore(saved);
            }
            | Comp::Fn(p, _, m) => {
                let mut uses = BTreeSet::new();
                uses_comp(m, &mut uses);
                let saved = self.bind_pat(p, &uses);
                self.comp(m);
                self.restore(saved);
            }
            | Comp::TFn(_, _, m) => self.comp(m),
            | Comp::Fix(f, _, m) => {
                let mut uses = BTreeSet::new();
                uses_comp(m, &mut uses);
                let saved = self.bind_pat(&Pat::Var(*f), &uses);
                self.comp(m);
                self.restore(saved);
            }
            | Comp::App(h, _, v) => {
                self.comp(h);
                self.val(v);
            }
            | Comp::TApp(h, _, _) => self.comp(h),
            | Comp::Force(v, _) => self.val(v),
            | Comp::Match(v, _, arms) => {
                self.val(v);
                for arm in arms {
                    let mut uses = BTreeSet::new();
                    uses_comp(&arm.body, &mut uses);
                    let saved = self.bind_pat(&arm.pat, &uses);
                    self.comp(&arm.body);
                    self.restore(saved);
                }
            }
            | Comp::Comatch(_, clauses) => {
                for cl in clauses {
                    let mut uses = BTreeSet::new();
                    uses_comp(&cl.body, &mut uses);
                    // all parameters of one clause are siblings of one scope
                    let tuple = Pat::Tuple(cl.params.iter().map(|(p, _)| p.clone()).collect());
                    let saved = self.bind_pat(&tuple, &uses);
                    self.comp(&cl.body);
                    self.restore(saved);
                }
            }
            | Comp::Dtor(h, _, _, args) => {
                self.comp(h);
                args.iter().for_each(|a| self.val(a));
            }
        }
    }
}

/// Names for a program under a strategy; returns the names and how many binders shadow an outer
/// binder while being used themselves (the interesting cases).
pub fn names_for(prog: &Program, strategy: Strategy, t: &mut Tape) -> (Names, u32) {
    let mut names = Names::unique(prog);
    match strategy {
        | Strategy::Unique => (names, 0),
        | Strategy::Primes | Strategy::Keywordish => {
            let pool = if strategy == Strategy::Primes { PRIME_POOL } else { KEYWORD_POOL };
            for i in 0..prog.n_binders as usize {
                let base = pool[i % pool.len()];
                let n = if base == "_" { format!("_v{i}") } else { format!("{base}{}", "'".repeat(i / pool.len())) };
                names.binder[i] = if RESERVED.contains(&n.as_str()) { format!("{n}'") } else { n };
            }
            (names, 0)
        }
        | Strategy::Shadow => {
            let mut namer = Namer { t, names: vec![None; prog.n_binders as usize], env: HashMap::new(), shadowed_uses: 0, fresh: 0 };
            namer.comp(&prog.main);
            for (i, n) in namer.names.iter().enumerate() {
                if let Some(n) = n {
                    names.binder[i] = n.clone();
                }
            }
            (names, namer.shadowed_uses)
        }
    }
}

/* ---------------------- token-level capture-free renaming ---------------------- */

const KEYWORDS: &[&str] = &[
    "let", "in", "do", "ret", "fn", "match", "comatch", "end", "begin", "that", "def", "fix", "param", "data", "codata",
    "forall", "exists", "as", "import", "intrinsic", "pi", "sigma", "define", "_",
];

fn is_ident(t: &str) -> bool {
    let mut cs = t.chars();
    match cs.next() {
        | Some(c) if c.is_ascii_alphabetic() || c == '_' => {}
        | _ => return false,
    }
    cs.all(|c| c.is_ascii_alphanumeric() || c == '_' || c == '\'') && !KEYWORDS.contains(&t)
}

/// Rename lexical term binders in a token stream printed under unique names with scope markers
/// (`Printer::scopes`).  A binder may take *any* identifier of the program that does not occur inside its own
/// scope — a type name from its own annotation, a package name, another binder's name — because nothing in
/// its scope can then start referring to it, and nothing outside its scope can see it.  Components of one
/// pattern (same scope start) keep distinct names.  Returns (binders renamed, of which named after a token of
/// their own binding site: annotation or bindee).
pub fn rename_tokens(tokens: &mut [String], unique: &[String], t: &mut Tape, budget: usize) -> (u32, u32) {
    use std::collections::BTreeMap;
    let mut start: BTreeMap<u32, usize> = BTreeMap::new();
    let mut end: BTreeMap<u32, usize> = BTreeMap::new();
    for (i, tok) in tokens.iter().enumerate() {
        if let Some(rest) = tok.strip_prefix('\u{1}') {
            if let Ok(b) = rest[1..].parse::<u32>() {
                if rest.starts_with('S') {
                    start.insert(b, i);
                } else {
                    end.insert(b, i);
                }
            }
        }
    }
    let mut bids: Vec<u32> = start.keys().copied().filter(|b| end.contains_key(b)).collect();
    // random order
    for i in (1..bids.len()).rev() {
        bids.swap(i, t.below(i + 1));
    }
    // occurrences by position, fixed before anything is renamed (a binder may adopt another binder's name)
    let occurrences: BTreeMap<u32, Vec<usize>> = bids
        .iter()
        .map(|b| (*b, unique.get(*b as usize).map(|own| tokens.iter().enumerate().filter(|(_, x)| *x == own).map(|(i, _)| i).collect()).unwrap_or_default()))
        .collect();
    let mut current: BTreeMap<u32, String> = BTreeMap::new();
    let (mut renamed, mut own_site) = (0u32, 0u32);
    for b in bids.into_iter().take(budget) {
        let (s, e) = (start[&b], end[&b]);
        let Some(own) = unique.get(b as usize) else { continue };
        // the binding occurrence: the last occurrence before the scope start
        let Some(bind_at) = occurrences[&b].iter().copied().filter(|i| *i < s).max() else { continue };
        // siblings: binders whose scope starts together with this one (only markers in between)
        let sibling_names: Vec<String> = start
            .iter()
            .filter(|(c, cs)| **c != b && {
                let (lo, hi) = if **cs < s { (**cs, s) } else { (s, **cs) };
                tokens[lo..hi].iter().all(|x| x.starts_with('\u{1}'))
            })
            .map(|(c, _)| current.get(c).cloned().unwrap_or_else(|| unique[*c as usize].clone()))
            .collect();
        let in_scope: std::collections::BTreeSet<&str> = tokens[s..e].iter().map(|x| x.as_str()).collect();
        // candidates: identifiers outside the scope; prefer those of the binding site (annotation / bindee)
        let site: Vec<String> = tokens[bind_at + 1..s].iter().filter(|x| is_ident(x)).cloned().collect();
        let elsewhere: Vec<String> = tokens[..bind_at].iter().chain(tokens[e..].iter()).filter(|x| is_ident(x)).cloned().collect();
        let pool: Vec<String> = if !site.is_empty() && t.chance(170) { site.clone() } else { elsewhere };
        if pool.is_empty() {
            continue;
        }
        let pick = pool[t.below(pool.len())].clone();
        if pick == *own || in_scope.contains(pick.as_str()) || sibling_names.contains(&pick) {
            continue;
        }
        // the binding site of a pattern with several binders lists the siblings: a name equal to a sibling's
        // unique name is excluded above; a name that some *enclosing* construct binds is fine (shadowing)
        if std::env::var_os("VERIF_RENAME_DEBUG").is_some() {
            eprintln!("rename v{b} ({own}) -> {pick}; scope tokens {s}..{e}; pick in scope: {}", tokens[s..e].iter().any(|x| *x == pick));
        }
        for i in &occurrences[&b] {
            tokens[*i] = pick.clone();
        }
        if site.contains(&pick) {
            own_site += 1;
        }
        current.insert(b, pick);
        renamed += 1;
    }
    (renamed, own_site)
}
