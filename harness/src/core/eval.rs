//! R-sem: reference CK machine for call-by-push-value over the G-core AST.  Types, annotations,
//! names, sealing and file boundaries do not exist here: erasure is by construction.

use super::ast::*;
use crate::hmodel::{self, ParseVerdict};
use im::OrdMap;
use std::rc::Rc;

#[derive(Clone, Debug)]
pub enum RV<'a> {
    Int(hmodel::IntTy, i128),
    F64(u64),
    Str(Rc<String>),
    Char(char),
    Unit,
    Tuple(Rc<Vec<RV<'a>>>),
    Ctor(usize, usize, Rc<RV<'a>>),
    Thunk(&'a Comp, Env<'a>),
    Host(HostOp),
}

pub type Env<'a> = OrdMap<Bid, RV<'a>>;

enum Frame<'a> {
    Kont(&'a Pat, &'a Comp, Env<'a>),
    Arg(RV<'a>),
    Dtor(usize, usize),
}

#[derive(Clone, Debug, PartialEq, Eq)]
pub enum REnd {
    Exit(i32),
    /// the program returned a value to an empty stack (not an OS program)
    Ret,
    /// integer division or remainder by zero
    Trap,
    OutOfFuel,
    /// the reference model cannot decide (grey-zone input of a host contract)
    Undetermined(String),
    /// reference machine stuck: a harness bug (generated program ill-typed)
    Stuck(String),
}

#[derive(Clone, Debug)]
pub struct RRun {
    pub stdout: Vec<u8>,
    pub end: REnd,
    pub steps: u64,
}

fn mk_tuple<'a>(mut items: Vec<RV<'a>>) -> RV<'a> {
    // canonical: a trailing tuple is part of the spine
    loop {
        match items.pop() {
            | Some(RV::Tuple(inner)) => items.extend(inner.iter().cloned()),
            | Some(other) => {
                items.push(other);
                break;
            }
            | None => break,
        }
    }
    match items.len() {
        | 0 => RV::Unit,
        | 1 => items.pop().unwrap(),
        | _ => RV::Tuple(Rc::new(items)),
    }
}

fn eval_val<'a>(v: &'a Val, env: &Env<'a>) -> Result<RV<'a>, String> {
    Ok(match v {
        | Val::Var(b) => env.get(b).cloned().ok_or_else(|| format!("unbound binder {b}"))?,
        | Val::Int(t, n) => RV::Int(*t, *n),
        | Val::F64(b) => RV::F64(*b),
        | Val::Str(s) => RV::Str(Rc::new(s.clone())),
        | Val::Char(c) => RV::Char(*c),
        | Val::Unit => RV::Unit,
        | Val::Tuple(items) => {
            let mut out = Vec::with_capacity(items.len());
            for i in items {
                out.push(eval_val(i, env)?);
            }
            mk_tuple(out)
        }
        | Val::Ctor(d, c, payload) => RV::Ctor(*d, *c, Rc::new(eval_val(payload, env)?)),
        | Val::Thunk(c) => RV::Thunk(c, env.clone()),
        | Val::Host(op) => RV::Host(*op),
    })
}

/// Bind by position.  `Ok(None)` = the (refutable) pattern does not match.
fn bind<'a>(p: &'a Pat, v: &RV<'a>, env: &mut Env<'a>) -> Result<bool, String> {
    match p {
        | Pat::Var(b) => {
            env.insert(*b, v.clone());
            Ok(true)
        }
        | Pat::Wild => Ok(true),
        | Pat::Unit => match v {
            | RV::Unit => Ok(true),
            | other => Err(format!("unit pattern against {other:?}")),
        },
        | Pat::Tuple(ps) => {
            let RV::Tuple(vs) = v else { return Err(format!("tuple pattern against {v:?}")) };
            if ps.len() > vs.len() {
                return Err("tuple pattern longer than value".into());
            }
            for (i, p) in ps.iter().enumerate() {
                let ok = if i + 1 == ps.len() && ps.len() < vs.len() {
                    // the last pattern observes the suffix product
                    let rest = RV::Tuple(Rc::new(vs[i..].to_vec()));
                    bind(p, &rest, env)?
                } else {
                    bind(p, &vs[i], env)?
                };
                if !ok {
                    return Ok(false);
                }
            }
            Ok(true)
        }
        | Pat::Ctor(d, c, inner) => match v {
            | RV::Ctor(d2, c2, payload) if d == d2 => {
                if c == c2 {
                    bind(inner, payload, env)
                } else {
                    Ok(false)
                }
            }
            | other => Err(format!("constructor pattern against {other:?}")),
        },
        | Pat::Alias(ps) => {
            for p in ps {
                if !bind(p, v, env)? {
                    return Ok(false);
                }
            }
            Ok(true)
        }
    }
}

pub fn arity(op: HostOp) -> usize {
    match op {
        | HostOp::IntArith(..) | HostOp::F64Arith(_) | HostOp::StrAppend => 2,
        | HostOp::IntCmp(..) | HostOp::F64Cmp(_) | HostOp::StrEq | HostOp::StrGet | HostOp::StrSplitAt => 4,
        | HostOp::IntToStr(_)
        | HostOp::F64ToStr
        | HostOp::StrLen
        | HostOp::StrByteLen
        | HostOp::CharToStr
        | HostOp::CharCode
        | HostOp::ReadLine
        | HostOp::Exit => 1,
        | HostOp::CharFromCode | HostOp::ParseInt => 3,
        | HostOp::WriteLine | HostOp::WriteStr | HostOp::ReadInt => 2,
    }
}

enum HostOut<'a> {
    Ret(RV<'a>),
    /// force this thunk with these arguments
    Select(RV<'a>, Vec<RV<'a>>),
    Exit(i32),
    Trap,
    Undetermined(String),
}

struct Io<'s> {
    stdin: &'s [u8],
    pos: usize,
    out: Vec<u8>,
}

impl Io<'_> {
    /// the interpreter's line discipline: up to and including '\n', strip one "\n" or "\r\n"
    fn line(&mut self) -> Result<String, String> {
        let rest = &self.stdin[self.pos..];
        let end = rest.iter().position(|b| *b == b'\n').map(|i| i + 1).unwrap_or(rest.len());
        let mut line = rest[..end].to_vec();
        self.pos += end;
        if line.last() == Some(&b'\n') {
            line.pop();
            if line.last() == Some(&b'\r') {
                line.pop();
            }
        }
        String::from_utf8(line).map_err(|_| "invalid UTF-8 on stdin (outside the modelled domain)".to_string())
    }
}

fn host<'a>(op: HostOp, args: Vec<RV<'a>>, io: &mut Io) -> Result<HostOut<'a>, String> {
    use HostOut::*;
    let int = |v: &RV<'a>| match v {
        | RV::Int(_, n) => Ok(*n),
        | o => Err(format!("host {op:?}: expected integer, got {o:?}")),
    };
    let st = |v: &RV<'a>| match v {
        | RV::Str(s) => Ok(s.clone()),
        | o => Err(format!("host {op:?}: expected string, got {o:?}")),
    };
    let fl = |v: &RV<'a>| match v {
        | RV::F64(b) => Ok(*b),
        | o => Err(format!("host {op:?}: expected float, got {o:?}")),
    };
    let ch = |v: &RV<'a>| match v {
        | RV::Char(c) => Ok(*c),
        | o => Err(format!("host {op:?}: expected char, got {o:?}")),
    };
    let i64v = |n: i128| RV::Int(hmodel::IntTy::I64, n);
    Ok(match op {
        | HostOp::IntArith(t, o) => match hmodel::int_arith(t, o, int(&args[0])?, int(&args[1])?) {
            | Some(r) => Ret(RV::Int(t, r)),
            | None => Trap,
        },
        | HostOp::IntCmp(_, o) => {
            let c = hmodel::int_cmp(o, int(&args[0])?, int(&args[1])?);
            Select(args[if c { 2 } else { 3 }].clone(), vec![])
        }
        | HostOp::IntToStr(_) => Ret(RV::Str(Rc::new(hmodel::int_to_string(int(&args[0])?)))),
        | HostOp::F64Arith(o) => Ret(RV::F64(hmodel::f64_arith(o, fl(&args[0])?, fl(&args[1])?))),
        | HostOp::F64Cmp(o) => {
            let c = hmodel::f64_cmp(o, fl(&args[0])?, fl(&args[1])?);
            Select(args[if c { 2 } else { 3 }].clone(), vec![])
        }
        | HostOp::F64ToStr => {
            // any exact rendering is allowed by the contract; generated programs never print floats
            // directly (they compare them), so this is only reached through `Undetermined`.
            Undetermined("float rendering has many valid spellings".into())
        }
        | HostOp::StrAppend => {
            let mut s = (*st(&args[0])?).clone();
            s.push_str(&st(&args[1])?);
            Ret(RV::Str(Rc::new(s)))
        }
        | HostOp::StrLen => Ret(i64v(hmodel::str_scalar_len(&st(&args[0])?))),
        | HostOp::StrByteLen => Ret(i64v(hmodel::str_byte_len(&st(&args[0])?))),
        | HostOp::StrEq => {
            let c = st(&args[0])? == st(&args[1])?;
            Select(args[if c { 2 } else { 3 }].clone(), vec![])
        }
        | HostOp::StrGet => match hmodel::str_get(&st(&args[0])?, int(&args[1])?) {
            | None => Select(args[2].clone(), vec![]),
            | Some(c) => Select(args[3].clone(), vec![RV::Char(c)]),
        },
        | HostOp::StrSplitAt => match hmodel::str_split_at(&st(&args[0])?, int(&args[1])?) {
            | None => Select(args[2].clone(), vec![]),
            | Some((a, b)) => Select(args[3].clone(), vec![RV::Str(Rc::new(a)), RV::Str(Rc::new(b))]),
        },
        | HostOp::CharToStr => Ret(RV::Str(Rc::new(ch(&args[0])?.to_string()))),
        | HostOp::CharCode => Ret(i64v(ch(&args[0])? as u32 as i128)),
        | HostOp::CharFromCode => match hmodel::char_from_codepoint(int(&args[0])?) {
            | None => Select(args[1].clone(), vec![]),
            | Some(c) => Select(args[2].clone(), vec![RV::Char(c)]),
        },
        | HostOp::ParseInt => match hmodel::parse_int_contract(&st(&args[0])?) {
            | ParseVerdict::None => Select(args[1].clone(), vec![]),
            | ParseVerdict::Some(n) => Select(args[2].clone(), vec![i64v(n as i128)]),
            | ParseVerdict::Either(_) => Undetermined("parse_int on a non-canonical numeral".into()),
        },
        | HostOp::WriteLine => {
            io.out.extend_from_slice(st(&args[0])?.as_bytes());
            io.out.push(b'\n');
            Select(args[1].clone(), vec![])
        }
        | HostOp::WriteStr => {
            io.out.extend_from_slice(st(&args[0])?.as_bytes());
            Select(args[1].clone(), vec![])
        }
        | HostOp::ReadLine => {
            let line = io.line()?;
            Select(args[0].clone(), vec![RV::Str(Rc::new(line))])
        }
        | HostOp::ReadInt => {
            let line = io.line()?;
            match hmodel::parse_int_contract(&line) {
                | ParseVerdict::None => Select(args[0].clone(), vec![]),
                | ParseVerdict::Some(n) => Select(args[1].clone(), vec![i64v(n as i128)]),
                | ParseVerdict::Either(_) => Undetermined("read_int on a non-canonical numeral".into()),
            }
        }
        | HostOp::Exit => Exit(int(&args[0])? as i64 as i32),
    })
}

enum Ctl<'a> {
    Eval(&'a Comp, Env<'a>),
    Prim(HostOp),
    Return(RV<'a>),
}

/// Run a program's main computation.
pub fn run<'a>(prog: &'a Program, stdin: &[u8], fuel: u64) -> RRun {
    let mut io = Io { stdin, pos: 0, out: vec![] };
    let mut stack: Vec<Frame<'a>> = vec![];
    let mut ctl = Ctl::Eval(&prog.main, Env::new());
    let mut steps = 0u64;
    let end = loop {
        if steps >= fuel {
            break REnd::OutOfFuel;
        }
        steps += 1;
        let next: Result<Ctl<'a>, REnd> = (|| {
            Ok(match ctl_take(&mut ctl) {
                | Ctl::Return(v) => match stack.pop() {
                    | None => return Err(REnd::Ret),
                    | Some(Frame::Kont(p, n, mut env)) => {
                        match bind(p, &v, &mut env) {
                            | Ok(true) => {}
                            | Ok(false) => return Err(REnd::Stuck("refutable pattern failed in do".into())),
                            | Err(e) => return Err(REnd::Stuck(e)),
                        }
                        Ctl::Eval(n, env)
                    }
                    | Some(_) => return Err(REnd::Stuck("return to a non-continuation frame".into())),
                },
                | Ctl::Prim(op) => {
                    let mut args = vec![];
                    for _ in 0..arity(op) {
                        match stack.pop() {
                            | Some(Frame::Arg(v)) => args.push(v),
                            | _ => return Err(REnd::Stuck(format!("host {op:?}: missing argument frame"))),
                        }
                    }
                    match host(op, args, &mut io) {
                        | Err(e) => return Err(REnd::Stuck(e)),
                        | Ok(HostOut::Ret(v)) => Ctl::Return(v),
                        | Ok(HostOut::Exit(c)) => return Err(REnd::Exit(c)),
                        | Ok(HostOut::Trap) => return Err(REnd::Trap),
                        | Ok(HostOut::Undetermined(w)) => return Err(REnd::Undetermined(w)),
                        | Ok(HostOut::Select(thunk, args)) => {
                            for a in args.into_iter().rev() {
                                stack.push(Frame::Arg(a));
                            }
                            force(thunk)?
                        }
                    }
                }
                | Ctl::Eval(c, env) => match c {
                    | Comp::Ret(v) => Ctl::Return(eval_val(v, &env).map_err(REnd::Stuck)?),
                    | Comp::Do(p, _, m, n) => {
                        stack.push(Frame::Kont(p, n, env.clone()));
                        Ctl::Eval(m, env)
                    }
                    | Comp::Let(p, _, v, n) => {
                        let v = eval_val(v, &env).map_err(REnd::Stuck)?;
                        let mut env = env;
                        match bind(p, &v, &mut env) {
                            | Ok(true) => {}
                            | Ok(false) => return Err(REnd::Stuck("refutable pattern failed in let".into())),
                            | Err(e) => return Err(REnd::Stuck(e)),
                        }
                        Ctl::Eval(n, env)
                    }
                    | Comp::Fn(p, _, m) => match stack.pop() {
                        | Some(Frame::Arg(v)) => {
                            let mut env = env;
                            match bind(p, &v, &mut env) {
                                | Ok(true) => {}
                                | Ok(false) => return Err(REnd::Stuck("refutable pattern failed in fn".into())),
                                | Err(e) => return Err(REnd::Stuck(e)),
                            }
                            Ctl::Eval(m, env)
                        }
                        | _ => return Err(REnd::Stuck("fn without an argument frame".into())),
                    },
                    | Comp::App(m, _, v) => {
                        stack.push(Frame::Arg(eval_val(v, &env).map_err(REnd::Stuck)?));
                        Ctl::Eval(m, env)
                    }
                    | Comp::TFn(_, _, m) => Ctl::Eval(m, env),
                    | Comp::TApp(m, _, _) => Ctl::Eval(m, env),
                    | Comp::Force(v, _) => force(eval_val(v, &env).map_err(REnd::Stuck)?)?,
                    | Comp::Match(v, _, arms) => {
                        let v = eval_val(v, &env).map_err(REnd::Stuck)?;
                        let mut chosen = None;
                        for arm in arms {
                            let mut e2 = env.clone();
                            match bind(&arm.pat, &v, &mut e2) {
                                | Ok(true) => {
                                    chosen = Some(Ctl::Eval(&arm.body, e2));
                                    break;
                                }
                                | Ok(false) => {}
                                | Err(e) => return Err(REnd::Stuck(e)),
                            }
                        }
                        match chosen {
                            | Some(c) => c,
                            | None => return Err(REnd::Stuck("no matching arm".into())),
                        }
                    }
                    | Comp::Comatch(_, clauses) => match stack.pop() {
                        | Some(Frame::Dtor(_, d)) => {
                            let Some(cl) = clauses.iter().find(|c| c.dtor == d) else {
                                return Err(REnd::Stuck("no clause for destructor".into()));
                            };
                            let mut env = env;
                            for (p, _) in &cl.params {
                                match stack.pop() {
                                    | Some(Frame::Arg(v)) => match bind(p, &v, &mut env) {
                                        | Ok(true) => {}
                                        | Ok(false) => {
                                            return Err(REnd::Stuck("refutable copattern parameter failed".into()));
                                        }
                                        | Err(e) => return Err(REnd::Stuck(e)),
                                    },
                                    | _ => return Err(REnd::Stuck("copattern parameter without argument".into())),
                                }
                            }
                            Ctl::Eval(&cl.body, env)
                        }
                        | _ => return Err(REnd::Stuck("comatch without a destructor frame".into())),
                    },
                    | Comp::Dtor(m, cd, d, args) => {
                        for a in args.iter().rev() {
                            stack.push(Frame::Arg(eval_val(a, &env).map_err(REnd::Stuck)?));
                        }
                        stack.push(Frame::Dtor(*cd, *d));
                        Ctl::Eval(m, env)
                    }
                    | Comp::Fix(f, _, m) => {
                        let mut e2 = env.clone();
                        e2.insert(*f, RV::Thunk(c, env));
                        Ctl::Eval(m, e2)
                    }
                },
            })
        })();
        match next {
            | Ok(c) => ctl = c,
            | Err(end) => break end,
        }
    };
    RRun { stdout: io.out, end, steps }
}

fn ctl_take<'a>(c: &mut Ctl<'a>) -> Ctl<'a> {
    std::mem::replace(c, Ctl::Return(RV::Unit))
}

fn force<'a>(v: RV<'a>) -> Result<Ctl<'a>, REnd> {
    match v {
        | RV::Thunk(c, env) => Ok(Ctl::Eval(c, env)),
        | RV::Host(op) => Ok(Ctl::Prim(op)),
        | other => Err(REnd::Stuck(format!("force of a non-thunk {other:?}"))),
    }
}
