//! R-sem: reference CK machine for call-by-push-value over the G-core AST.  Types, annotations,
//! names, sealing and file boundaries do not exist here: erasure is by construction.

use super::ast::*;
use crate::hmodel;
use im::OrdMap;
use std::rc::Rc;

#[derive(Clone, Debug)]
pub enum RV<'a> {
    Int(hmodel::IntTy, i128),
    F64(u64),
    Str(Rc<String>),
    Char(char),
    Unit,
    Tuple(Rc<Vec<RV<'a>>>),
    Ctor(usize, usize, Rc<RV<'a>>),
    Thunk(&'a Comp, Env<'a>),
    Host(HostOp),
}

pub type Env<'a> = OrdMap<Bid, RV<'a>>;

enum Frame<'a> {
    Kont(&'a Pat, &'a Comp, Env<'a>),
    Arg(RV<'a>),
    Dtor(usize, usize),
}

#[derive(Clone, Debug, PartialEq, Eq)]
pub enum REnd {
    Exit(i32),
    /// the program returned a value to an empty stack (not an OS program)
    Ret,
    /// integer division or remainder by zero
    Trap,
    OutOfFuel,
    /// the reference model cannot decide (grey-zone input of a host contract)
    Undetermined(String),
    /// reference machine stuck: a harness bug (generated program ill-typed)
    Stuck(String),
}

#[derive(Clone, Debug)]
pub struct RRun {
    pub stdout: Vec<u8>,
    pub end: REnd,
    pub steps: u64,
}

fn mk_tuple<'a>(mut items: Vec<RV<'a>>) -> RV<'a> {
    // canonical: a trailing tuple is part of the spine
    loop {
        match items.pop() {
            | Some(RV::Tuple(inner)) => items.extend(inner.iter().cloned()),
            | Some(other) => {
                items.push(other);
                break;
            }
            | None => break,
        }
    }
    match items.len() {
        | 0 => RV::Unit,
        | 1 => items.pop().unwrap(),
        | _ => RV::Tuple(Rc::new(items)),
    }
}

fn eval_val<'a>(v: &'a Val, env: &Env<'a>) -> Result<RV<'a>, String> {
    Ok(match v {
        | Val::Var(b) => env.get(b).cloned().ok_or_else(|| format!("unbound binder {b}"))?,
        | Val::Int(t, n) => RV::Int(*t, *n),
        | Val::F64(b) => RV::F64(*b),
        | Val::Str(s) => RV::Str(Rc::new(s.clone())),
        | Val::Char(c) => RV::Char(*c),
        | Val::Unit => RV::Unit,
        | Val::Tuple(items) => {
            let mut out = Vec::with_capacity(items.len());
            for i in items {
                out.push(eval_val(i, env)?);
            }
            mk_tuple(out)
        }
        | Val::Ctor(d, c, payload) => RV::Ctor(*d, *c, Rc::new(eval_val(payload, env)?)),
        | Val::Thunk(c) => RV::Thunk(c, env.clone()),
        | Val::Host(op) => RV::Host(*op),
    })
}

/// Bind by position.  `Ok(None)` = the (refutable) pattern does not match.
fn bind<'a>(p: &'a Pat, v: &RV<'a>, env: &mut Env<'a>) -> Result<bool, String> {
    match p {
        | Pat::Var(b) => {
            env.insert(*b, v.clone());
            Ok(true)
        }
        | Pat::Wild => Ok(true),
        | Pat::Unit => match v {
            | RV::Unit => Ok(true),
            | other => Err(format!("unit pattern against {other:?}")),
        },
        | Pat::Tuple(ps) => {
            let RV::Tuple(vs) = v else { return Err(format!("tuple pattern against {v:?}")) };
            if ps.len() > vs.len() {
                return Err("tuple pattern longer than value".into());
            }
            for (i, p) in ps.iter().enumerate() {
                let ok = if i + 1 == ps.len() && ps.len() < vs.len() {
                    // the last pattern observes the suffix product
                    let rest = RV::Tuple(Rc::new(vs[i..].to_vec()));
                    bind(p, &rest, env)?
                } else {
                    bind(p, &vs[i], env)?
                };
                if !ok {
                    return Ok(false);
                }
            }
            Ok(true)
        }
        | Pat::Ctor(d, c, inner) => match v {
            | RV::Ctor(d2, c2, payload) if d == d2 => {
                if c == c2 {
                    bind(inner, payload, env)
                } else {
                    Ok(false)
                }
            }
            | other => Err(format!("constructor pattern against {other:?}")),
        },
        | Pat::Alias(ps) => {
            for p in ps {
                if !bind(p, v, env)? {
                    return Ok(false);
                }
            }
            Ok(true)
        }
    }
}

pub fn arity(op: HostOp) -> usize {
    match op {
        | HostOp::IntArith(..) | HostOp::F64Arith(_) | HostOp::StrAppend => 2,
        | HostOp::IntCmp(..) | HostOp::F64Cmp(_) | HostOp::StrEq | HostOp::StrGet | HostOp::StrSplitAt => 4,
        | HostOp::IntToStr(_)
        | HostOp::F64ToStr
        | HostOp::StrLen
        | HostOp::StrByteLen
        | HostOp::CharToStr
        | HostOp::CharCode
        | HostOp::ReadLine
        | HostOp::Exit => 1,
        | HostOp::CharFromCode | HostOp::ParseInt => 3,
        | HostOp::WriteLine | HostOp::WriteStr | HostOp::ReadInt => 2,
    }
}

enum HostOut<'a> {
    Ret(RV<'a>),
    /// force this thunk with these arguments
    Select(RV<'a>, Vec<RV<'a>>),
    Exit(i32),
    Trap,
    Undetermined(String),
}

type Io<'s> = hmodel::HostIo<'s>;

/// Host symbol of an operation (what the role is called at the host boundary).
pub fn host_name(op: HostOp) -> String {
    match op {
        | HostOp::IntArith(t, o) => format!("{}_{}", t.pkg(), o.name()),
        | HostOp::IntCmp(t, o) => format!("{}_{}_branch", t.pkg(), o.name()),
        | HostOp::IntToStr(t) => format!("{}_to_string", t.pkg()),
        | HostOp::F64Arith(o) => format!("float64_{}", o.name()),
        | HostOp::F64Cmp(o) => format!("float64_{}_branch", o.name()),
        | HostOp::F64ToStr => "float64_to_string".into(),
        | HostOp::StrAppend => "str_append".into(),
        | HostOp::StrLen => "str_scalar_length".into(),
        | HostOp::StrByteLen => "str_byte_length".into(),
        | HostOp::StrEq => "str_eq_branch".into(),
        | HostOp::StrGet => "str_get_branch".into(),
        | HostOp::StrSplitAt => "str_split_at_branch".into(),
        | HostOp::CharToStr => "char_to_str".into(),
        | HostOp::CharCode => "char_codepoint".into(),
        | HostOp::CharFromCode => "char_from_codepoint_branch".into(),
        | HostOp::ParseInt => "str_parse_int_branch".into(),
        | HostOp::WriteLine => "write_line".into(),
        | HostOp::WriteStr => "write_str".into(),
        | HostOp::ReadLine => "read_line".into(),
        | HostOp::ReadInt => "read_line_as_int_branch".into(),
        | HostOp::Exit => "exit".into(),
    }
}

fn to_hv(v: &RV<'_>) -> hmodel::HV {
    match v {
        | RV::Int(t, n) => hmodel::HV::Int(*t, *n),
        | RV::F64(b) => hmodel::HV::F64(*b),
        | RV::Str(s) => hmodel::HV::Str((**s).clone()),
        | RV::Char(c) => hmodel::HV::Char(*c),
        | RV::Unit => hmodel::HV::Unit,
        | _ => hmodel::HV::Opaque,
    }
}

fn from_hv<'a>(v: hmodel::HV) -> RV<'a> {
    match v {
        | hmodel::HV::Int(t, n) => RV::Int(t, n),
        | hmodel::HV::F64(b) => RV::F64(b),
        | hmodel::HV::F32(b) => RV::F64(f32::from_bits(b) as f64 as u64),
        | hmodel::HV::Str(s) => RV::Str(Rc::new(s)),
        | hmodel::HV::Char(c) => RV::Char(c),
        | hmodel::HV::Unit | hmodel::HV::Opaque | hmodel::HV::Bytes(_) => RV::Unit,
    }
}

fn host<'a>(op: HostOp, args: Vec<RV<'a>>, io: &mut Io) -> Result<HostOut<'a>, String> {
    let hargs: Vec<hmodel::HV> = args.iter().map(to_hv).collect();
    Ok(match hmodel::host_call(&host_name(op), &hargs, io)? {
        | hmodel::HOut::Ret(v) => HostOut::Ret(from_hv(v)),
        | hmodel::HOut::Select(i, vs) => HostOut::Select(args[i].clone(), vs.into_iter().map(from_hv).collect()),
        | hmodel::HOut::Exit(c) => HostOut::Exit(c),
        | hmodel::HOut::Trap => HostOut::Trap,
        | hmodel::HOut::Undetermined(w) => HostOut::Undetermined(w),
    })
}

enum Ctl<'a> {
    Eval(&'a Comp, Env<'a>),
    Prim(HostOp),
    Return(RV<'a>),
}

/// Run a program's main computation.
pub fn run<'a>(prog: &'a Program, stdin: &[u8], fuel: u64) -> RRun {
    let mut io = Io::new(stdin);
    let mut stack: Vec<Frame<'a>> = vec![];
    let mut ctl = Ctl::Eval(&prog.main, Env::new());
    let mut steps = 0u64;
    let end = loop {
        if steps >= fuel {
            break REnd::OutOfFuel;
        }
        steps += 1;
        let next: Result<Ctl<'a>, REnd> = (|| {
            Ok(match ctl_take(&mut ctl) {
                | Ctl::Return(v) => match stack.pop() {
                    | None => return Err(REnd::Ret),
                    | Some(Frame::Kont(p, n, mut env)) => {
                        match bind(p, &v, &mut env) {
                            | Ok(true) => {}
                            | Ok(false) => return Err(REnd::Stuck("refutable pattern failed in do".into())),
                            | Err(e) => return Err(REnd::Stuck(e)),
                        }
                        Ctl::Eval(n, env)
                    }
                    | Some(_) => return Err(REnd::Stuck("return to a non-continuation frame".into())),
                },
                | Ctl::Prim(op) => {
                    let mut args = vec![];
                    for _ in 0..arity(op) {
                        match stack.pop() {
                            | Some(Frame::Arg(v)) => args.push(v),
                            | _ => return Err(REnd::Stuck(format!("host {op:?}: missing argument frame"))),
                        }
                    }
                    match host(op, args, &mut io) {
                        | Err(e) => return Err(REnd::Stuck(e)),
                        | Ok(HostOut::Ret(v)) => Ctl::Return(v),
                        | Ok(HostOut::Exit(c)) => return Err(REnd::Exit(c)),
                        | Ok(HostOut::Trap) => return Err(REnd::Trap),
                        | Ok(HostOut::Undetermined(w)) => return Err(REnd::Undetermined(w)),
                        | Ok(HostOut::Select(thunk, args)) => {
                            for a in args.into_iter().rev() {
                                stack.push(Frame::Arg(a));
                            }
                            force(thunk)?
                        }
                    }
                }
                | Ctl::Eval(c, env) => match c {
                    | Comp::Ret(v) => Ctl::Return(eval_val(v, &env).map_err(REnd::Stuck)?),
                    | Comp::Do(p, _, m, n) => {
                        stack.push(Frame::Kont(p, n, env.clone()));
                        Ctl::Eval(m, env)
                    }
                    | Comp::Let(p, _, v, n) => {
                        let v = eval_val(v, &env).map_err(REnd::Stuck)?;
                        let mut env = env;
                        match bind(p, &v, &mut env) {
                            | Ok(true) => {}
                            | Ok(false) => return Err(REnd::Stuck("refutable pattern failed in let".into())),
                            | Err(e) => return Err(REnd::Stuck(e)),
                        }
                        Ctl::Eval(n, env)
                    }
                    | Comp::Fn(p, _, m) => match stack.pop() {
                        | Some(Frame::Arg(v)) => {
                            let mut env = env;
                            match bind(p, &v, &mut env) {
                                | Ok(true) => {}
                                | Ok(false) => return Err(REnd::Stuck("refutable pattern failed in fn".into())),
                                | Err(e) => return Err(REnd::Stuck(e)),
                            }
                            Ctl::Eval(m, env)
                        }
                        | _ => return Err(REnd::Stuck("fn without an argument frame".into())),
                    },
                    | Comp::App(m, _, v) => {
                        stack.push(Frame::Arg(eval_val(v, &env).map_err(REnd::Stuck)?));
                        Ctl::Eval(m, env)
                    }
                    | Comp::TFn(_, _, m) => Ctl::Eval(m, env),
                    | Comp::TApp(m, _, _) => Ctl::Eval(m, env),
                    | Comp::Force(v, _) => force(eval_val(v, &env).map_err(REnd::Stuck)?)?,
                    | Comp::Match(v, _, arms) => {
                        let v = eval_val(v, &env).map_err(REnd::Stuck)?;
                        let mut chosen = None;
                        for arm in arms {
                            let mut e2 = env.clone();
                            match bind(&arm.pat, &v, &mut e2) {
                                | Ok(true) => {
                                    chosen = Some(Ctl::Eval(&arm.body, e2));
                                    break;
                                }
                                | Ok(false) => {}
                                | Err(e) => return Err(REnd::Stuck(e)),
                            }
                        }
                        match chosen {
                            | Some(c) => c,
                            | None => return Err(REnd::Stuck("no matching arm".into())),
                        }
                    }
                    | Comp::Comatch(_, clauses) => match stack.pop() {
                        | Some(Frame::Dtor(_, d)) => {
                            let Some(cl) = clauses.iter().find(|c| c.dtor == d) else {
                                return Err(REnd::Stuck("no clause for destructor".into()));
                            };
                            let mut env = env;
                            for (p, _) in &cl.params {
                                match stack.pop() {
                                    | Some(Frame::Arg(v)) => match bind(p, &v, &mut env) {
                                        | Ok(true) => {}
                                        | Ok(false) => {
                                            return Err(REnd::Stuck("refutable copattern parameter failed".into()));
                                        }
                                        | Err(e) => return Err(REnd::Stuck(e)),
                                    },
                                    | _ => return Err(REnd::Stuck("copattern parameter without argument".into())),
                                }
                            }
                            Ctl::Eval(&cl.body, env)
                        }
                        | _ => return Err(REnd::Stuck("comatch without a destructor frame".into())),
                    },
                    | Comp::Dtor(m, cd, d, args) => {
                        for a in args.iter().rev() {
                            stack.push(Frame::Arg(eval_val(a, &env).map_err(REnd::Stuck)?));
                        }
                        stack.push(Frame::Dtor(*cd, *d));
                        Ctl::Eval(m, env)
                    }
                    | Comp::Fix(f, _, m) => {
                        let mut e2 = env.clone();
                        e2.insert(*f, RV::Thunk(c, env));
                        Ctl::Eval(m, e2)
                    }
                },
            })
        })();
        match next {
            | Ok(c) => ctl = c,
            | Err(end) => break end,
        }
    };
    RRun { stdout: io.out, end, steps }
}

fn ctl_take<'a>(c: &mut Ctl<'a>) -> Ctl<'a> {
    std::mem::replace(c, Ctl::Return(RV::Unit))
}

fn force<'a>(v: RV<'a>) -> Result<Ctl<'a>, REnd> {
    match v {
        | RV::Thunk(c, env) => Ok(Ctl::Eval(c, env)),
        | RV::Host(op) => Ok(Ctl::Prim(op)),
        | other => Err(REnd::Stuck(format!("force of a non-thunk {other:?}"))),
    }
}
