pub mod ast;
pub mod eval;
pub mod generate;
pub mod print;
pub mod harness;
pub mod naming;
pub mod mutate;
