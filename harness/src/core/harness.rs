//! Shared plumbing for properties that run generated core programs: print, analyse, run, compare.

use super::ast::Program;
use super::eval::{self, REnd, RRun};
use super::generate::{self, Cfg};
use super::print::{self, Names, Style};
use crate::drive::{self, Analyzed, RunEnd, RunResult};
use crate::engine::*;
use serde_json::{Value, json};
use std::collections::BTreeMap;
use std::path::Path;
use zydeco_session::CompilerSession;

pub struct Generated {
    pub prog: Program,
    pub feats: BTreeMap<&'static str, u32>,
    pub stdin: Vec<u8>,
}

/// Standard inputs chosen from the tape: canonical numerals, text lines, empty.
pub fn gen_stdin(t: &mut Tape) -> Vec<u8> {
    let lines = t.below(5);
    let mut s = String::new();
    for _ in 0..lines {
        match t.below(6) {
            | 0 => s.push_str(&format!("{}\n", t.below(100))),
            | 1 => s.push_str(&format!("-{}\n", 1 + t.below(1000))),
            | 2 => s.push_str("hello\n"),
            | 3 => s.push_str("\n"),
            | 4 => s.push_str("ünï 𝄞\r\n"),
            | _ => s.push_str("9223372036854775807\n"),
        }
    }
    if t.chance(40) {
        s.push_str("no newline at end");
    }
    s.into_bytes()
}

pub fn generate(tape: &[u8], cfg: &Cfg) -> Generated {
    // the last 24 bytes of the tape (when present) drive stdin, so shrinking the program part and the
    // input part stay independent
    let (ptape, stape) = if tape.len() > 48 { tape.split_at(tape.len() - 24) } else { (tape, &[][..]) };
    let (prog, feats) = generate::gen_program(ptape, cfg);
    let mut st = Tape::new(stape);
    let stdin = gen_stdin(&mut st);
    Generated { prog, feats, stdin }
}

pub fn describe_end(e: &RunEnd) -> String {
    format!("{e:?}")
}

/// Are the reference end and the interpreter end the same observable outcome?
pub fn ends_agree(r: &REnd, i: &RunEnd) -> bool {
    match (r, i) {
        | (REnd::Exit(a), RunEnd::Exit(b)) => a == b,
        | (REnd::Trap, RunEnd::Trap(_)) => true,
        | (REnd::Ret, RunEnd::Ret(_)) => true,
        | _ => false,
    }
}

pub struct Outcome {
    pub text: String,
    pub analyzed: Analyzed,
}

pub fn write_and_analyze(dir: &Path, text: &str) -> (CompilerSession, Analyzed) {
    let path = dir.join("case.zy");
    std::fs::write(&path, text).expect("write case");
    let session = CompilerSession::default();
    let a = drive::analyze_executable(&session, &path);
    (session, a)
}

pub fn render_case(text: &str, stdin: &[u8], extra: Value) -> Value {
    json!({"source": text, "stdin": String::from_utf8_lossy(stdin), "info": extra})
}

pub fn reference_run(prog: &Program, stdin: &[u8], fuel: u64) -> RRun {
    eval::run(prog, stdin, fuel)
}

pub fn interp_run(exe: zydeco_session::ExecutableProgram, stdin: &[u8], fuel: u64) -> RunResult {
    drive::run_executable(exe, stdin, &[], fuel)
}

pub fn default_print(repo: &Path, prog: &Program) -> String {
    print::print_program(repo, prog, &Names::unique(prog), &Style::default())
}
