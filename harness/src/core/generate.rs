//! G-core generator: type-directed generation of well-typed, terminating OS programs from a choice
//! tape.  Byte 0 always selects the simplest alternative.

use super::ast::*;
use crate::engine::{Tape, weighted};
use crate::hmodel::{ARITH, Arith, CMP, Cmp, FARITH, INT_TYS, IntTy};
use std::collections::BTreeMap;

#[derive(Clone, Debug)]
pub struct Cfg {
    pub budget: isize,
    pub depth: usize,
    /// allow `read_line` / `read_int`
    pub stdin: bool,
    /// allow integer division (may trap)
    pub division: bool,
    pub poly: bool,
    pub floats: bool,
    /// the fragment the algebra translation supports: ret, do, functions, thunks, transparent data and
    /// matches, lets; no host operations, recursion, codata or polymorphism
    pub mo: bool,
}

impl Cfg {
    pub fn quick() -> Cfg {
        Cfg { budget: 70, depth: 6, stdin: true, division: true, poly: true, floats: true, mo: false }
    }
    pub fn monadic(budget: isize, depth: usize) -> Cfg {
        Cfg { budget, depth, stdin: false, division: false, poly: false, floats: false, mo: true }
    }
    pub fn thorough() -> Cfg {
        Cfg { budget: 220, depth: 10, stdin: true, division: true, poly: true, floats: true, mo: false }
    }
}

pub struct G<'t, 'b> {
    pub t: &'t mut Tape<'b>,
    pub cfg: Cfg,
    pub datas: Vec<DataDecl>,
    pub codatas: Vec<CodataDecl>,
    next_bid: Bid,
    next_tyvar: TyVar,
    budget: isize,
    pub scope: Vec<(Bid, VTy)>,
    vvars: Vec<TyVar>,
    cvars: Vec<TyVar>,
    pub feats: BTreeMap<&'static str, u32>,
}

const STRINGS: &[&str] = &[
    "", "a", "zy", "hello world", "ünï©ödé", "tab\there", "quote\"q", "back\\slash", "line1\nline2", "𝄞clef",
    "-/ not a comment", "42", "-7", "  spaced  ", "日本語",
];
const CHARS: &[char] = &['a', 'Z', '0', ' ', '~', '\'', '\\', '|', '(', '\n', '\t'];

impl<'t, 'b> G<'t, 'b> {
    pub fn new(t: &'t mut Tape<'b>, cfg: Cfg) -> Self {
        let budget = cfg.budget;
        G {
            t,
            cfg,
            datas: vec![],
            codatas: vec![],
            next_bid: 0,
            next_tyvar: 0,
            budget,
            scope: vec![],
            vvars: vec![],
            cvars: vec![],
            feats: BTreeMap::new(),
        }
    }

    fn feat(&mut self, f: &'static str) {
        *self.feats.entry(f).or_insert(0) += 1;
    }
    pub fn bid(&mut self) -> Bid {
        self.next_bid += 1;
        self.next_bid - 1
    }
    fn tyvar(&mut self) -> TyVar {
        self.next_tyvar += 1;
        self.next_tyvar - 1
    }

    /* ------------------------------ declarations -------------------------- */

    fn simple_vty(&mut self, allow_data: usize) -> VTy {
        match self.t.below(9) {
            | 0 | 1 => VTy::Int(IntTy::I64),
            | 2 => VTy::Int(*self.t.pick(&INT_TYS)),
            | 3 => VTy::Str,
            | 4 => VTy::Unit,
            | 5 => VTy::Char,
            | 6 if allow_data > 0 => VTy::Data(self.t.below(allow_data)),
            | 7 => prod(vec![VTy::Int(IntTy::I64), VTy::Str]),
            | _ => VTy::Int(IntTy::I64),
        }
    }

    pub fn gen_decls(&mut self) {
        let nd = self.t.below(4);
        for i in 0..nd {
            let nctors = 1 + self.t.below(4);
            let mut ctors = vec![];
            let mut recursive = false;
            for c in 0..nctors {
                let name = format!("+K{i}{}", (b'a' + c as u8) as char);
                let payload = if c == 0 {
                    // first constructor: never recursive, so every data type has a finite inhabitant
                    match self.t.below(4) {
                        | 0 => VTy::Unit,
                        | 1 => VTy::Int(IntTy::I64),
                        | 2 => self.simple_vty(i),
                        | _ => VTy::Unit,
                    }
                } else {
                    match self.t.below(8) {
                        | 0 => VTy::Unit,
                        | 1 => self.simple_vty(i),
                        | 2 if !self.cfg.mo => {
                            recursive = true;
                            VTy::Data(i)
                        }
                        | 3 if !self.cfg.mo => {
                            recursive = true;
                            prod(vec![self.simple_vty(i), VTy::Data(i)])
                        }
                        | 4 => {
                            let a = self.simple_vty(i);
                            let b = self.simple_vty(i);
                            let c = self.simple_vty(i);
                            prod(vec![a, b, c])
                        }
                        | 5 => {
                            let a = self.simple_vty(i);
                            let b = self.simple_vty(i);
                            prod(vec![prod(vec![a, b]), VTy::Int(IntTy::I64)])
                        }
                        | 6 => VTy::Thk(Box::new(CTy::Ret(Box::new(self.simple_vty(i))))),
                        | _ => {
                            let a = self.simple_vty(i);
                            let b = self.simple_vty(i);
                            prod(vec![a, b])
                        }
                    }
                };
                ctors.push((name, payload));
            }
            let sealed = self.t.flag() && !self.cfg.mo;
            self.datas.push(DataDecl { sealed, ctors, recursive });
        }
        let nc = if self.cfg.mo { 0 } else { self.t.below(3) };
        for i in 0..nc {
            let nd = 1 + self.t.below(3);
            let mut dtors = vec![];
            let mut recursive = false;
            for d in 0..nd {
                let name = format!(".d{i}{}", (b'a' + d as u8) as char);
                // up to four parameters: clauses with three or more value patterns exercise the argument tuple
                let np = [0usize, 1, 2, 0, 1, 2, 3, 4][self.t.below(8)];
                let params: Vec<VTy> = (0..np).map(|_| self.simple_vty(self.datas.len())).collect();
                let result = match self.t.below(6) {
                    | 0 | 1 | 2 => CTy::Ret(Box::new(self.simple_vty(self.datas.len()))),
                    | 3 if d > 0 => {
                        recursive = true;
                        CTy::Codata(i)
                    }
                    | 4 if i > 0 => CTy::Codata(self.t.below(i)),
                    | _ => CTy::Ret(Box::new(VTy::Int(IntTy::I64))),
                };
                dtors.push(DtorDecl { name, params, result });
            }
            let sealed = self.t.flag();
            self.codatas.push(CodataDecl { sealed, dtors, recursive });
        }
    }

    /* --------------------------------- types ------------------------------ */

    pub fn gen_vty(&mut self, depth: usize) -> VTy {
        let w_data = if self.datas.is_empty() { 0 } else { 4 };
        let w_var = if self.vvars.is_empty() { 0 } else { 3 };
        let deep = if depth == 0 { 0 } else { 1 };
        let fl = if self.cfg.floats { 1 } else { 0 };
        match weighted(self.t, &[6, 3, 3, 2, 1, w_data, w_var, 3 * deep, 2 * deep, fl]) {
            | 0 => VTy::Int(IntTy::I64),
            | 1 => VTy::Int(*self.t.pick(&INT_TYS)),
            | 2 => VTy::Str,
            | 3 => VTy::Unit,
            | 4 => VTy::Char,
            | 5 => VTy::Data(self.t.below(self.datas.len())),
            | 6 => VTy::Var(*self.t.pick(&self.vvars.clone())),
            | 7 => {
                let n = 2 + self.t.below(3);
                let items: Vec<VTy> = (0..n).map(|_| self.gen_vty(depth - 1)).collect();
                prod(items)
            }
            | 8 => VTy::Thk(Box::new(self.gen_cty(depth - 1))),
            | _ => VTy::F64,
        }
    }

    pub fn gen_cty(&mut self, depth: usize) -> CTy {
        let w_co = if self.codatas.is_empty() { 0 } else { 3 };
        let deep = if depth == 0 { 0 } else { 1 };
        let poly = if self.cfg.poly && depth > 0 { 1 } else { 0 };
        match weighted(self.t, &[6, 4 * deep, w_co, poly, poly]) {
            | 0 => CTy::Ret(Box::new(self.gen_vty(depth.saturating_sub(1)))),
            | 1 => {
                let a = self.gen_vty(depth - 1);
                CTy::Arrow(Box::new(a), Box::new(self.gen_cty(depth - 1)))
            }
            | 2 => CTy::Codata(self.t.below(self.codatas.len())),
            | 3 => {
                // forall (X : VType) . X -> B   (the X parameter keeps X inhabited inside B)
                let x = self.tyvar();
                self.vvars.push(x);
                let b = self.gen_cty(depth - 1);
                self.vvars.pop();
                CTy::ForallV(x, Box::new(CTy::Arrow(Box::new(VTy::Var(x)), Box::new(b))))
            }
            | _ => {
                // forall (R : CType) . Thk R -> B
                let r = self.tyvar();
                self.cvars.push(r);
                let b = if self.t.flag() { CTy::Var(r) } else { self.gen_cty(depth - 1) };
                self.cvars.pop();
                CTy::ForallC(
                    r,
                    Box::new(CTy::Arrow(Box::new(VTy::Thk(Box::new(CTy::Var(r)))), Box::new(b))),
                )
            }
        }
    }

    pub fn printable(&self, t: &VTy) -> bool {
        match t {
            | VTy::Int(_) | VTy::Str | VTy::Char | VTy::Unit | VTy::Data(_) => true,
            | VTy::Prod(items) => items.iter().all(|i| self.printable(i)),
            | _ => false,
        }
    }

    /* -------------------------------- values ------------------------------ */

    fn int_lit(&mut self, t: IntTy) -> Val {
        let v = match self.t.below(8) {
            | 0 => 0,
            | 1 => 1,
            | 2 => self.t.below(10) as i128,
            | 3 => t.max(),
            | 4 => t.min(),
            | 5 => t.max() - self.t.below(3) as i128,
            | 6 => {
                if t.signed() {
                    -(self.t.below(200) as i128)
                } else {
                    self.t.below(200) as i128
                }
            }
            | _ => {
                let r = self.t.u64() as i128;
                let span = t.max() - t.min() + 1;
                t.min() + r.rem_euclid(span)
            }
        };
        Val::Int(t, v.clamp(t.min(), t.max()))
    }

    fn vars_of(&self, t: &VTy) -> Vec<Bid> {
        self.scope.iter().filter(|(_, ty)| ty == t).map(|(b, _)| *b).collect()
    }

    pub fn gen_val(&mut self, t: &VTy, depth: usize) -> Val {
        self.budget -= 1;
        let vars = self.vars_of(t);
        if !vars.is_empty() && self.t.chance(150) {
            // prefer recent binders
            let i = self.t.below(vars.len().min(4));
            return Val::Var(vars[vars.len() - 1 - i]);
        }
        match t {
            | VTy::Int(it) => self.int_lit(*it),
            | VTy::F64 => {
                let v = [0.0f64, 1.0, -1.5, 0.1, 1e21, 3.25, -0.0, 1e-7, 123456.789, f64::MAX, f64::MIN_POSITIVE]
                    [self.t.below(11)];
                Val::F64(v.to_bits())
            }
            | VTy::Str => Val::Str(self.t.pick(STRINGS).to_string()),
            | VTy::Char => Val::Char(*self.t.pick(CHARS)),
            | VTy::Unit => Val::Unit,
            | VTy::Prod(items) => {
                let n = items.len();
                if n >= 3 && depth > 0 && self.t.chance(90) {
                    // a tail of product type (a variable bound to a tuple, or a nested literal): the
                    // language splices it into the spine, so `(a, t)` with `t : B * C` has type `A * B * C`
                    self.feat("product-tail");
                    let k = 1 + self.t.below(n - 2);
                    let mut vals: Vec<Val> = items[..k].iter().map(|i| self.gen_val(i, depth - 1)).collect();
                    let tail_ty = prod(items[k..].to_vec());
                    vals.push(self.gen_val(&tail_ty, depth - 1));
                    return Val::Tuple(vals);
                }
                let vals: Vec<Val> = items.iter().map(|i| self.gen_val(i, depth.saturating_sub(1))).collect();
                Val::Tuple(vals)
            }
            | VTy::Data(d) => {
                let n = self.datas[*d].ctors.len();
                let c = if depth == 0 || self.budget <= 0 { 0 } else { self.t.below(n) };
                let pty = self.datas[*d].ctors[c].1.clone();
                let payload = self.gen_val(&pty, depth.saturating_sub(1));
                Val::Ctor(*d, c, Box::new(payload))
            }
            | VTy::Thk(b) => {
                self.feat("thunk");
                Val::Thunk(Box::new(self.gen_comp(b, depth.saturating_sub(1))))
            }
            | VTy::Var(_) => {
                // invariant: every value type variable in scope has a variable of that type in scope
                let vars = self.vars_of(t);
                let i = self.t.below(vars.len().max(1));
                Val::Var(*vars.get(i).expect("harness invariant: abstract type is inhabited by a variable"))
            }
        }
    }

    /* ------------------------------- patterns ----------------------------- */

    /// An irrefutable pattern for a value of type `t`; binds variables into scope.
    fn gen_pat(&mut self, t: &VTy, depth: usize) -> Pat {
        let choice = if depth == 0 { 0 } else { weighted(self.t, &[10, 1, 5, 2]) };
        match (choice, t) {
            | (1, _) => Pat::Wild,
            | (2, VTy::Prod(items)) => {
                self.feat("tuple-pattern");
                let n = items.len();
                let k = if n > 2 && self.t.chance(60) { 2 + self.t.below(n - 2) } else { n };
                let mut pats = vec![];
                for i in 0..k {
                    let ty = if i + 1 == k { prod(items[i..].to_vec()) } else { items[i].clone() };
                    pats.push(self.gen_pat(&ty, depth - 1));
                }
                Pat::Tuple(pats)
            }
            | (2, VTy::Unit) => Pat::Unit,
            | (3, _) => {
                self.feat("alias-pattern");
                let a = self.gen_pat(t, depth - 1);
                let b = self.gen_pat(t, depth - 1);
                Pat::Alias(vec![a, b])
            }
            | _ => {
                let b = self.bid();
                self.scope.push((b, t.clone()));
                Pat::Var(b)
            }
        }
    }

    /* ----------------------------- computations --------------------------- */

    fn host_val(op: HostOp) -> Val {
        Val::Host(op)
    }

    fn call_host(&mut self, op: HostOp, r: Option<CTy>, args: Vec<Val>) -> Comp {
        let rv = self.tyvar();
        let mut ty = op.ty(rv);
        let mut c = Comp::Force(Self::host_val(op), ty.clone());
        if let CTy::ForallC(x, body) = ty.clone() {
            let r = r.expect("branch role needs a result type");
            c = Comp::TApp(Box::new(c), ty.clone(), TyArg::C(r.clone()));
            ty = body.subst(x, &TyArg::C(r));
        }
        for a in args {
            let CTy::Arrow(_, b) = ty.clone() else { panic!("harness: too many host arguments for {op:?}") };
            c = Comp::App(Box::new(c), ty.clone(), a);
            ty = *b;
        }
        c
    }

    fn leaf(&mut self, t: &CTy) -> Comp {
        match t {
            | CTy::Ret(a) => Comp::Ret(self.gen_val(a, 0)),
            | CTy::Arrow(a, b) => {
                let mark = self.scope.len();
                let p = self.gen_pat(a, 0);
                let body = self.leaf(b);
                self.scope.truncate(mark);
                Comp::Fn(p, (**a).clone(), Box::new(body))
            }
            | CTy::ForallV(x, b) => self.tfn(*x, false, b, 0),
            | CTy::ForallC(x, b) => self.tfn(*x, true, b, 0),
            | CTy::Codata(c) => {
                if self.codatas[*c].recursive {
                    // a finite description of an infinite object: tie the knot
                    let f = self.bid();
                    let body = self.comatch(*c, 0, Some(f));
                    Comp::Fix(f, t.clone(), Box::new(body))
                } else {
                    self.comatch(*c, 0, None)
                }
            }
            | CTy::OS => {
                let code = Val::Int(IntTy::I64, self.t.below(4) as i128);
                self.call_host(HostOp::Exit, None, vec![code])
            }
            | CTy::Var(r) => {
                // invariant: a thunk of every abstract computation type in scope is in scope
                let want = VTy::Thk(Box::new(CTy::Var(*r)));
                let vars = self.vars_of(&want);
                let b = *vars.last().expect("harness invariant: abstract computation type has a thunk in scope");
                Comp::Force(Val::Var(b), CTy::Var(*r))
            }
        }
    }

    /// `fn (X : K) => fn (x : X) => …`: generated quantified types always take a witness of the
    /// abstract type first (`X -> B`, `Thk R -> B`), and that parameter is bound *before* anything
    /// else is generated, so requests for values/computations of the abstract type can be served.
    fn tfn(&mut self, x: TyVar, is_c: bool, b: &CTy, depth: usize) -> Comp {
        let CTy::Arrow(a, b2) = b else { panic!("harness: quantified type without witness parameter") };
        if is_c { self.cvars.push(x) } else { self.vvars.push(x) }
        let v = self.bid();
        self.scope.push((v, (**a).clone()));
        let inner = if depth == 0 { self.leaf(b2) } else { self.gen_comp(b2, depth) };
        // the witness stays in scope only inside
        let pos = self.scope.iter().rposition(|(b, _)| *b == v).expect("witness in scope");
        self.scope.truncate(pos);
        if is_c { self.cvars.pop() } else { self.vvars.pop() };
        Comp::TFn(x, is_c, Box::new(Comp::Fn(Pat::Var(v), (**a).clone(), Box::new(inner))))
    }

    fn comatch(&mut self, c: usize, depth: usize, self_ref: Option<Bid>) -> Comp {
        self.feat("comatch");
        let decl = self.codatas[c].clone();
        let mut order: Vec<usize> = (0..decl.dtors.len()).collect();
        // arm order is free
        if self.t.flag() {
            order.reverse();
        }
        let mut clauses = vec![];
        for d in order {
            let dt = &decl.dtors[d];
            let mark = self.scope.len();
            let mut params = vec![];
            for a in &dt.params {
                let p = self.gen_pat(a, depth.min(1));
                params.push((p, a.clone()));
            }
            let body = match (self_ref, &dt.result) {
                | (Some(f), CTy::Codata(c2)) if *c2 == c && (depth == 0 || self.t.chance(170)) => {
                    self.feat("codata-self-reference");
                    Comp::Force(Val::Var(f), CTy::Codata(c))
                }
                | _ => {
                    if depth == 0 {
                        self.leaf(&dt.result.clone())
                    } else {
                        self.gen_comp(&dt.result.clone(), depth - 1)
                    }
                }
            };
            self.scope.truncate(mark);
            clauses.push(Clause { dtor: d, params, body });
        }
        Comp::Comatch(c, clauses)
    }

    /// Use a thunk variable: force it and eliminate along its spine until the target type or a
    /// returner is reached.  Returns the computation and the type it ends at.
    fn call_var(&mut self, f: Bid, b0: &CTy, target: &CTy, depth: usize) -> Option<(Comp, CTy)> {
        let mut c = Comp::Force(Val::Var(f), b0.clone());
        let mut cur = b0.clone();
        for _ in 0..8 {
            if &cur == target {
                return Some((c, cur));
            }
            match cur.clone() {
                | CTy::Ret(_) => return Some((c, cur)),
                | CTy::OS | CTy::Var(_) => return None,
                | CTy::Arrow(a, b) => {
                    let v = self.gen_val(&a, depth.saturating_sub(1));
                    c = Comp::App(Box::new(c), cur.clone(), v);
                    cur = *b;
                }
                | CTy::ForallV(x, b) => {
                    self.feat("type-application");
                    let arg = match target {
                        | CTy::Ret(a) if self.t.flag() => (**a).clone(),
                        | _ => self.gen_vty(1),
                    };
                    c = Comp::TApp(Box::new(c), cur.clone(), TyArg::V(arg.clone()));
                    cur = b.subst(x, &TyArg::V(arg));
                }
                | CTy::ForallC(x, b) => {
                    self.feat("type-application");
                    let arg = if self.t.flag() { target.clone() } else { self.gen_cty(1) };
                    c = Comp::TApp(Box::new(c), cur.clone(), TyArg::C(arg.clone()));
                    cur = b.subst(x, &TyArg::C(arg));
                }
                | CTy::Codata(cd) => {
                    self.feat("destructor");
                    let n = self.codatas[cd].dtors.len();
                    let d = self.t.below(n);
                    let decl = self.codatas[cd].dtors[d].clone();
                    let args: Vec<Val> =
                        decl.params.iter().map(|a| self.gen_val(a, depth.saturating_sub(1))).collect();
                    c = Comp::Dtor(Box::new(c), cd, d, args);
                    cur = decl.result;
                }
            }
        }
        None
    }

    fn thunk_vars(&self) -> Vec<(Bid, CTy)> {
        self.scope
            .iter()
            .filter_map(|(b, t)| if let VTy::Thk(c) = t { Some((*b, (**c).clone())) } else { None })
            .collect()
    }

    /// `do x <- M; N` where the bound value is then in scope of N
    fn bind_then(&mut self, a: VTy, m: Comp, t: &CTy, depth: usize) -> Comp {
        let mark = self.scope.len();
        let p = self.gen_pat(&a, 2);
        let n = self.gen_comp(t, depth.saturating_sub(1));
        self.scope.truncate(mark);
        Comp::Do(p, a, Box::new(m), Box::new(n))
    }

    /// Print a value (OS context): renders `v : a` observably, then continues with `k`.
    pub fn print_val(&mut self, v: Val, a: &VTy, k: Comp, depth: usize) -> Comp {
        let thunk = |c: Comp| Val::Thunk(Box::new(c));
        match a {
            | VTy::Str => self.call_host(HostOp::WriteLine, None, vec![v, thunk(k)]),
            | VTy::Int(t) => {
                let s = self.bid();
                let write = self.call_host(HostOp::WriteLine, None, vec![Val::Var(s), thunk(k)]);
                let render = self.call_host(HostOp::IntToStr(*t), None, vec![v]);
                Comp::Do(Pat::Var(s), VTy::Str, Box::new(render), Box::new(write))
            }
            | VTy::Char => {
                let s = self.bid();
                let write = self.call_host(HostOp::WriteLine, None, vec![Val::Var(s), thunk(k)]);
                let render = self.call_host(HostOp::CharToStr, None, vec![v]);
                Comp::Do(Pat::Var(s), VTy::Str, Box::new(render), Box::new(write))
            }
            | VTy::Unit => self.call_host(HostOp::WriteLine, None, vec![Val::Str("()".into()), thunk(k)]),
            | VTy::Prod(items) => {
                // destructure, then print the components in order
                let binders: Vec<Bid> = items.iter().map(|_| self.bid()).collect();
                let mut body = k;
                for (b, ty) in binders.iter().zip(items.iter()).rev() {
                    body = self.print_val(Val::Var(*b), ty, body, depth);
                }
                let pat = Pat::Tuple(binders.iter().map(|b| Pat::Var(*b)).collect());
                Comp::Let(pat, a.clone(), v, Box::new(body))
            }
            | VTy::Data(d) => {
                self.feat("match");
                let decl = self.datas[*d].clone();
                // the continuation is shared by all arms through a thunk
                let kb = self.bid();
                let kty = VTy::Thk(Box::new(CTy::OS));
                let mut arms = vec![];
                for (ci, (name, pty)) in decl.ctors.iter().enumerate() {
                    let resume = Comp::Force(Val::Var(kb), CTy::OS);
                    let (pat, body) = if depth == 0 || !self.printable(pty) {
                        (Pat::Wild, resume)
                    } else {
                        let pb = self.bid();
                        (Pat::Var(pb), self.print_val(Val::Var(pb), pty, resume, depth - 1))
                    };
                    let line = self.call_host(
                        HostOp::WriteLine,
                        None,
                        vec![Val::Str(name.trim_start_matches('+').to_string()), thunk(body)],
                    );
                    arms.push(Arm { pat: Pat::Ctor(*d, ci, Box::new(pat)), body: line });
                }
                if self.t.flag() {
                    arms.reverse();
                }
                let m = Comp::Match(v, a.clone(), arms);
                Comp::Let(Pat::Var(kb), kty, thunk(k), Box::new(m))
            }
            | _ => self.call_host(HostOp::WriteLine, None, vec![Val::Str("<opaque>".into()), thunk(k)]),
        }
    }

    /// Exhaustive arms over a data type, each with an irrefutable payload pattern; optionally a
    /// trailing wildcard replaces the last constructors; optionally one level of nesting.
    fn gen_match(&mut self, d: usize, scrut: Val, t: &CTy, depth: usize) -> Comp {
        self.feat("match");
        let decl = self.datas[d].clone();
        let n = decl.ctors.len();
        let mut order: Vec<usize> = (0..n).collect();
        if self.t.flag() {
            order.reverse();
        }
        let wildcard_from = if n > 1 && self.t.chance(50) { 1 + self.t.below(n - 1) } else { n };
        let mut arms = vec![];
        for (k, ci) in order.iter().enumerate() {
            let mark = self.scope.len();
            if k >= wildcard_from {
                self.feat("wildcard-arm");
                let pat = if self.t.flag() {
                    Pat::Wild
                } else {
                    let b = self.bid();
                    self.scope.push((b, VTy::Data(d)));
                    Pat::Var(b)
                };
                let body = self.gen_comp(t, depth.saturating_sub(1));
                self.scope.truncate(mark);
                arms.push(Arm { pat, body });
                break;
            }
            let pty = decl.ctors[*ci].1.clone();
            // nested constructor patterns: split the payload when it is a data type
            if let (VTy::Data(e), true) = (&pty, self.t.chance(70) && depth > 0) {
                self.feat("nested-pattern");
                let inner = self.datas[*e].clone();
                for (cj, (_, ity)) in inner.ctors.iter().enumerate() {
                    let mark2 = self.scope.len();
                    let ip = self.gen_pat(ity, 1);
                    let body = self.gen_comp(t, depth.saturating_sub(1));
                    self.scope.truncate(mark2);
                    arms.push(Arm {
                        pat: Pat::Ctor(d, *ci, Box::new(Pat::Ctor(*e, cj, Box::new(ip)))),
                        body,
                    });
                }
            } else {
                let p = self.gen_pat(&pty, 2);
                let body = self.gen_comp(t, depth.saturating_sub(1));
                arms.push(Arm { pat: Pat::Ctor(d, *ci, Box::new(p)), body });
            }
            self.scope.truncate(mark);
        }
        Comp::Match(scrut, VTy::Data(d), arms)
    }

    /// Recursion templates: counter-bounded, structural over recursive data, productive codata.
    fn gen_fix(&mut self, t: &CTy, depth: usize) -> Option<Comp> {
        match t {
            | CTy::Arrow(a, b) if **a == VTy::Int(IntTy::I64) => {
                // fix f => fn n => if n < 1 then base else if n > 6 then base else (do n' <- n - 1; step)
                self.feat("fix-counter");
                let f = self.bid();
                let n = self.bid();
                let n2 = self.bid();
                let base1 = self.gen_comp(b, depth.saturating_sub(2));
                let base2 = self.gen_comp(b, 0);
                self.scope.push((n, VTy::Int(IntTy::I64)));
                let rec_call = Comp::App(
                    Box::new(Comp::Force(Val::Var(f), t.clone())),
                    t.clone(),
                    Val::Var(n2),
                );
                let step = match &**b {
                    | CTy::Ret(r) if self.t.chance(170) => {
                        // use the recursive result
                        let mark = self.scope.len();
                        let rb = self.bid();
                        self.scope.push((rb, (**r).clone()));
                        let k = self.gen_comp(b, depth.saturating_sub(2));
                        self.scope.truncate(mark);
                        Comp::Do(Pat::Var(rb), (**r).clone(), Box::new(rec_call), Box::new(k))
                    }
                    | _ => rec_call,
                };
                self.scope.pop();
                let dec = self.call_host(
                    HostOp::IntArith(IntTy::I64, Arith::Sub),
                    None,
                    vec![Val::Var(n), Val::Int(IntTy::I64, 1)],
                );
                let rec = Comp::Do(Pat::Var(n2), VTy::Int(IntTy::I64), Box::new(dec), Box::new(step));
                let inner = self.call_host(
                    HostOp::IntCmp(IntTy::I64, Cmp::Gt),
                    Some((**b).clone()),
                    vec![
                        Val::Var(n),
                        Val::Int(IntTy::I64, 6),
                        Val::Thunk(Box::new(base2)),
                        Val::Thunk(Box::new(rec)),
                    ],
                );
                let outer = self.call_host(
                    HostOp::IntCmp(IntTy::I64, Cmp::Lt),
                    Some((**b).clone()),
                    vec![
                        Val::Var(n),
                        Val::Int(IntTy::I64, 1),
                        Val::Thunk(Box::new(base1)),
                        Val::Thunk(Box::new(inner)),
                    ],
                );
                Some(Comp::Fix(
                    f,
                    t.clone(),
                    Box::new(Comp::Fn(Pat::Var(n), VTy::Int(IntTy::I64), Box::new(outer))),
                ))
            }
            | CTy::Arrow(a, b) => {
                // structural recursion over a recursive data type
                let VTy::Data(d) = **a else { return None };
                if !self.datas[d].recursive {
                    return None;
                }
                self.feat("fix-structural");
                let decl = self.datas[d].clone();
                let f = self.bid();
                let l = self.bid();
                let mut arms = vec![];
                for (ci, (_, pty)) in decl.ctors.iter().enumerate() {
                    let mark = self.scope.len();
                    // bind the payload; find recursive positions
                    let (pat, rec_vars): (Pat, Vec<Bid>) = match pty {
                        | VTy::Data(e) if *e == d => {
                            let v = self.bid();
                            (Pat::Var(v), vec![v])
                        }
                        | VTy::Prod(items) => {
                            let mut ps = vec![];
                            let mut recs = vec![];
                            for it in items {
                                let v = self.bid();
                                if *it == VTy::Data(d) {
                                    recs.push(v);
                                } else {
                                    self.scope.push((v, it.clone()));
                                }
                                ps.push(Pat::Var(v));
                            }
                            (Pat::Tuple(ps), recs)
                        }
                        | other => {
                            let v = self.bid();
                            self.scope.push((v, other.clone()));
                            (Pat::Var(v), vec![])
                        }
                    };
                    let body = if let Some(rv) = rec_vars.first() {
                        let call =
                            Comp::App(Box::new(Comp::Force(Val::Var(f), t.clone())), t.clone(), Val::Var(*rv));
                        match &**b {
                            | CTy::Ret(r) => {
                                let rb = self.bid();
                                self.scope.push((rb, (**r).clone()));
                                let k = self.gen_comp(b, depth.saturating_sub(2));
                                Comp::Do(Pat::Var(rb), (**r).clone(), Box::new(call), Box::new(k))
                            }
                            | _ => call,
                        }
                    } else {
                        self.gen_comp(b, depth.saturating_sub(2))
                    };
                    self.scope.truncate(mark);
                    arms.push(Arm { pat: Pat::Ctor(d, ci, Box::new(pat)), body });
                }
                let m = Comp::Match(Val::Var(l), VTy::Data(d), arms);
                Some(Comp::Fix(f, t.clone(), Box::new(Comp::Fn(Pat::Var(l), VTy::Data(d), Box::new(m)))))
            }
            | CTy::Codata(c) if self.codatas[*c].recursive => {
                self.feat("fix-codata");
                let f = self.bid();
                let body = self.comatch(*c, depth.saturating_sub(1), Some(f));
                Some(Comp::Fix(f, t.clone(), Box::new(body)))
            }
            | _ => None,
        }
    }

    pub fn gen_comp(&mut self, t: &CTy, depth: usize) -> Comp {
        self.budget -= 1;
        if depth == 0 || self.budget <= 0 {
            return self.leaf(t);
        }
        let is_os = *t == CTy::OS;
        let thunks = self.thunk_vars();
        let w_call = if thunks.is_empty() { 0 } else { 8 };
        let w_match = if self.datas.is_empty() { 0 } else { 4 };
        let w_intro = if is_os { 0 } else { 6 };
        let w_os = if is_os { 14 } else { 0 };
        let w_host = match t {
            | CTy::Ret(a) if matches!(**a, VTy::Int(_) | VTy::Str | VTy::F64) => 5,
            | _ => 0,
        };
        let w_fix = match t {
            | CTy::Arrow(..) | CTy::Codata(_) => 4,
            | _ => 0,
        };
        let (w_host, w_branch, w_fix) = if self.cfg.mo { (0, 0, 0) } else { (w_host, 3, w_fix) };
        let choice = weighted(self.t, &[w_intro, 5, 3, w_match, w_call, w_host, w_branch, 2, w_fix, w_os, 2]);
        match choice {
            // introduction form of the expected type
            | 0 => match t {
                | CTy::Ret(a) => Comp::Ret(self.gen_val(a, depth - 1)),
                | CTy::Arrow(a, b) => {
                    self.feat("fn");
                    let mark = self.scope.len();
                    let p = self.gen_pat(a, 2);
                    let body = self.gen_comp(b, depth - 1);
                    self.scope.truncate(mark);
                    Comp::Fn(p, (**a).clone(), Box::new(body))
                }
                | CTy::ForallV(x, b) => {
                    self.feat("type-abstraction");
                    self.tfn(*x, false, b, depth - 1)
                }
                | CTy::ForallC(x, b) => {
                    self.feat("type-abstraction");
                    self.tfn(*x, true, b, depth - 1)
                }
                | CTy::Codata(c) => self.comatch(*c, depth - 1, None),
                | CTy::OS | CTy::Var(_) => self.leaf(t),
            },
            // do x <- M; N
            | 1 => {
                self.feat("do");
                let a = self.gen_vty(2);
                let m = self.gen_comp(&CTy::Ret(Box::new(a.clone())), depth - 1);
                self.bind_then(a, m, t, depth)
            }
            // let p : A = V in N
            | 2 => {
                self.feat("let");
                let a = self.gen_vty(2);
                let v = self.gen_val(&a, depth - 1);
                let mark = self.scope.len();
                let p = self.gen_pat(&a, 2);
                let n = self.gen_comp(t, depth - 1);
                self.scope.truncate(mark);
                Comp::Let(p, a, v, Box::new(n))
            }
            // match
            | 3 => {
                let d = self.t.below(self.datas.len());
                let scrut = self.gen_val(&VTy::Data(d), 2);
                self.gen_match(d, scrut, t, depth)
            }
            // call something in scope
            | 4 => {
                let i = self.t.below(thunks.len().min(6));
                let (f, b0) = thunks[thunks.len() - 1 - i].clone();
                match self.call_var(f, &b0, t, depth) {
                    | Some((c, end)) if &end == t => {
                        self.feat("call");
                        c
                    }
                    | Some((c, CTy::Ret(a))) => {
                        self.feat("call");
                        self.bind_then(*a, c, t, depth)
                    }
                    | _ => self.gen_comp(t, depth - 1),
                }
            }
            // host operation producing the expected returner
            | 5 => {
                self.feat("host-op");
                let CTy::Ret(a) = t else { return self.leaf(t) };
                match &**a {
                    | VTy::Int(it) => {
                        let it = *it;
                        if it == IntTy::I64 && self.t.chance(60) {
                            let s = self.gen_val(&VTy::Str, depth - 1);
                            let op = if self.t.flag() { HostOp::StrLen } else { HostOp::StrByteLen };
                            return self.call_host(op, None, vec![s]);
                        }
                        let mut op = *self.t.pick(&ARITH);
                        if !self.cfg.division && matches!(op, Arith::Div | Arith::Mod) {
                            op = Arith::Add;
                        }
                        let x = self.gen_val(&VTy::Int(it), depth - 1);
                        let mut y = self.gen_val(&VTy::Int(it), depth - 1);
                        if matches!(op, Arith::Div | Arith::Mod) {
                            self.feat("division");
                            // mostly a non-zero literal divisor; sometimes anything (the trap is defined)
                            if !self.t.chance(40) {
                                let mut v = self.int_lit(it);
                                if let Val::Int(_, 0) = v {
                                    v = Val::Int(it, if it.signed() && self.t.flag() { -1 } else { 1 });
                                }
                                y = v;
                            }
                        }
                        self.call_host(HostOp::IntArith(it, op), None, vec![x, y])
                    }
                    | VTy::Str => match self.t.below(3) {
                        | 0 => {
                            let it = *self.t.pick(&INT_TYS);
                            let x = self.gen_val(&VTy::Int(it), depth - 1);
                            self.call_host(HostOp::IntToStr(it), None, vec![x])
                        }
                        | 1 => {
                            let x = self.gen_val(&VTy::Str, depth - 1);
                            let y = self.gen_val(&VTy::Str, depth - 1);
                            self.call_host(HostOp::StrAppend, None, vec![x, y])
                        }
                        | _ => {
                            let x = self.gen_val(&VTy::Char, depth - 1);
                            self.call_host(HostOp::CharToStr, None, vec![x])
                        }
                    },
                    | VTy::F64 => {
                        let op = *self.t.pick(&FARITH);
                        let x = self.gen_val(&VTy::F64, depth - 1);
                        let y = self.gen_val(&VTy::F64, depth - 1);
                        self.call_host(HostOp::F64Arith(op), None, vec![x, y])
                    }
                    | _ => self.leaf(t),
                }
            }
            // host branch: select between two computations of the expected type
            | 6 => {
                self.feat("branch");
                let m1 = Val::Thunk(Box::new(self.gen_comp(t, depth - 1)));
                match self.t.below(5) {
                    | 0 | 1 => {
                        let it = *self.t.pick(&INT_TYS);
                        let op = *self.t.pick(&CMP);
                        let x = self.gen_val(&VTy::Int(it), depth - 1);
                        let y = self.gen_val(&VTy::Int(it), depth - 1);
                        let m2 = Val::Thunk(Box::new(self.gen_comp(t, depth - 1)));
                        self.call_host(HostOp::IntCmp(it, op), Some(t.clone()), vec![x, y, m1, m2])
                    }
                    | 2 => {
                        let x = self.gen_val(&VTy::Str, depth - 1);
                        let y = self.gen_val(&VTy::Str, depth - 1);
                        let m2 = Val::Thunk(Box::new(self.gen_comp(t, depth - 1)));
                        self.call_host(HostOp::StrEq, Some(t.clone()), vec![x, y, m1, m2])
                    }
                    | 3 if self.cfg.floats => {
                        let op = *self.t.pick(&CMP);
                        let x = self.gen_val(&VTy::F64, depth - 1);
                        let y = self.gen_val(&VTy::F64, depth - 1);
                        let m2 = Val::Thunk(Box::new(self.gen_comp(t, depth - 1)));
                        self.call_host(HostOp::F64Cmp(op), Some(t.clone()), vec![x, y, m1, m2])
                    }
                    | _ => {
                        // string/get: none-branch and a Char continuation
                        let s = self.gen_val(&VTy::Str, depth - 1);
                        let i = Val::Int(IntTy::I64, self.t.below(7) as i128 - 1);
                        let mark = self.scope.len();
                        let cb = self.bid();
                        self.scope.push((cb, VTy::Char));
                        let some = self.gen_comp(t, depth - 1);
                        self.scope.truncate(mark);
                        let k = Val::Thunk(Box::new(Comp::Fn(Pat::Var(cb), VTy::Char, Box::new(some))));
                        self.call_host(HostOp::StrGet, Some(t.clone()), vec![s, i, m1, k])
                    }
                }
            }
            // a comatch observed in place: `(comatch … end : C) .d args`, usually as a `do` bindee (non-tail)
            | 7 if !self.codatas.is_empty() && self.t.chance(110) => {
                self.feat("comatch-observed-in-place");
                let c = self.t.below(self.codatas.len());
                let obj = if self.codatas[c].recursive {
                    let f = self.bid();
                    let body = self.comatch(c, depth - 1, Some(f));
                    Comp::Fix(f, CTy::Codata(c), Box::new(body))
                } else {
                    self.comatch(c, depth - 1, None)
                };
                let n = self.codatas[c].dtors.len();
                let d = self.t.below(n);
                let decl = self.codatas[c].dtors[d].clone();
                let args: Vec<Val> = decl.params.iter().map(|a| self.gen_val(a, depth.saturating_sub(1))).collect();
                let observed = Comp::Dtor(Box::new(obj), c, d, args);
                match &decl.result {
                    | r if r == t => observed,
                    | CTy::Ret(a) => self.bind_then((**a).clone(), observed, t, depth),
                    | _ => self.gen_comp(t, depth - 1),
                }
            }
            // beta redex with an annotated abstraction
            | 7 => {
                self.feat("beta-redex");
                let a = self.gen_vty(2);
                let v = self.gen_val(&a, depth - 1);
                let mark = self.scope.len();
                let p = self.gen_pat(&a, 2);
                let body = self.gen_comp(t, depth - 1);
                self.scope.truncate(mark);
                let fty = CTy::Arrow(Box::new(a.clone()), Box::new(t.clone()));
                Comp::App(Box::new(Comp::Fn(p, a, Box::new(body))), fty, v)
            }
            // recursion
            | 8 => match self.gen_fix(t, depth) {
                | Some(c) => c,
                | None => self.gen_comp(t, depth - 1),
            },
            // OS steps
            | 9 => self.gen_os_step(depth),
            // define a reusable thunk, then continue
            | _ => {
                self.feat("let-thunk");
                let cty_depth = 2 + self.t.below(3);
                let b = self.gen_cty(cty_depth);
                let a = VTy::Thk(Box::new(b.clone()));
                let fixed = if self.cfg.mo { None } else { self.gen_fix(&b, depth) };
                let body = match fixed {
                    | Some(c) if self.t.flag() => c,
                    | _ => self.gen_comp(&b, depth - 1),
                };
                let x = self.bid();
                self.scope.push((x, a.clone()));
                let n = self.gen_comp(t, depth - 1);
                self.scope.pop();
                Comp::Let(Pat::Var(x), a, Val::Thunk(Box::new(body)), Box::new(n))
            }
        }
    }

    fn gen_os_step(&mut self, depth: usize) -> Comp {
        let os = CTy::OS;
        let w_read = if self.cfg.stdin { 2 } else { 0 };
        match weighted(self.t, &[8, 3, w_read, w_read, 1]) {
            // compute a printable value and print it
            | 0 => {
                self.feat("print");
                let mut a = self.gen_vty(2);
                if !self.printable(&a) {
                    a = VTy::Int(IntTy::I64);
                }
                let m = self.gen_comp(&CTy::Ret(Box::new(a.clone())), depth - 1);
                let x = self.bid();
                self.scope.push((x, a.clone()));
                let k = self.gen_comp(&os, depth - 1);
                let body = self.print_val(Val::Var(x), &a, k, 2);
                self.scope.pop();
                Comp::Do(Pat::Var(x), a, Box::new(m), Box::new(body))
            }
            // print something already in scope
            | 1 => {
                let printable: Vec<(Bid, VTy)> =
                    self.scope.iter().filter(|(_, t)| self.printable(t)).cloned().collect();
                if printable.is_empty() {
                    return self.leaf(&os);
                }
                self.feat("print");
                let (b, a) = printable[printable.len() - 1 - self.t.below(printable.len().min(5))].clone();
                let k = self.gen_comp(&os, depth - 1);
                self.print_val(Val::Var(b), &a, k, 2)
            }
            | 2 => {
                self.feat("read_line");
                let s = self.bid();
                self.scope.push((s, VTy::Str));
                let k = self.gen_comp(&os, depth - 1);
                self.scope.pop();
                let kont = Val::Thunk(Box::new(Comp::Fn(Pat::Var(s), VTy::Str, Box::new(k))));
                self.call_host(HostOp::ReadLine, None, vec![kont])
            }
            | 3 => {
                self.feat("read_int");
                let fail = Val::Thunk(Box::new(self.gen_comp(&os, depth - 1)));
                let n = self.bid();
                self.scope.push((n, VTy::Int(IntTy::I64)));
                let k = self.gen_comp(&os, depth - 1);
                self.scope.pop();
                let kont = Val::Thunk(Box::new(Comp::Fn(Pat::Var(n), VTy::Int(IntTy::I64), Box::new(k))));
                self.call_host(HostOp::ReadInt, None, vec![fail, kont])
            }
            | _ => {
                let ints = self.vars_of(&VTy::Int(IntTy::I64));
                let code = match ints.last() {
                    | Some(b) if self.t.flag() => Val::Var(*b),
                    | _ => Val::Int(IntTy::I64, self.t.below(256) as i128),
                };
                self.call_host(HostOp::Exit, None, vec![code])
            }
        }
    }

    pub fn finish(self, main: Comp) -> Program {
        Program {
            datas: self.datas,
            codatas: self.codatas,
            main,
            n_binders: self.next_bid,
            n_tyvars: self.next_tyvar,
        }
    }
}

/// A closed returning computation `body : Ret a` over the monadic fragment, with the code that renders
/// its result: `show` prints `Var(r) : a` and then forces `Var(k) : Thk OS`.
pub struct MoProgram {
    pub prog: Program,
    pub body: Comp,
    pub a: VTy,
    pub show: Comp,
    pub r: Bid,
    pub k: Bid,
    /// `do r <- body ; show ; exit 0` for the reference machine
    pub reference_main: Comp,
    pub feats: BTreeMap<&'static str, u32>,
}

pub fn gen_mo_program(tape: &[u8], cfg: &Cfg) -> MoProgram {
    let mut t = Tape::new(tape);
    let mut g = G::new(&mut t, cfg.clone());
    g.gen_decls();
    let mut a = g.gen_vty(2);
    if !g.printable(&a) {
        a = prod(vec![VTy::Int(IntTy::I64), VTy::Str]);
    }
    let depth = g.cfg.depth;
    let body = g.gen_comp(&CTy::Ret(Box::new(a.clone())), depth);
    g.scope.clear();
    let r = g.bid();
    let k = g.bid();
    let show = g.print_val(Val::Var(r), &a, Comp::Force(Val::Var(k), CTy::OS), 3);
    // reference: run the plain body, print, exit 0
    let r2 = g.bid();
    let exit = g.call_host(HostOp::Exit, None, vec![Val::Int(IntTy::I64, 0)]);
    let show2 = g.print_val(Val::Var(r2), &a, exit, 3);
    let reference_main = Comp::Do(Pat::Var(r2), a.clone(), Box::new(body.clone()), Box::new(show2));
    let feats = g.feats.clone();
    let prog = g.finish(reference_main.clone());
    MoProgram { prog, body, a, show, r, k, reference_main, feats }
}

/// Decode a whole program from a tape.
pub fn gen_program(tape: &[u8], cfg: &Cfg) -> (Program, BTreeMap<&'static str, u32>) {
    let mut t = Tape::new(tape);
    let mut g = G::new(&mut t, cfg.clone());
    g.gen_decls();
    let depth = g.cfg.depth;
    let main = g.gen_comp(&CTy::OS, depth);
    let feats = g.feats.clone();
    (g.finish(main), feats)
}

/// A program whose main starts with `k` value/thunk definitions (each may use the earlier ones)
/// followed by an OS body: the definitions are printed as `that` contributions of one block.
pub fn gen_block_program(tape: &[u8], cfg: &Cfg) -> (Program, usize, BTreeMap<&'static str, u32>) {
    let (p, k, _, f) = gen_param_block_program(tape, cfg, false);
    (p, k, f)
}

/// As `gen_block_program`; with `with_params`, some definitions are generated *closed* (their value
/// mentions no other definition of the block) and flagged: they can be printed as `param (x : T) that`
/// with the value passed as the block's argument.
pub fn gen_param_block_program(tape: &[u8], cfg: &Cfg, with_params: bool) -> (Program, usize, Vec<bool>, BTreeMap<&'static str, u32>) {
    let mut t = Tape::new(tape);
    let mut g = G::new(&mut t, cfg.clone());
    g.gen_decls();
    let k = 2 + g.t.below(5);
    let mut defs: Vec<(Bid, VTy, Val)> = vec![];
    let mut params = vec![];
    for _ in 0..k {
        let is_param = with_params && g.t.chance(120);
        let a = if g.t.chance(90) && !is_param { VTy::Thk(Box::new(g.gen_cty(2))) } else { g.gen_vty(2) };
        let v = if is_param {
            let saved = std::mem::take(&mut g.scope);
            let v = g.gen_val(&a, 3);
            g.scope = saved;
            v
        } else {
            g.gen_val(&a, 3)
        };
        params.push(is_param);
        let b = g.bid();
        g.scope.push((b, a.clone()));
        defs.push((b, a, v));
    }
    let depth = g.cfg.depth.saturating_sub(1);
    // make the body use the definitions: print every printable one first
    let mut body = g.gen_comp(&CTy::OS, depth);
    for (b, a, _) in defs.iter().rev() {
        if g.printable(a) {
            body = g.print_val(Val::Var(*b), a, body, 1);
        }
    }
    let mut main = body;
    for (b, a, v) in defs.into_iter().rev() {
        main = Comp::Let(Pat::Var(b), a, v, Box::new(main));
    }
    let feats = g.feats.clone();
    (g.finish(main), k, params, feats)
}
