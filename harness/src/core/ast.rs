//! G-core AST: the reference core language (DESIGN Appendix A).  Binders are unique ids, not names.
//! Every node that the printer may have to annotate carries the type it was generated at, i.e. the
//! program *is* its typing derivation (R-type).

use crate::hmodel::{Arith, Cmp, FArith, IntTy};

pub type Bid = u32;
pub type TyVar = u32;

#[derive(Clone, Debug, PartialEq, Eq, Hash)]
pub enum VTy {
    Int(IntTy),
    F64,
    Str,
    Char,
    Unit,
    /// n-ary product, n ≥ 2, canonical: the last component is never itself a product
    Prod(Vec<VTy>),
    Data(usize),
    Thk(Box<CTy>),
    Var(TyVar),
}

#[derive(Clone, Debug, PartialEq, Eq, Hash)]
pub enum CTy {
    Ret(Box<VTy>),
    Arrow(Box<VTy>, Box<CTy>),
    /// forall (X : VType) . B
    ForallV(TyVar, Box<CTy>),
    /// forall (R : CType) . B
    ForallC(TyVar, Box<CTy>),
    Codata(usize),
    OS,
    Var(TyVar),
}

#[derive(Clone, Debug, PartialEq, Eq, Hash)]
pub enum TyArg {
    V(VTy),
    C(CTy),
}

pub fn prod(mut items: Vec<VTy>) -> VTy {
    // canonicalise: flatten a trailing product
    loop {
        match items.pop() {
            | Some(VTy::Prod(inner)) => items.extend(inner),
            | Some(other) => {
                items.push(other);
                break;
            }
            | None => break,
        }
    }
    match items.len() {
        | 0 => VTy::Unit,
        | 1 => items.pop().unwrap(),
        | _ => VTy::Prod(items),
    }
}

impl VTy {
    pub fn subst(&self, x: TyVar, arg: &TyArg) -> VTy {
        match self {
            | VTy::Prod(v) => prod(v.iter().map(|t| t.subst(x, arg)).collect()),
            | VTy::Thk(c) => VTy::Thk(Box::new(c.subst(x, arg))),
            | VTy::Var(y) if *y == x => match arg {
                | TyArg::V(v) => v.clone(),
                | TyArg::C(_) => panic!("kind error in harness substitution"),
            },
            | other => other.clone(),
        }
    }
    pub fn mentions(&self, x: TyVar) -> bool {
        match self {
            | VTy::Prod(v) => v.iter().any(|t| t.mentions(x)),
            | VTy::Thk(c) => c.mentions(x),
            | VTy::Var(y) => *y == x,
            | _ => false,
        }
    }
    pub fn size(&self) -> usize {
        match self {
            | VTy::Prod(v) => 1 + v.iter().map(|t| t.size()).sum::<usize>(),
            | VTy::Thk(c) => 1 + c.size(),
            | _ => 1,
        }
    }
}

impl CTy {
    pub fn subst(&self, x: TyVar, arg: &TyArg) -> CTy {
        match self {
            | CTy::Ret(v) => CTy::Ret(Box::new(v.subst(x, arg))),
            | CTy::Arrow(a, b) => CTy::Arrow(Box::new(a.subst(x, arg)), Box::new(b.subst(x, arg))),
            | CTy::ForallV(y, b) => CTy::ForallV(*y, Box::new(b.subst(x, arg))),
            | CTy::ForallC(y, b) => CTy::ForallC(*y, Box::new(b.subst(x, arg))),
            | CTy::Var(y) if *y == x => match arg {
                | TyArg::C(c) => c.clone(),
                | TyArg::V(_) => panic!("kind error in harness substitution"),
            },
            | other => other.clone(),
        }
    }
    pub fn mentions(&self, x: TyVar) -> bool {
        match self {
            | CTy::Ret(v) => v.mentions(x),
            | CTy::Arrow(a, b) => a.mentions(x) || b.mentions(x),
            | CTy::ForallV(_, b) | CTy::ForallC(_, b) => b.mentions(x),
            | CTy::Var(y) => *y == x,
            | _ => false,
        }
    }
    pub fn size(&self) -> usize {
        match self {
            | CTy::Ret(v) => 1 + v.size(),
            | CTy::Arrow(a, b) => 1 + a.size() + b.size(),
            | CTy::ForallV(_, b) | CTy::ForallC(_, b) => 1 + b.size(),
            | _ => 1,
        }
    }
}

#[derive(Clone, Debug)]
pub struct DataDecl {
    /// `def` (sealed) or `let` (transparent)
    pub sealed: bool,
    pub ctors: Vec<(String, VTy)>,
    pub recursive: bool,
}

#[derive(Clone, Debug)]
pub struct DtorDecl {
    pub name: String,
    pub params: Vec<VTy>,
    pub result: CTy,
}

#[derive(Clone, Debug)]
pub struct CodataDecl {
    pub sealed: bool,
    pub dtors: Vec<DtorDecl>,
    pub recursive: bool,
}

/// Host operations available to generated programs (values of thunk type).
#[derive(Clone, Copy, Debug, PartialEq, Eq, Hash)]
pub enum HostOp {
    IntArith(IntTy, Arith),
    IntCmp(IntTy, Cmp),
    IntToStr(IntTy),
    F64Arith(FArith),
    F64Cmp(Cmp),
    F64ToStr,
    StrAppend,
    StrLen,
    StrByteLen,
    StrEq,
    StrGet,
    StrSplitAt,
    CharToStr,
    CharCode,
    CharFromCode,
    ParseInt,
    WriteLine,
    WriteStr,
    ReadLine,
    ReadInt,
    Exit,
}

#[derive(Clone, Debug)]
pub enum Val {
    Var(Bid),
    Int(IntTy, i128),
    F64(u64),
    Str(String),
    Char(char),
    Unit,
    Tuple(Vec<Val>),
    Ctor(usize, usize, Box<Val>),
    Thunk(Box<Comp>),
    Host(HostOp),
}

#[derive(Clone, Debug)]
pub enum Pat {
    Var(Bid),
    Wild,
    Unit,
    Tuple(Vec<Pat>),
    Ctor(usize, usize, Box<Pat>),
    /// `(p; q; …)`: all patterns observe the same value (irrefutable components only)
    Alias(Vec<Pat>),
}

#[derive(Clone, Debug)]
pub struct Arm {
    pub pat: Pat,
    pub body: Comp,
}

#[derive(Clone, Debug)]
pub struct Clause {
    pub dtor: usize,
    pub params: Vec<(Pat, VTy)>,
    pub body: Comp,
}

#[derive(Clone, Debug)]
pub enum Comp {
    Ret(Val),
    /// `do p <- M; N`, M : Ret A
    Do(Pat, VTy, Box<Comp>, Box<Comp>),
    /// `let p : A = V in N`; `sealed` prints `def`
    Let(Pat, VTy, Val, Box<Comp>),
    /// `fn (p : A) => M`
    Fn(Pat, VTy, Box<Comp>),
    /// `M V`; the head's type is recorded for annotation
    App(Box<Comp>, CTy, Val),
    /// `fn (X : VType|CType) => M`
    TFn(TyVar, bool, Box<Comp>),
    /// `M T`; head type recorded
    TApp(Box<Comp>, CTy, TyArg),
    /// `! V`, V : Thk B
    Force(Val, CTy),
    Match(Val, VTy, Vec<Arm>),
    Comatch(usize, Vec<Clause>),
    /// `M .d args`
    Dtor(Box<Comp>, usize, usize, Vec<Val>),
    /// `fix (f : Thk B) => M`, M : B
    Fix(Bid, CTy, Box<Comp>),
}

/// A whole generated program.
#[derive(Clone, Debug)]
pub struct Program {
    pub datas: Vec<DataDecl>,
    pub codatas: Vec<CodataDecl>,
    /// the OS computation
    pub main: Comp,
    pub n_binders: u32,
    pub n_tyvars: u32,
}

impl HostOp {
    /// Source spelling as a projected package field, e.g. `int64/add`.
    pub fn path(self) -> String {
        match self {
            | HostOp::IntArith(t, o) => format!("{}/{}", t.pkg(), o.name()),
            | HostOp::IntCmp(t, o) => format!("{}/{}", t.pkg(), o.name()),
            | HostOp::IntToStr(t) => format!("{}/to_string", t.pkg()),
            | HostOp::F64Arith(o) => format!("float64/{}", o.name()),
            | HostOp::F64Cmp(o) => format!("float64/{}", o.name()),
            | HostOp::F64ToStr => "float64/to_string".into(),
            | HostOp::StrAppend => "string/append".into(),
            | HostOp::StrLen => "string/length".into(),
            | HostOp::StrByteLen => "string/byte_length".into(),
            | HostOp::StrEq => "string/eq".into(),
            | HostOp::StrGet => "string/get".into(),
            | HostOp::StrSplitAt => "string/split_at".into(),
            | HostOp::CharToStr => "char/to_string".into(),
            | HostOp::CharCode => "char/codepoint".into(),
            | HostOp::CharFromCode => "char/from_codepoint".into(),
            | HostOp::ParseInt => "string/parse_int".into(),
            | HostOp::WriteLine => "stdio/write_line".into(),
            | HostOp::WriteStr => "stdio/write".into(),
            | HostOp::ReadLine => "stdio/read_line".into(),
            | HostOp::ReadInt => "stdio/read_int".into(),
            | HostOp::Exit => "process/exit".into(),
        }
    }

    /// Declared type (as in lib/std/builtin/**), with fresh type variable `r` for branch roles.
    pub fn ty(self, r: TyVar) -> CTy {
        use CTy::*;
        let arrow = |a: VTy, b: CTy| Arrow(Box::new(a), Box::new(b));
        let ret = |a: VTy| Ret(Box::new(a));
        let thk = |c: CTy| VTy::Thk(Box::new(c));
        let i64t = VTy::Int(IntTy::I64);
        let branch2 = |a: VTy, b: VTy| {
            ForallC(r, Box::new(arrow(a, arrow(b, arrow(thk(Var(r)), arrow(thk(Var(r)), Var(r)))))))
        };
        match self {
            | HostOp::IntArith(t, _) => arrow(VTy::Int(t), arrow(VTy::Int(t), ret(VTy::Int(t)))),
            | HostOp::IntCmp(t, _) => branch2(VTy::Int(t), VTy::Int(t)),
            | HostOp::IntToStr(t) => arrow(VTy::Int(t), ret(VTy::Str)),
            | HostOp::F64Arith(_) => arrow(VTy::F64, arrow(VTy::F64, ret(VTy::F64))),
            | HostOp::F64Cmp(_) => branch2(VTy::F64, VTy::F64),
            | HostOp::F64ToStr => arrow(VTy::F64, ret(VTy::Str)),
            | HostOp::StrAppend => arrow(VTy::Str, arrow(VTy::Str, ret(VTy::Str))),
            | HostOp::StrLen | HostOp::StrByteLen => arrow(VTy::Str, ret(i64t)),
            | HostOp::StrEq => branch2(VTy::Str, VTy::Str),
            | HostOp::StrGet => ForallC(
                r,
                Box::new(arrow(
                    VTy::Str,
                    arrow(i64t.clone(), arrow(thk(Var(r)), arrow(thk(arrow(VTy::Char, Var(r))), Var(r)))),
                )),
            ),
            | HostOp::StrSplitAt => ForallC(
                r,
                Box::new(arrow(
                    VTy::Str,
                    arrow(
                        i64t.clone(),
                        arrow(thk(Var(r)), arrow(thk(arrow(VTy::Str, arrow(VTy::Str, Var(r)))), Var(r))),
                    ),
                )),
            ),
            | HostOp::CharToStr => arrow(VTy::Char, ret(VTy::Str)),
            | HostOp::CharCode => arrow(VTy::Char, ret(i64t)),
            | HostOp::CharFromCode => ForallC(
                r,
                Box::new(arrow(i64t.clone(), arrow(thk(Var(r)), arrow(thk(arrow(VTy::Char, Var(r))), Var(r))))),
            ),
            | HostOp::ParseInt => ForallC(
                r,
                Box::new(arrow(VTy::Str, arrow(thk(Var(r)), arrow(thk(arrow(i64t.clone(), Var(r))), Var(r))))),
            ),
            | HostOp::WriteLine | HostOp::WriteStr => arrow(VTy::Str, arrow(thk(OS), OS)),
            | HostOp::ReadLine => arrow(thk(arrow(VTy::Str, OS)), OS),
            | HostOp::ReadInt => arrow(thk(OS), arrow(thk(arrow(i64t, OS)), OS)),
            | HostOp::Exit => arrow(i64t, OS),
        }
    }
}
