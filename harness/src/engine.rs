//! Engine: seeds, sharded proptest runs over choice tapes, panic capture, known findings,
//! replay files, evidence files.  Nothing in here knows about any particular property.

use proptest::strategy::{Strategy, ValueTree};
use proptest::test_runner::{Config, RngAlgorithm, TestCaseError, TestError, TestRng, TestRunner};
use serde_json::{Value, json};
use std::cell::RefCell;
use std::collections::{BTreeMap, BTreeSet, HashSet};
use std::hash::{Hash, Hasher};
use std::path::{Path, PathBuf};
use std::sync::atomic::{AtomicBool, AtomicU64, Ordering};
use std::sync::{Arc, Mutex, Once};
use std::time::Instant;

/* ------------------------------------------------------------------------- */
/* tiers, context                                                            */
/* ------------------------------------------------------------------------- */

#[derive(Clone, Copy, Debug, PartialEq, Eq)]
pub enum Tier {
    Quick,
    Thorough,
}

impl Tier {
    pub fn name(self) -> &'static str {
        match self {
            | Tier::Quick => "quick",
            | Tier::Thorough => "thorough",
        }
    }
    /// `q` in the quick tier, `t` in the thorough tier.
    pub fn pick<T>(self, q: T, t: T) -> T {
        match self {
            | Tier::Quick => q,
            | Tier::Thorough => t,
        }
    }
}

pub struct Ctx {
    pub prop: String,
    pub seed: u64,
    pub tier: Tier,
    pub scratch: PathBuf,
    pub threads: usize,
    pub known: Known,
    /// Replay mode: known findings are not tolerated.
    pub strict: bool,
    pub verif_root: PathBuf,
    pub repo_root: PathBuf,
    pub started: Instant,
    pub next_dir: AtomicU64,
}

impl Ctx {
    /// A fresh, empty scratch directory (under the run's scratch root).
    pub fn fresh_dir(&self, tag: &str) -> PathBuf {
        let n = self.next_dir.fetch_add(1, Ordering::SeqCst);
        let dir = self.scratch.join(format!("{tag}-{n}"));
        let _ = std::fs::remove_dir_all(&dir);
        std::fs::create_dir_all(&dir).expect("scratch dir");
        dir.canonicalize().expect("canonical scratch dir")
    }
    pub fn zydeco_bin(&self) -> PathBuf {
        std::env::current_exe().expect("current exe").parent().unwrap().join("zydeco")
    }
}

/* ------------------------------------------------------------------------- */
/* hashing helpers (deterministic: no RandomState)                           */
/* ------------------------------------------------------------------------- */

pub struct Fnv(pub u64);
impl Default for Fnv {
    fn default() -> Self {
        Fnv(0xcbf29ce484222325)
    }
}
impl Hasher for Fnv {
    fn finish(&self) -> u64 {
        self.0
    }
    fn write(&mut self, bytes: &[u8]) {
        for b in bytes {
            self.0 ^= *b as u64;
            self.0 = self.0.wrapping_mul(0x100000001b3);
        }
    }
}
pub fn hash_of<T: Hash + ?Sized>(t: &T) -> u64 {
    let mut h = Fnv::default();
    t.hash(&mut h);
    h.finish()
}
pub fn mix(a: u64, b: u64) -> u64 {
    let mut z = a ^ b.wrapping_mul(0x9E3779B97F4A7C15).rotate_left(31);
    z = (z ^ (z >> 30)).wrapping_mul(0xBF58476D1CE4E5B9);
    z = (z ^ (z >> 27)).wrapping_mul(0x94D049BB133111EB);
    z ^ (z >> 31)
}

/* ------------------------------------------------------------------------- */
/* panic capture                                                             */
/* ------------------------------------------------------------------------- */

#[derive(Clone, Debug)]
pub struct PanicInfo {
    pub msg: String,
    pub file: String,
    pub line: u32,
}

impl PanicInfo {
    /// Stable signature: message prefix + source file (no line: unrelated edits move lines).
    pub fn signature(&self) -> String {
        let msg: String = self.msg.chars().take(60).collect();
        // repo files relative to the repo; generated files (build dirs with hashes) by their tail
        let file: String = if let Some(i) = self.file.find("/repo/") {
            self.file[i + 6..].to_string()
        } else if let Some(i) = self.file.find("/out/") {
            format!("<generated>{}", self.file[i + 4..].replace("//", "/"))
        } else {
            self.file.clone()
        };
        format!("panic[{}]@{}", msg.replace('\n', " "), file)
    }
    pub fn describe(&self) -> String {
        format!("panic `{}` at {}:{}", self.msg, self.file, self.line)
    }
}

thread_local! {
    static LAST_PANIC: RefCell<Option<PanicInfo>> = const { RefCell::new(None) };
}
static HOOK: Once = Once::new();

pub fn install_panic_hook() {
    HOOK.call_once(|| {
        let verbose = std::env::var_os("VERIF_PANIC_PRINT").is_some();
        let default = std::panic::take_hook();
        std::panic::set_hook(Box::new(move |info| {
            let msg = if let Some(s) = info.payload().downcast_ref::<&str>() {
                (*s).to_string()
            } else if let Some(s) = info.payload().downcast_ref::<String>() {
                s.clone()
            } else {
                "<non-string panic payload>".to_string()
            };
            let (file, line) = info
                .location()
                .map(|l| (l.file().to_string(), l.line()))
                .unwrap_or_else(|| ("<unknown>".into(), 0));
            LAST_PANIC.with(|slot| *slot.borrow_mut() = Some(PanicInfo { msg, file, line }));
            if verbose {
                default(info);
            }
        }));
    });
}

/// Run `f`, turning an unwind into a `PanicInfo`.
pub fn catch<T>(f: impl FnOnce() -> T) -> Result<T, PanicInfo> {
    install_panic_hook();
    LAST_PANIC.with(|slot| *slot.borrow_mut() = None);
    match std::panic::catch_unwind(std::panic::AssertUnwindSafe(f)) {
        | Ok(v) => Ok(v),
        | Err(payload) => {
            // salsa cancels readers by unwinding with a `Cancelled` payload: not a panic, let it travel
            if payload.is::<salsa::Cancelled>() {
                std::panic::resume_unwind(payload);
            }
            let info = LAST_PANIC.with(|slot| slot.borrow_mut().take());
            Err(info.unwrap_or_else(|| {
                let msg = if let Some(s) = payload.downcast_ref::<&str>() {
                    (*s).to_string()
                } else if let Some(s) = payload.downcast_ref::<String>() {
                    s.clone()
                } else {
                    "<unwind without panic hook (resume_unwind)>".to_string()
                };
                PanicInfo { msg, file: "<unknown>".into(), line: 0 }
            }))
        }
    }
}

/* ------------------------------------------------------------------------- */
/* failures, known findings                                                  */
/* ------------------------------------------------------------------------- */

/// One failed case: what was compared and how it differed.
#[derive(Clone, Debug)]
pub struct Fail {
    /// Specific signature (matched against known findings).
    pub signature: String,
    pub expected: String,
    pub observed: String,
    /// Human-readable rendering of the case (sources, stdin, history …).
    pub rendered: Value,
}

impl Fail {
    pub fn new(sig: impl Into<String>, expected: impl Into<String>, observed: impl Into<String>) -> Self {
        Fail {
            signature: sig.into(),
            expected: expected.into(),
            observed: observed.into(),
            rendered: Value::Null,
        }
    }
    pub fn with(mut self, rendered: Value) -> Self {
        self.rendered = rendered;
        self
    }
}

#[derive(Clone, Debug)]
pub struct Finding {
    pub property: String,
    pub id: String,
    pub status: String,
    pub signature: String,
    pub what: String,
}

#[derive(Clone, Debug, Default)]
pub struct Known {
    pub findings: Vec<Finding>,
}

impl Known {
    pub fn load(path: &Path) -> Known {
        let Ok(text) = std::fs::read_to_string(path) else { return Known::default() };
        let v: Value = serde_json::from_str(&text).expect("known_findings.json must be valid JSON");
        let mut findings = Vec::new();
        for f in v["findings"].as_array().cloned().unwrap_or_default() {
            findings.push(Finding {
                property: f["property"].as_str().unwrap_or("").to_string(),
                id: f["id"].as_str().unwrap_or("").to_string(),
                status: f["status"].as_str().unwrap_or("").to_string(),
                signature: f["signature"].as_str().unwrap_or("").to_string(),
                what: f["what"].as_str().unwrap_or("").to_string(),
            });
        }
        Known { findings }
    }
    /// An *open* finding of this property whose signature equals the failure's signature.
    pub fn open_match(&self, prop: &str, signature: &str) -> Option<&Finding> {
        self.findings
            .iter()
            .find(|f| f.status == "open" && f.property == prop && f.signature == signature)
    }
}

/* ------------------------------------------------------------------------- */
/* statistics / evidence                                                     */
/* ------------------------------------------------------------------------- */

#[derive(Default, Debug)]
pub struct Stats {
    pub evaluations: u64,
    pub nontrivial: HashSet<u64>,
    pub samples: Vec<Value>,
    pub counters: BTreeMap<String, u64>,
    pub known_hits: BTreeMap<String, u64>,
    pub inconclusive: u64,
    pub sample_cap: usize,
}

impl Stats {
    pub fn new() -> Self {
        Stats { sample_cap: 4, ..Default::default() }
    }
    pub fn eval(&mut self) {
        self.evaluations += 1;
    }
    pub fn count(&mut self, key: &str) {
        *self.counters.entry(key.to_string()).or_insert(0) += 1;
    }
    pub fn add(&mut self, key: &str, n: u64) {
        *self.counters.entry(key.to_string()).or_insert(0) += n;
    }
    pub fn nontrivial(&mut self, h: u64) {
        self.nontrivial.insert(h);
    }
    pub fn sample(&mut self, v: impl FnOnce() -> Value) {
        if self.samples.len() < self.sample_cap {
            self.samples.push(v());
        }
    }
    pub fn merge(&mut self, other: Stats) {
        self.evaluations += other.evaluations;
        self.nontrivial.extend(other.nontrivial);
        for s in other.samples {
            if self.samples.len() < self.sample_cap.max(6) {
                self.samples.push(s);
            }
        }
        for (k, v) in other.counters {
            *self.counters.entry(k).or_insert(0) += v;
        }
        for (k, v) in other.known_hits {
            *self.known_hits.entry(k).or_insert(0) += v;
        }
        self.inconclusive += other.inconclusive;
    }
}

#[derive(Debug, Clone)]
pub struct Violation {
    pub fail: Fail,
    pub kind: String,
    pub tape: Option<Vec<u8>>,
    pub stage: String,
}

/// Result of one property run.
pub struct Report {
    pub stats: Stats,
    pub violations: Vec<Violation>,
    pub rule: String,
    pub assumptions: Vec<String>,
    pub exhaustive: Option<bool>,
    pub extra: BTreeMap<String, Value>,
    /// harness problems (generator self-test etc.): exit 2
    pub harness_errors: Vec<String>,
}

impl Report {
    pub fn new(rule: &str) -> Self {
        Report {
            stats: Stats::new(),
            violations: vec![],
            rule: rule.to_string(),
            assumptions: vec![],
            exhaustive: None,
            extra: BTreeMap::new(),
            harness_errors: vec![],
        }
    }
    pub fn absorb(&mut self, (stats, viol): (Stats, Option<Violation>)) {
        self.stats.merge(stats);
        if let Some(v) = viol {
            self.violations.push(v);
        }
    }
    pub fn assume(&mut self, s: &str) {
        self.assumptions.push(s.to_string());
    }
}

pub fn hex(bytes: &[u8]) -> String {
    bytes.iter().map(|b| format!("{b:02x}")).collect()
}
pub fn unhex(s: &str) -> Vec<u8> {
    (0..s.len() / 2).map(|i| u8::from_str_radix(&s[2 * i..2 * i + 2], 16).unwrap_or(0)).collect()
}

pub fn write_replay(ctx: &Ctx, v: &Violation) -> PathBuf {
    let dir = ctx.verif_root.join("replays").join(&ctx.prop);
    let _ = std::fs::create_dir_all(&dir);
    let h = hash_of(&(v.fail.signature.as_str(), v.tape.as_deref(), v.fail.rendered.to_string()));
    let path = dir.join(format!("{:016x}.json", h));
    let doc = json!({
        "property": ctx.prop,
        "stage": v.stage,
        "kind": v.kind,
        "seed": ctx.seed,
        "tape_hex": v.tape.as_ref().map(|t| hex(t)),
        "rendered": v.fail.rendered,
        "expected": v.fail.expected,
        "observed": v.fail.observed,
        "signature": v.fail.signature,
    });
    std::fs::write(&path, serde_json::to_string_pretty(&doc).unwrap()).expect("write replay");
    path
}

/// Write evidence, print verdict lines, and return the process exit code.
pub fn finish(ctx: &Ctx, report: Report) -> i32 {
    let wall = ctx.started.elapsed().as_secs_f64();
    let mut coverage = serde_json::Map::new();
    coverage.insert("evaluations".into(), json!(report.stats.evaluations));
    coverage.insert("distinct_nontrivial".into(), json!(report.stats.nontrivial.len()));
    coverage.insert("rule".into(), json!(report.rule));
    coverage.insert("samples".into(), Value::Array(report.stats.samples.clone()));
    coverage.insert("inconclusive".into(), json!(report.stats.inconclusive));
    coverage.insert("excluded_known".into(), json!(report.stats.known_hits));
    coverage.insert("classes".into(), json!(report.stats.counters));
    if let Some(e) = report.exhaustive {
        coverage.insert("exhaustive".into(), json!(e));
    }
    for (k, v) in &report.extra {
        coverage.insert(k.clone(), v.clone());
    }
    let evidence = json!({
        "property_id": ctx.prop,
        "tier": ctx.tier.name(),
        "seed": ctx.seed,
        "level": "exploration",
        "coverage": Value::Object(coverage),
        "assumptions": report.assumptions,
        "wall_s": wall,
        "violations": report.violations.len(),
    });
    let evdir = ctx.verif_root.join("evidence");
    let _ = std::fs::create_dir_all(&evdir);
    if !ctx.strict {
        std::fs::write(
            evdir.join(format!("{}.json", ctx.prop)),
            serde_json::to_string_pretty(&evidence).unwrap(),
        )
        .expect("write evidence");
    }
    // known findings: one line per listed open finding that was met
    let mut printed = BTreeSet::new();
    for (id, n) in &report.stats.known_hits {
        if let Some(f) = ctx.known.findings.iter().find(|f| &f.id == id && f.property == ctx.prop) {
            if printed.insert(id.clone()) {
                println!("KNOWN-FINDING: property={} {} [{}; met {} times]", ctx.prop, f.what, f.id, n);
            }
        }
    }
    println!(
        "{} {}: evaluations={} distinct_nontrivial={} inconclusive={} wall={:.1}s",
        ctx.prop,
        ctx.tier.name(),
        report.stats.evaluations,
        report.stats.nontrivial.len(),
        report.stats.inconclusive,
        wall
    );
    if !report.harness_errors.is_empty() {
        for e in &report.harness_errors {
            println!("HARNESS-ERROR property={} {}", ctx.prop, e);
        }
        return 2;
    }
    if report.violations.is_empty() {
        return 0;
    }
    for v in &report.violations {
        let path = write_replay(ctx, v);
        println!("  [{}] {}", v.stage, v.fail.signature);
        println!("    expected: {}", first_lines(&v.fail.expected, 6));
        println!("    observed: {}", first_lines(&v.fail.observed, 6));
        println!("VIOLATION property={} replay={}", ctx.prop, path.display());
    }
    1
}

fn first_lines(s: &str, n: usize) -> String {
    let v: Vec<&str> = s.lines().take(n).collect();
    let mut out = v.join("\n              ");
    if out.len() > 1200 {
        out.truncate(1200);
        out.push('…');
    }
    out
}

/* ------------------------------------------------------------------------- */
/* choice tapes                                                              */
/* ------------------------------------------------------------------------- */

/// A cursor over a choice tape.  Reading past the end yields zeros, and byte 0 always selects the
/// first (simplest) alternative, so proptest's vector shrinking yields small structured cases.
pub struct Tape<'a> {
    pub data: &'a [u8],
    pub pos: usize,
}

impl<'a> Tape<'a> {
    pub fn new(data: &'a [u8]) -> Self {
        Tape { data, pos: 0 }
    }
    pub fn byte(&mut self) -> u8 {
        let b = self.data.get(self.pos).copied().unwrap_or(0);
        self.pos += 1;
        b
    }
    pub fn exhausted(&self) -> bool {
        self.pos >= self.data.len()
    }
    /// Monotone choice in `0..n` (n ≥ 1).
    pub fn below(&mut self, n: usize) -> usize {
        if n <= 1 {
            return 0;
        }
        if n <= 256 {
            (self.byte() as usize * n) >> 8
        } else {
            let v = ((self.byte() as usize) << 8) | self.byte() as usize;
            (v * n) >> 16
        }
    }
    pub fn flag(&mut self) -> bool {
        self.byte() >= 128
    }
    /// true with probability about num/256.
    pub fn chance(&mut self, num: u8) -> bool {
        self.byte() > 255 - num
    }
    pub fn pick<'b, T>(&mut self, xs: &'b [T]) -> &'b T {
        &xs[self.below(xs.len())]
    }
    pub fn u64(&mut self) -> u64 {
        let mut v = 0u64;
        for _ in 0..8 {
            v = (v << 8) | self.byte() as u64;
        }
        v
    }
    pub fn range(&mut self, lo: i64, hi: i64) -> i64 {
        lo + self.below((hi - lo + 1) as usize) as i64
    }
}

/// Weighted choice: returns the index of the chosen weight (monotone in the byte).
pub fn weighted(t: &mut Tape, weights: &[u32]) -> usize {
    let total: u32 = weights.iter().sum();
    if total == 0 {
        return 0;
    }
    let x = ((t.byte() as u32) << 8 | t.byte() as u32) as u64 * total as u64 >> 16;
    let mut acc = 0u64;
    for (i, w) in weights.iter().enumerate() {
        acc += *w as u64;
        if x < acc {
            return i;
        }
    }
    weights.len() - 1
}

/* ------------------------------------------------------------------------- */
/* sharded proptest driver                                                   */
/* ------------------------------------------------------------------------- */

pub const BIG_STACK: usize = 1 << 29;

/// Run `cases` proptest cases over byte tapes of length `< max_len`, sharded over `ctx.threads`
/// OS threads (each shard is its own deterministic `TestRunner`).  The closure decides one case.
/// Failures whose signature is a listed open known finding are counted and tolerated so that the
/// search continues behind them.  The first real failure of a shard is shrunk by proptest.
pub fn run_tapes<F>(ctx: &Ctx, stage: &str, cases: u64, max_len: usize, f: F) -> (Stats, Option<Violation>)
where
    F: Fn(&[u8], &mut Stats) -> Result<(), Fail> + Sync,
{
    let shards = ctx.threads.max(1) as u64;
    let per = cases.div_ceil(shards);
    let stop = AtomicBool::new(false);
    let results: Mutex<Vec<(u64, Stats, Option<Violation>)>> = Mutex::new(vec![]);
    std::thread::scope(|scope| {
        for shard in 0..shards {
            let f = &f;
            let stop = &stop;
            let results = &results;
            std::thread::Builder::new()
                .stack_size(BIG_STACK)
                .spawn_scoped(scope, move || {
                    let r = run_shard(ctx, stage, shard, per, max_len, f, stop);
                    results.lock().unwrap().push((shard, r.0, r.1));
                })
                .expect("spawn shard");
        }
    });
    let mut results = results.into_inner().unwrap();
    results.sort_by_key(|r| r.0);
    let mut stats = Stats::new();
    let mut viol = None;
    for (_, s, v) in results {
        stats.merge(s);
        if viol.is_none() {
            viol = v;
        }
    }
    (stats, viol)
}

fn run_shard<F>(
    ctx: &Ctx, stage: &str, shard: u64, cases: u64, max_len: usize, f: &F, stop: &AtomicBool,
) -> (Stats, Option<Violation>)
where
    F: Fn(&[u8], &mut Stats) -> Result<(), Fail> + Sync,
{
    install_panic_hook();
    let seed = mix(mix(ctx.seed, hash_of(stage)), shard);
    let mut seed_bytes = [0u8; 32];
    for i in 0..4 {
        seed_bytes[8 * i..8 * i + 8].copy_from_slice(&mix(seed, i as u64).to_le_bytes());
    }
    let config = Config {
        cases: cases as u32,
        failure_persistence: None,
        max_shrink_iters: 600,
        max_shrink_time: 120_000,
        max_global_rejects: 1_000_000,
        ..Config::default()
    };
    let mut runner = TestRunner::new_with_rng(config, TestRng::from_seed(RngAlgorithm::ChaCha, &seed_bytes));
    let strategy = tape_strategy(max_len);
    let stats = RefCell::new(Stats::new());
    let failed = std::cell::Cell::new(false);
    let scratch = RefCell::new(Stats::new());
    let result = runner.run(&strategy, |tape| {
        if stop.load(Ordering::Relaxed) && !failed.get() {
            return Ok(());
        }
        let outcome = if failed.get() {
            // proptest is shrinking: do not count
            let mut s = scratch.borrow_mut();
            *s = Stats::new();
            decide(ctx, f, &tape, &mut s)
        } else {
            decide(ctx, f, &tape, &mut stats.borrow_mut())
        };
        match outcome {
            | Ok(()) => Ok(()),
            | Err(fail) => {
                failed.set(true);
                Err(TestCaseError::fail(fail.signature))
            }
        }
    });
    let stats = stats.into_inner();
    match result {
        | Ok(()) => (stats, None),
        | Err(TestError::Fail(_, tape)) => {
            stop.store(true, Ordering::Relaxed);
            let mut s = Stats::new();
            let fail = match decide(ctx, f, &tape, &mut s) {
                | Err(fail) => fail,
                | Ok(()) => Fail::new(
                    "flaky-case",
                    "the shrunk case to fail again",
                    "the shrunk case passed when re-run (non-deterministic case)",
                ),
            };
            (stats, Some(Violation { fail, kind: "tape".into(), tape: Some(tape), stage: stage.to_string() }))
        }
        | Err(TestError::Abort(reason)) => {
            let fail = Fail::new("proptest-abort", "run to complete", format!("{reason}"));
            (stats, Some(Violation { fail, kind: "abort".into(), tape: None, stage: stage.to_string() }))
        }
    }
}

/// Decide one case, tolerating listed open known findings (unless strict).
pub fn decide<F>(ctx: &Ctx, f: &F, tape: &[u8], stats: &mut Stats) -> Result<(), Fail>
where
    F: Fn(&[u8], &mut Stats) -> Result<(), Fail>,
{
    match catch(|| f(tape, stats)) {
        | Ok(Ok(())) => Ok(()),
        | Ok(Err(fail)) => tolerate(ctx, stats, fail),
        | Err(p) => {
            // a panic that escaped the property code itself (harness bug or uncaught repo panic)
            let fail = Fail::new(format!("uncaught-{}", p.signature()), "no unwind", p.describe());
            tolerate(ctx, stats, fail)
        }
    }
}

pub fn tolerate(ctx: &Ctx, stats: &mut Stats, fail: Fail) -> Result<(), Fail> {
    if !ctx.strict {
        if let Some(k) = ctx.known.open_match(&ctx.prop, &fail.signature) {
            *stats.known_hits.entry(k.id.clone()).or_insert(0) += 1;
            return Ok(());
        }
    }
    Err(fail)
}

/// Tapes: mostly uniform bytes; a share of the bytes is forced small so that "simple" choices are
/// well represented next to arbitrary ones.
fn tape_strategy(max_len: usize) -> impl Strategy<Value = Vec<u8>> {
    use proptest::prelude::*;
    let byte = prop_oneof![
        6 => any::<u8>(),
        1 => 0u8..16,
        1 => 240u8..=255,
    ];
    proptest::collection::vec(byte, 0..max_len.max(1))
}

/// Plain deterministic iteration helper for exhaustive / enumerated stages, parallel over items.
/// `f` returns Err for a failing item; the first failure (by index) is reported.
pub fn run_items<T, F>(ctx: &Ctx, stage: &str, items: Vec<T>, f: F) -> (Stats, Option<Violation>)
where
    T: Sync,
    F: Fn(&T, &mut Stats) -> Result<(), Fail> + Sync,
{
    let n = items.len();
    let next = AtomicU64::new(0);
    let stop = AtomicBool::new(false);
    let results: Mutex<Vec<(Stats, Option<(usize, Fail)>)>> = Mutex::new(vec![]);
    std::thread::scope(|scope| {
        for _ in 0..ctx.threads.max(1) {
            let f = &f;
            let items = &items;
            let next = &next;
            let stop = &stop;
            let results = &results;
            std::thread::Builder::new()
                .stack_size(BIG_STACK)
                .spawn_scoped(scope, move || {
                    install_panic_hook();
                    let mut stats = Stats::new();
                    let mut first: Option<(usize, Fail)> = None;
                    loop {
                        if stop.load(Ordering::Relaxed) {
                            break;
                        }
                        let i = next.fetch_add(1, Ordering::SeqCst) as usize;
                        if i >= n {
                            break;
                        }
                        let r = match catch(|| f(&items[i], &mut stats)) {
                            | Ok(r) => r,
                            | Err(p) => Err(Fail::new(
                                format!("uncaught-{}", p.signature()),
                                "no unwind",
                                p.describe(),
                            )),
                        };
                        if let Err(fail) = r {
                            if let Err(fail) = tolerate(ctx, &mut stats, fail) {
                                first = Some((i, fail));
                                stop.store(true, Ordering::Relaxed);
                                break;
                            }
                        }
                    }
                    results.lock().unwrap().push((stats, first));
                })
                .expect("spawn worker");
        }
    });
    let mut stats = Stats::new();
    let mut best: Option<(usize, Fail)> = None;
    for (s, f) in results.into_inner().unwrap() {
        stats.merge(s);
        if let Some((i, fail)) = f {
            if best.as_ref().is_none_or(|(j, _)| i < *j) {
                best = Some((i, fail));
            }
        }
    }
    let viol = best.map(|(_, fail)| Violation { fail, kind: "item".into(), tape: None, stage: stage.to_string() });
    (stats, viol)
}

#[allow(dead_code)]
fn _unused(_: &dyn ValueTree<Value = u8>) {}

pub fn arc_ctx(ctx: Ctx) -> Arc<Ctx> {
    Arc::new(ctx)
}

thread_local! {
    static THREAD_DIR: RefCell<Option<PathBuf>> = const { RefCell::new(None) };
}

/// A scratch directory private to the calling thread (created on first use, reused afterwards).
pub fn thread_dir(ctx: &Ctx) -> PathBuf {
    THREAD_DIR.with(|slot| {
        let mut slot = slot.borrow_mut();
        if let Some(d) = slot.as_ref() {
            if d.starts_with(&ctx.scratch) || d.exists() {
                return d.clone();
            }
        }
        let d = ctx.fresh_dir("t");
        *slot = Some(d.clone());
        d
    })
}

/// Run `f` on a helper thread; `None` if it does not finish within `secs` (the thread is abandoned —
/// a hang or an exponential computation cannot be interrupted in-process).  A deadline hit is never a
/// verdict: callers count it as inconclusive.
pub fn with_deadline<T: Send + 'static>(secs: u64, f: impl FnOnce() -> T + Send + 'static) -> Option<T> {
    let (tx, rx) = std::sync::mpsc::channel();
    std::thread::Builder::new()
        .stack_size(BIG_STACK)
        .spawn(move || {
            install_panic_hook();
            let _ = tx.send(f());
        })
        .expect("spawn deadline thread");
    rx.recv_timeout(std::time::Duration::from_secs(secs)).ok()
}
