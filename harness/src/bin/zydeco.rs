// The real `zydeco` command line, compiled from /repo's current working tree.
include!("/repo/cli/src/main.rs");
