use std::path::PathBuf;
use std::sync::atomic::AtomicU64;
use std::time::Instant;
use zyverif::engine::{self, Ctx, Known, Tier};

fn usage() -> ! {
    eprintln!("usage: zyverif check <ID> <quick|thorough> | zyverif replay <ID> <file> | zyverif list");
    std::process::exit(2)
}

fn main() {
    // everything runs on a big-stack thread: generators, oracles and the repo's passes recurse
    let code = std::thread::Builder::new()
        .stack_size(engine::BIG_STACK)
        .spawn(real_main)
        .unwrap()
        .join()
        .unwrap_or(2);
    std::process::exit(code);
}

fn real_main() -> i32 {
    let args: Vec<String> = std::env::args().collect();
    if args.len() < 2 {
        usage();
    }
    let registry = zyverif::props::registry();
    if args[1] == "list" {
        for p in &registry {
            println!("{}", p.id);
        }
        return 0;
    }
    if args[1] == "fmt-worker" {
        return zyverif::drive::fmt_worker_main();
    }
    if args[1] == "gen" {
        // zyverif gen <seed> <count> [show]: generate core programs, run reference and interpreter
        use zyverif::core::{generate::Cfg, harness as h};
        use zyverif::drive::*;
        let seed: u64 = args[2].parse().unwrap();
        let count: u64 = args[3].parse().unwrap();
        let show = args.get(4).is_some();
        let dir = std::env::temp_dir().join(format!("zygen-{}", std::process::id()));
        std::fs::create_dir_all(&dir).unwrap();
        let repo = std::path::PathBuf::from("/repo");
        let mut tally: std::collections::BTreeMap<String, u32> = Default::default();
        for i in 0..count {
            let mut tape = vec![0u8; 400];
            let mut x = engine::mix(seed, i);
            for b in tape.iter_mut() {
                x = engine::mix(x, 1);
                *b = (x >> 24) as u8;
            }
            let trace = std::env::var_os("VERIF_TRACE").is_some();
            if trace { eprintln!("case {i}: generate"); }
            let g = h::generate(&tape, &Cfg::quick());
            if trace { eprintln!("case {i}: print"); }
            let text = h::default_print(&repo, &g.prog);
            if trace { eprintln!("case {i}: analyze ({} bytes)", text.len()); }
            let (_session, a) = h::write_and_analyze(&dir, &text);
            if trace { eprintln!("case {i}: run"); }
            let body = &text[text.find("begin\n").unwrap_or(0)..];
            let verdict = match a {
                | Analyzed::Executable(exe, _) => {
                    let r = h::reference_run(&g.prog, &g.stdin, 200_000);
                    let ir = h::interp_run(exe, &g.stdin, 2_000_000);
                    let same = h::ends_agree(&r.end, &ir.end) && r.stdout == ir.stdout;
                    if show || !same {
                        println!("---- case {i} ----\n{body}");
                        println!("stdin {:?}", String::from_utf8_lossy(&g.stdin));
                        println!("ref   : {:?} {:?}", r.end, String::from_utf8_lossy(&r.stdout));
                        println!("interp: {:?} {:?}", ir.end, String::from_utf8_lossy(&ir.stdout));
                    }
                    if same { format!("agree:{:?}", std::mem::discriminant(&r.end)) } else { "DISAGREE".into() }
                }
                | Analyzed::AcceptedOther(_, why) => format!("accepted-other: {why}"),
                | Analyzed::NotAccepted(front) => {
                    println!("---- case {i} REJECTED ----\n{body}");
                    for k in front.kinds.iter().take(3) {
                        println!("  - {k}");
                    }
                    if front.kinds.is_empty() {
                        println!("{}", strip_ansi(&front.rendered).lines().take(3).collect::<Vec<_>>().join("\n"));
                    }
                    "rejected".into()
                }
                | Analyzed::Panic(p) => {
                    println!("---- case {i} PANIC {} ----\n{body}", p.describe());
                    "panic".into()
                }
            };
            *tally.entry(verdict).or_insert(0) += 1;
        }
        println!("{tally:?}");
        let _ = std::fs::remove_dir_all(&dir);
        return 0;
    }
    if args[1] == "rename-debug" {
        // zyverif rename-debug <replay.json>: show the marked token stream and the renaming decisions
        let doc: serde_json::Value = serde_json::from_str(&std::fs::read_to_string(&args[2]).unwrap()).unwrap();
        let tape = zyverif::engine::unhex(doc["tape_hex"].as_str().unwrap());
        let g = zyverif::core::harness::generate(&tape, &zyverif::core::generate::Cfg::quick());
        let names = zyverif::core::print::Names::unique(&g.prog);
        let style = zyverif::core::print::Style::default();
        let mut pr = zyverif::core::print::Printer::new(&g.prog, &names, &style);
        pr.scopes = true;
        pr.program();
        println!("{}", pr.out.iter().map(|t| if let Some(r) = t.strip_prefix('\u{1}') { format!("⟦{r}⟧") } else { t.clone() }).collect::<Vec<_>>().join(" "));
        let mut st = zyverif::engine::Tape::new(if tape.len() > 24 { &tape[tape.len() - 24..] } else { &tape });
        let r = zyverif::core::naming::rename_tokens(&mut pr.out, &names.binder, &mut st, 8);
        println!("\n{r:?}\n{}", zyverif::core::print::join(&pr.out));
        return 0;
    }
    if args[1] == "probe" {
        // zyverif probe <file> [stdin-text]: verdict, diagnostic kinds, run result (development aid)
        use zyverif::drive::*;
        let path = std::path::PathBuf::from(&args[2]).canonicalize().expect("file");
        let session = zydeco_session::CompilerSession::default();
        match analyze_executable(&session, &path) {
            | Analyzed::Executable(exe, front) => {
                println!("verdict: {:?} (executable)", front.verdict);
                let stdin = args.get(3).cloned().unwrap_or_default();
                let r = run_executable(exe, stdin.as_bytes(), &[], 2_000_000);
                println!("stdout: {:?}", String::from_utf8_lossy(&r.stdout));
                println!("end: {:?} after {} steps", r.end, r.steps);
                if let Analyzed::Executable(exe2, _) = analyze_executable(&session, &path) {
                    match lower(exe2) {
                        | Lowered::Ok(b) => {
                            let s = zyverif::sps::run(&b.sps_low, stdin.as_bytes(), 50_000_000);
                            println!("sps   : {:?} stdout {:?} after {} steps", s.end, String::from_utf8_lossy(&s.stdout), s.steps);
                            let mut st = zyverif::engine::Stats::new();
                            match zyverif::props::c18::check_backend(&b, &|v| v, &mut st) {
                                | Ok(()) => println!("backend: valid"),
                                | Err(f) => println!("backend: {} — {}", f.signature, f.observed),
                            }
                        }
                        | Lowered::Refused(w) => println!("lowering refused: {w}"),
                        | Lowered::Panic(p) => println!("lowering PANIC {}", p.describe()),
                    }
                }
            }
            | Analyzed::AcceptedOther(front, why) => println!("verdict: {:?}; not executable: {why}", front.verdict),
            | Analyzed::NotAccepted(front) => {
                println!("verdict: {:?}", front.verdict);
                for (k, s) in front.kinds.iter().zip(front.spans.iter().map(Some).chain(std::iter::repeat(None))) {
                    let loc = s.map(|(p, r)| {
                        let text = std::fs::read_to_string(p).unwrap_or_default();
                        let line = text[..r.start.min(text.len())].matches('\n').count() + 1;
                        let snippet: String = text.get(r.clone()).unwrap_or("").chars().take(80).collect();
                        format!("{}:{} `{}`", p.file_name().unwrap().to_string_lossy(), line, snippet.replace('\n', " "))
                    });
                    println!("  - {k}   @ {}", loc.unwrap_or_default());
                }
                if front.kinds.is_empty() {
                    println!("{}", strip_ansi(&front.rendered).lines().take(6).collect::<Vec<_>>().join("\n"));
                }
            }
            | Analyzed::Panic(p) => println!("PANIC {}", p.describe()),
        }
        return 0;
    }
    if args.len() < 4 {
        usage();
    }
    let id = args[2].clone();
    let Some(prop) = registry.iter().find(|p| p.id == id) else {
        eprintln!("unknown property {id}");
        std::process::exit(2)
    };
    let verif_root = PathBuf::from(std::env::var("VERIF_ROOT").unwrap_or_else(|_| "/verif".into()));
    let repo_root = PathBuf::from(std::env::var("VERIF_REPO").unwrap_or_else(|_| "/repo".into()));
    let seed = std::env::var("VERIF_SEED").ok().and_then(|s| s.trim().parse::<u64>().ok()).unwrap_or(1);
    let scratch = std::env::var("VERIF_SCRATCH")
        .map(PathBuf::from)
        .unwrap_or_else(|_| std::env::temp_dir().join(format!("zyverif-{}", std::process::id())));
    std::fs::create_dir_all(&scratch).expect("scratch root");
    let threads = std::env::var("VERIF_THREADS")
        .ok()
        .and_then(|s| s.parse().ok())
        .unwrap_or_else(|| std::thread::available_parallelism().map(|n| n.get()).unwrap_or(8));
    let mk = |tier: Tier, strict: bool| Ctx {
        prop: id.clone(),
        seed,
        tier,
        scratch: scratch.clone(),
        threads,
        known: Known::load(&verif_root.join("known_findings.json")),
        strict,
        verif_root: verif_root.clone(),
        repo_root: repo_root.clone(),
        started: Instant::now(),
        next_dir: AtomicU64::new(0),
    };
    engine::install_panic_hook();
    match args[1].as_str() {
        | "check" => {
            let tier = match args[3].as_str() {
                | "quick" => Tier::Quick,
                | "thorough" => Tier::Thorough,
                | _ => usage(),
            };
            let ctx = mk(tier, false);
            // run on a big-stack thread: generators and oracles recurse
            let code = std::thread::scope(|s| {
                std::thread::Builder::new()
                    .stack_size(engine::BIG_STACK)
                    .spawn_scoped(s, || {
                        let report = (prop.run)(&ctx);
                        engine::finish(&ctx, report)
                    })
                    .unwrap()
                    .join()
                    .unwrap_or(2)
            });
            std::process::exit(code);
        }
        | "replay" => {
            let ctx = mk(Tier::Quick, true);
            let text = std::fs::read_to_string(&args[3]).expect("read replay file");
            let doc: serde_json::Value = serde_json::from_str(&text).expect("replay file is JSON");
            let result = std::thread::scope(|s| {
                std::thread::Builder::new()
                    .stack_size(engine::BIG_STACK)
                    .spawn_scoped(s, || (prop.replay)(&ctx, &doc))
                    .unwrap()
                    .join()
                    .expect("replay thread")
            });
            match result {
                | Ok(()) => {
                    println!("replay {}: case passes", args[3]);
                    std::process::exit(0)
                }
                | Err(fail) => {
                    println!("  {}", fail.signature);
                    println!("    expected: {}", fail.expected);
                    println!("    observed: {}", fail.observed);
                    println!("VIOLATION property={} replay={}", id, args[3]);
                    std::process::exit(1)
                }
            }
        }
        | _ => usage(),
    }
}
