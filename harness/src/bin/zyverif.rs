use std::path::PathBuf;
use std::sync::atomic::AtomicU64;
use std::time::Instant;
use zyverif::engine::{self, Ctx, Known, Tier};

fn usage() -> ! {
    eprintln!("usage: zyverif check <ID> <quick|thorough> | zyverif replay <ID> <file> | zyverif list");
    std::process::exit(2)
}

fn main() {
    let args: Vec<String> = std::env::args().collect();
    if args.len() < 2 {
        usage();
    }
    let registry = zyverif::props::registry();
    if args[1] == "list" {
        for p in &registry {
            println!("{}", p.id);
        }
        return;
    }
    if args.len() < 4 {
        usage();
    }
    let id = args[2].clone();
    let Some(prop) = registry.iter().find(|p| p.id == id) else {
        eprintln!("unknown property {id}");
        std::process::exit(2)
    };
    let verif_root = PathBuf::from(std::env::var("VERIF_ROOT").unwrap_or_else(|_| "/verif".into()));
    let repo_root = PathBuf::from(std::env::var("VERIF_REPO").unwrap_or_else(|_| "/repo".into()));
    let seed = std::env::var("VERIF_SEED").ok().and_then(|s| s.trim().parse::<u64>().ok()).unwrap_or(1);
    let scratch = std::env::var("VERIF_SCRATCH")
        .map(PathBuf::from)
        .unwrap_or_else(|_| std::env::temp_dir().join(format!("zyverif-{}", std::process::id())));
    std::fs::create_dir_all(&scratch).expect("scratch root");
    let threads = std::env::var("VERIF_THREADS")
        .ok()
        .and_then(|s| s.parse().ok())
        .unwrap_or_else(|| std::thread::available_parallelism().map(|n| n.get()).unwrap_or(8));
    let mk = |tier: Tier, strict: bool| Ctx {
        prop: id.clone(),
        seed,
        tier,
        scratch: scratch.clone(),
        threads,
        known: Known::load(&verif_root.join("known_findings.json")),
        strict,
        verif_root: verif_root.clone(),
        repo_root: repo_root.clone(),
        started: Instant::now(),
        next_dir: AtomicU64::new(0),
    };
    engine::install_panic_hook();
    match args[1].as_str() {
        | "check" => {
            let tier = match args[3].as_str() {
                | "quick" => Tier::Quick,
                | "thorough" => Tier::Thorough,
                | _ => usage(),
            };
            let ctx = mk(tier, false);
            // run on a big-stack thread: generators and oracles recurse
            let code = std::thread::scope(|s| {
                std::thread::Builder::new()
                    .stack_size(engine::BIG_STACK)
                    .spawn_scoped(s, || {
                        let report = (prop.run)(&ctx);
                        engine::finish(&ctx, report)
                    })
                    .unwrap()
                    .join()
                    .unwrap_or(2)
            });
            std::process::exit(code);
        }
        | "replay" => {
            let ctx = mk(Tier::Quick, true);
            let text = std::fs::read_to_string(&args[3]).expect("read replay file");
            let doc: serde_json::Value = serde_json::from_str(&text).expect("replay file is JSON");
            let result = std::thread::scope(|s| {
                std::thread::Builder::new()
                    .stack_size(engine::BIG_STACK)
                    .spawn_scoped(s, || (prop.replay)(&ctx, &doc))
                    .unwrap()
                    .join()
                    .expect("replay thread")
            });
            match result {
                | Ok(()) => {
                    println!("replay {}: case passes", args[3]);
                    std::process::exit(0)
                }
                | Err(fail) => {
                    println!("  {}", fail.signature);
                    println!("    expected: {}", fail.expected);
                    println!("    observed: {}", fail.observed);
                    println!("VIOLATION property={} replay={}", id, args[3]);
                    std::process::exit(1)
                }
            }
        }
        | _ => usage(),
    }
}
