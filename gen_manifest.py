#!/usr/bin/env python3
"""Regenerates MANIFEST.json from the table below (kept in one place so it stays valid)."""
import json, sys
ALL = [f"C{i:02d}" for i in range(1, 21)]
CLAIMED = {
 "C05": dict(
   technique="exhaustive enumeration (all 8-bit operand pairs) + boundary sets + proptest random operands against Rust's same-named primitives; boundary-value literal programs",
   text="Exploration with an exhaustive core. Every operand pair of Int8 and UInt8 under all 8 binary roles and to_string (1.05 M invocations) is compared with Rust's primitive; wider types get boundary sets squared and random pairs, floats special values squared and random bit patterns (bit-exact, any NaN = any NaN, rendering must parse back to the same bits). Source-level literals within 2 of every range boundary at every type, defaulting and absence of implicit conversion are decided by accept/reject and the printed value.",
   note="trusted base: hmodel.rs numeric functions (thin wrappers over Rust primitives); roles are invoked through the interpreter's Prim step",
   ref="§3 C05"),
 "C06": dict(
   technique="model-based testing: direct role invocation and generated caller programs / I/O scenarios against a host-operation model (H-model) and a file model; mutation of a private copy of the Builtin signature",
   text="Exploration. Table agreement for all 126 roles; the text/bytes/stdio/process roles are invoked on tuples generated from their declared classifier (Unicode, boundary indices, invalid UTF-8, surrogates, numeric edge strings) with a sentinel frame checking the consumed arity; generated caller programs and I/O scenarios run through the linked package and must print what the model predicts (error kinds through the error continuation, closed handles stay closed, file contents); one-role mutations of the Builtin signature must be rejected.",
   note="trusted base: H-model (hmodel.rs), file model in props/c06.rs; runs as root so permission errors are not producible",
   ref="§3 C06"),
 "C01": dict(
   technique="type-directed program generation + corpus token mutation (proptest choice tapes), filtered by the implementation's own accept verdict; stuck-state classification of fuel-bounded runs on adversarial inputs",
   text="Exploration. Generated core programs, every repository executable and its still-accepted token mutants are run with the interpreter on six stdin contents (empty, lines, numbers incl. out of range, a 70 kB line, invalid UTF-8, generated) and two argument vectors under a fuel bound; any way of ending other than exit / return / fuel / the division trap / a legacy-stdio host failure is a stuck state. Soundness beyond the generated core and the corpus neighbourhood is not established.",
   note="trusted base: classification of panic messages in drive.rs; fuel bound 200k/50k steps; the generator (harness/src/core)",
   ref="§3 C01"),
 "C02": dict(
   technique="differential testing against an independent reference CK machine (R-sem) and host model on generated typed programs, under several meaning-preserving printings",
   text="Exploration. Each generated core program (with effects placed in thunks, arguments, arms and bindees) is printed under three style combinations and run by the real pipeline on a generated stdin; stdout bytes and exit code / trap must equal those of an independent CBPV CK machine running the AST with a host-operation model. Agreement outside the generated core language is not established.",
   note="trusted base: R-sem (core/eval.rs), H-model (hmodel.rs), printer (core/print.rs); fuel-bounded on both sides",
   ref="§3 C02"),
 "C18": dict(
   technique="generated and targeted accepted programs pushed through lower/render/emit under panic capture, followed by an independent re-validation of the produced SPSLow tree, assembly arena and AMD64 text",
   text="Exploration. Every accepted executable from the generator, 12 targeted shapes and repository executables (plus accepted mutants) must lower, render and emit without an internal error, and the produced IR must satisfy its stated invariants as re-derived by the harness's own traversal (closed root, no implicit capture, unique labels, no shared node, stack lets exactly at coproduct matches, layouts, defined jump targets/symbols, AMD64 labels defined or extern). Known open finding F12 (catch-all / nested constructor arms) is tolerated by exact signature.",
   note="trusted base: harness validators in props/c18.rs; LLVM text is only produced `where supported` (LlvmUnsupportedLocal otherwise)",
   ref="§3 C18"),
 "C19": dict(
   technique="translation validation by differential execution: an independent first-order SPS reference machine (M-sps) runs the real SpsLowProgram and is compared with the interpreter on generated programs",
   text="Exploration. For generated core programs the first-order stack-passing program produced by the real lowering is executed by an independent machine written from the documented SPSLow semantics (blocks see only their label, explicit closure/continuation packages, tag dispatch by index, physical product layouts, host model) and must reproduce the interpreter's stdout and exit code / trap. Stops at SPSLow.",
   note="trusted base: M-sps (harness/src/sps.rs), H-model; programs whose lowering hits known finding F12 are discarded and counted",
   ref="§3 C19"),
 "C10": dict(
   technique="grammar-directed generation + token-level mutation of the corpus + raw token/byte soup (proptest, choice tapes); totality and location-validity predicate; subprocess agreement with the real CLI",
   text="Exploration. Generated syntactically valid but ill-formed terms over every grammar production (extreme literals, arbitrary metadata), token mutations of every repository source and raw token/byte soup are pushed through parse, directives, desugar, resolve, check and diagnostic rendering; every case must return a verdict or an error value without unwinding, and every location mentioned must lie in its file. Shrunk earlier findings are replayed first. Bounded nesting depth; absence of panics beyond the explored inputs is not established.",
   note="trusted base: harness drivers replicate cli/src/diagnostics.rs rendering into buffers (plus a sample through the real binary); proptest; rustc",
   ref="§3 C10"),
 "C11": dict(
   technique="mutation-based generation (lexical irregularities at token gaps, exhaustive on small bases) against an independent maximal-munch scanner as extent oracle",
   text="Exploration. Every repository source and 30 grammar snippets receive 0-2 of 33 lexical irregularities at token gaps (exhaustively for the snippets); whenever the parser accepts, the root term's span must equal the extent of all non-comment tokens computed by an independent scanner written from the token definitions.",
   note="trusted base: S-scan (harness/src/scan.rs) as specification of the lexical grammar; an unterminated `/-` comments out the rest of the file",
   ref="§3 C11"),
 "C08": dict(
   technique="exhaustive enumeration + proptest random generation against a transitive-closure SCC oracle; permutation metamorphic testing of generated blocks",
   text="Exploration. The public graph API is decided on every digraph with at most 4 nodes (self-loops included; exhaustive) and on random digraphs with 5-12 nodes under several labelings and release disciplines, against SCCs computed by transitive closure; at the language level generated begin-blocks are printed in many permutations and must keep verdict and behaviour. Absence beyond the explored sizes is not established.",
   note="trusted base: harness oracle (bit-set transitive closure), rustc, proptest; the harness links /repo's crates from the working tree",
   ref="§3 C08"),
}
def main():
    checks = []
    for pid in ALL:
        if pid not in CLAIMED: continue
        c = CLAIMED[pid]
        checks.append({
          "property_id": pid, "engine": "zyverif",
          "quick_cmd": f"./check {pid} quick", "thorough_cmd": f"./check {pid} thorough",
          "replay_cmd_template": f"./check replay {pid} {{path}}",
          "evidence_file": f"/verif/evidence/{pid}.json",
          "level_claimed": {"category": "exploration", "design_ref": c["ref"], "text": c["text"]},
          "level_note": c["note"], "technique": c["technique"],
        })
    na = [{"property_id": p, "reason": NA.get(p, "check not built yet in this round (planned in DESIGN.md §3); not claimed until it runs")} for p in ALL if p not in CLAIMED]
    m = {
      "version": 1,
      "setup_cmd": "cd /verif/harness && CARGO_NET_OFFLINE=true cargo build --release --offline",
      "hooks": {"guard": "--cfg zydeco_verif", "enable": "none needed: all checks observe public API of /repo's crates; the harness crate /verif/harness depends on them by path and rebuilds them from the working tree",
                "baseline_off_cmd": "cd /repo && cargo nextest run --workspace --no-fail-fast --test-threads 8 --offline || cargo test --workspace --no-fail-fast --offline",
                "source_commits": [], "add_only": True},
      "engines": [{"name": "zyverif", "path": "/verif/harness", "serves_properties": sorted(CLAIMED), "kind_free_text": "Rust harness: proptest choice-tape generators, exhaustive enumerators, independent oracles; ./check builds it against /repo's working tree"}],
      "checks": checks,
      "not_applicable": na,
      "notes": "All checks: ./check <ID> <tier>; VERIF_SEED selects the PRNG seed; exit 0 held / 1 VIOLATION / 2 harness-inconclusive. Known findings: /verif/known_findings.json.",
    }
    json.dump(m, open("/verif/MANIFEST.json", "w"), indent=1)
NA = {}
main()
