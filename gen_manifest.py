#!/usr/bin/env python3
"""Regenerates MANIFEST.json from the table below (kept in one place so it stays valid)."""
import json, sys
ALL = [f"C{i:02d}" for i in range(1, 21)]
CLAIMED = {
 "C20": dict(
   technique="differential testing over generated pure core computations: plain run vs @[monadic] block instantiated at the identity monad (and at Reader Unit), cross-checked against the reference machine",
   text="Exploration. Type-directed generation of closed returning computations in the fragment the algebra translation supports (ret, do, fn/application incl. redexes, thunks/force, transparent data with exhaustive matches incl. nested and wildcard arms, tuple/alias patterns, lets, calls to let-bound thunks) with a printable result type; one program runs the body plain, then the @[monadic] block at (Ret, return = ret, bind = run then continue), then at Reader Unit; the identity result must equal the plain result (which must equal the reference machine's), and no instantiation may go wrong; refused blocks are counted discards. One program also contains a second identical block, and — for half of the cases — the leading closed lets of the body as global definitions referenced by both blocks, plus a third block calling the first global from a let tail.",
   note="bodies are effect free (host operations cannot be referenced inside a block), so evaluation-order changes are visible only through values; a differing Reader result is counted, not reported",
   ref="§3 C20"),
 "C04": dict(
   technique="exhaustive small-scope enumeration plus random generation of pattern matrices against a brute-force value-enumeration oracle; differential run of accepted matches against first-match semantics",
   text="Exploration. 20 catalogue types (sums, products in both groupings, unit, named fields, packages, recursive Nat/List, the empty type, nested mixes) x every list of <=3 rows over depth<=2 patterns (<=4 rows for small pattern sets in thorough), plus random composite types with rows from perturbed splitting partitions (depth<=4, <=14 rows), rendered as match, comatch argument patterns, or fn/let/do binders. Oracle: enumerate all values to depth max-pattern-depth+1 (canonical inhabitant below): accepted iff every value is matched; every reported CoveragePattern denotes an unmatched value; accepted rows run on <=48 enumerated values take the first matching row. Comatch: all arm sequences of length <=n+1 over 0-4 destructors: accepted iff each exactly once, reported missing/duplicate destructors truthful, each arm selected at run time.",
   note="trusted base: matches/denotes/values in props/c04.rs (~150 lines); payload types inhabited; cases whose value space exceeds the enumeration cap are counted inconclusive; function parameters that open a package are rendered as let/match (the elaborator supports package-dependent parameters only at top level)",
   ref="§3 C04"),
 "C03": dict(
   technique="derivation-aware mutation testing over generated core programs: the type-directed generator yields well-typed programs with their derivations; localized mutants carry a by-construction classification (definite error / type preserving) that the checker's verdict must match",
   text="Exploration. Per generated program (all type formers, both modes: checking sites under annotations, synthesis sites in heads/scrutinees) 10-16 mutants drawn over 16 site kinds x ~60 operators: value/computation of another type, near-miss annotations (other int width, product component changed/dropped/added/swapped, other declaration, Thk/Ret/arrow/forall changed), changed let/parameter/fix annotations, flipped binder kinds, ill-kinded type arguments and annotations, unknown constructors/destructors, eliminations at the wrong former, sort errors, sealed alias vs transparent alias, structural copies of sealed vs transparent declarations and near-miss copies, existential packages (abstract use, concrete use, escape, manifest, wrong witness, mode mismatch). Definite errors must be Rejected by the type checker with >=1 report (not accepted, not a panic, not an earlier phase); type-preserving edits and the unmutated program must be Checked.",
   note="trusted base: generator soundness (cross-checked by C02 running every program) and the operator catalogue in core/mutate.rs, each operator validated by hand against the documented rules; no second type checker is used, so programs outside the generated core are not classified",
   ref="§3 C03"),
 "C07": dict(
   technique="metamorphic testing over generated core programs: naming strategies (unique / maximally shadowing / reused per scope / rotated) must not change verdict or behaviour versus the reference machine; capture probes",
   text="Exploration. Generated core programs (all binders: let, do, fn, match/comatch arms, fix, type binders, declarations) are printed under four binder-naming strategies that the reference semantics (own CK machine with structural environments) cannot distinguish; each print must be accepted and run to the reference (stdout, exit). Hand-written capture probes per binder form pin the expected answer for shadowing in bindee/body positions. Added: token-level capture-free renaming (the printer marks every binder's scope; a binder takes any identifier that does not occur in its scope, preferring identifiers of its own annotation or bindee); probe families for a binder named after a name in its own annotation and for a `that` definition shadowing an enclosing parameter over many block / environment sizes, in the root and in an imported source.",
   note="trusted base: the naming module and reference machine in /verif/harness/src/core; names drawn only from non-reserved identifiers",
   ref="§3 C07"),
 "C09": dict(
   technique="exhaustive small-scope enumeration plus random generation of file graphs against a reachability/cycle oracle; differential multi-file vs inlined programs from the core generator; generativity probes",
   text="Exploration. (a) All 2^22 edge-set/companion/root/spelling codes on {a.zy,a.zyi,b.zy,b.zyi} in thorough (20k biased samples in quick) and random graphs of 2-12 files with duplicates, missing files, six path spellings incl. directory and file symlinks: graph() reports Cycle iff a cycle over import+signature edges is reachable, steps are real edges that chain and close; otherwise sources = reachable canonical files once, imports = occurrences, providers before consumers. (b) Generated programs with closed literal sub-values moved into provider files (imported once or several times, both import forms, three spellings) accept and behave exactly as the single-file program; exact companions change nothing, a wrong companion is rejected. (c) Generativity probes: def imported twice distinct, let-bound import shared, transparent definition equal. Random graphs place some files in a sibling directory behind a symlink (so a companion .zyi can be a link and one file is reachable under two paths) and add same-named decoy files in both directories.",
   note="trusted base: props/c09.rs graph oracle (DFS + reachability, 40 lines); providers restricted to closed literals because an imported source starts from an empty environment",
   ref="§3 C09"),
 "C15": dict(
   technique="stateful model-based testing: generated edit/query histories (proptest vector of operations, shrunk as one value) against a model of effective contents and a fresh-session oracle",
   text="Exploration. Histories of up to 40 overlay/disk edits and queries (graph, analyze, reports, coverage, executable run, checked_program/materialize_arena, LRU eviction, two more roots) over seven interdependent files with content variants (values of different types, syntax/type errors, non-exhaustive match, imports added/removed/cyclic, right/wrong/invalid companion, missing import, absent files); after every query a fresh session over a fresh directory with the model's effective contents answers the same query and the normalised answers must be equal; edit operations must succeed.",
   note="trusted base: the content model and normalisation in props/c15.rs; every disk change is followed by refresh_disk; diagnostics compared as sorted multisets",
   ref="§3 C15"),
 "C17": dict(
   technique="exhaustive enumeration of the degenerate sequential schedules + randomised multi-threaded stress (many seeds and thread counts) against a sequential fresh-session oracle keyed by the contents each snapshot saw",
   text="Exploration. Decided exactly: every (file, variant, root) instance of `snapshot first loads a provider, owner then edits it`, and every ordered selection of 2-3 small programs through check_resolved on one session. Explored by stress: an owner applying edits while 2-14 analyser threads query snapshots inside salsa::Cancelled::catch and allocator threads issue identifiers; every completed analysis must equal the fresh answer for the recorded contents or be Cancelled, identifiers must be pairwise distinct; no progress for 60 s is inconclusive. Interleavings are not enumerated. Added schedule S3: k snapshots first-analyse k roots sharing an import the session has not loaded, behind a barrier; the owner then overlays the shared file and every root must show the new text (120 trials, 2/4/8 threads).",
   note="trusted base: harness mutex discipline (snapshot + model copy taken atomically; no snapshot held across an owner write); all files are inputs before the first snapshot; no deletions in the stress part",
   ref="§3 C17"),
 "C12": dict(
   technique="mutation-based generation over parseable sources (re-layout, comment insertion, redundant parentheses, nested format directives) with round-trip / metamorphic oracles; formatter behind a killable worker process",
   text="Exploration. Every repository source under several option sets, generated surface terms over the whole grammar and generated core programs are mutated and formatted; the formatter must return, its output must parse, and the desugared structure plus directive payloads must be identical; through the CLI an unparseable file stays byte-identical with a non-zero exit. A per-request watchdog turns exponential layout searches into `inconclusive`. Known open finding F13 (panic on a block comment before code at the start of a thunk) is tolerated by signature.",
   note="trusted base: the repository's bitter `ugly` rendering applied to both sides; S-scan; worker-process fence (8 s)",
   ref="§3 C12"),
 "C13": dict(
   technique="mutation-based generation (comments of 10 kinds at every class of token gap) with an independent scanner comparing comment and code-atom streams of input and output",
   text="Exploration. Comment sequence (kind, content, order) must be preserved, code atoms must be preserved by value and order after symmetric pun normalisation, verbatim payloads must be copied byte-identically, and no comment may be moved to another syntactic element past code (both its neighbouring atoms and its neighbouring separators change). Known open findings (comments inside metadata, comments inside verbatim payloads, listed displacement shapes) are tolerated by exact signature.",
   note="trusted base: S-scan; comment content compared modulo trailing spaces / per-line indentation of block comments",
   ref="§3 C13"),
 "C14": dict(
   technique="metamorphic testing: fmt∘fmt = fmt, fmt(x) = fmt(x′) for spacing-related pairs, and differential agreement of `fmt --check` with `fmt` through the real CLI",
   text="Exploration. Over the same generated and mutated sources as C12: second-pass equality, exactly one trailing newline, no cycles within 4 passes, sources differing only in horizontal spacing format identically, and `fmt --check` reports exactly the files `fmt` then modifies. Non-idempotence is classified by how the second pass differs; the classes seen on the unchanged tree are listed as open findings (F16b, F19–F22), any other class is a violation. `fmt --check` is also run over several files in every argument order. Non-idempotence is classified (tokens / layout only) and layout-only differences are keyed by the joint at which the passes part; only joints seen on the unchanged tree are listed findings.",
   note="trusted base: byte comparison; classification of differences in props/c14.rs",
   ref="§3 C14"),
 "C16": dict(
   technique="repeated execution in fresh processes (randomised SipHash keys, ASLR, varied environment order / HOME / cwd) with byte comparison",
   text="Exploration. check, run, fmt --check and build -t zir|zasm|asm|llvm are run several times in fresh processes on repository executables, failing fixtures, generated rejected programs with several independent errors, a block with many independent bindings and generated core programs; stdout, stderr and exit status must be byte-identical. Sample sources include diagnostics that list things (seven missing destructors, overlapping clauses, duplicate and unbound names) and recursive groups of three and four definitions with two erroneous members; child processes have a 20 s deadline.",
   note="trusted base: the OS gives each process fresh hash seeds and addresses; thread ids in Rust panic messages are masked",
   ref="§3 C16"),
 "C05": dict(
   technique="exhaustive enumeration (all 8-bit operand pairs) + boundary sets + proptest random operands against Rust's same-named primitives; boundary-value literal programs",
   text="Exploration with an exhaustive core. Every operand pair of Int8 and UInt8 under all 8 binary roles and to_string (1.05 M invocations) is compared with Rust's primitive; wider types get boundary sets squared and random pairs, floats special values squared and random bit patterns (bit-exact, any NaN = any NaN, rendering must parse back to the same bits). Source-level literals within 2 of every range boundary at every type, defaulting and absence of implicit conversion are decided by accept/reject and the printed value.",
   note="trusted base: hmodel.rs numeric functions (thin wrappers over Rust primitives); roles are invoked through the interpreter's Prim step",
   ref="§3 C05"),
 "C06": dict(
   technique="model-based testing: direct role invocation and generated caller programs / I/O scenarios against a host-operation model (H-model) and a file model; mutation of a private copy of the Builtin signature",
   text="Exploration. Table agreement for all 126 roles; the text/bytes/stdio/process roles are invoked on tuples generated from their declared classifier (Unicode, boundary indices, invalid UTF-8, surrogates, numeric edge strings) with a sentinel frame checking the consumed arity; generated caller programs and I/O scenarios run through the linked package and must print what the model predicts (error kinds through the error continuation, closed handles stay closed, file contents); one-role mutations of the Builtin signature must be rejected.",
   note="trusted base: H-model (hmodel.rs), file model in props/c06.rs; runs as root so permission errors are not producible",
   ref="§3 C06"),
 "C01": dict(
   technique="type-directed program generation + corpus token mutation (proptest choice tapes), filtered by the implementation's own accept verdict; stuck-state classification of fuel-bounded runs on adversarial inputs",
   text="Exploration. Generated core programs, every repository executable and its still-accepted token mutants are run with the interpreter on six stdin contents (empty, lines, numbers incl. out of range, a 70 kB line, invalid UTF-8, generated) and two argument vectors under a fuel bound; any way of ending other than exit / return / fuel / the division trap / a legacy-stdio host failure is a stuck state. Soundness beyond the generated core and the corpus neighbourhood is not established. Added streams: pattern rows over catalogue/random data types as match, comatch argument patterns or fn/let/do/value-level binders applied to every enumerated value; record programs (nested named products, every projection); mutants of generated programs (all C03 operators plus free-form clause edits) that check still accepts; fixed probes of accepted-but-goes-wrong shapes seen before (term holes are a listed finding).",
   note="trusted base: classification of panic messages in drive.rs; fuel bound 200k/50k steps; the generator (harness/src/core)",
   ref="§3 C01"),
 "C02": dict(
   technique="differential testing against an independent reference CK machine (R-sem) and host model on generated typed programs, under several meaning-preserving printings",
   text="Exploration. Each generated core program (with effects placed in thunks, arguments, arms and bindees) is printed under three style combinations and run by the real pipeline on a generated stdin; stdout bytes and exit code / trap must equal those of an independent CBPV CK machine running the AST with a host-operation model. Agreement outside the generated core language is not established. Added stream: record programs — random nested named products (a record in first, middle and last position), values written flat / with nested literal tails / through tail variables, every field path projected in one chain or stepwise; expected = the stored integer. Generated programs now include product tails, clauses with up to four parameters, function telescopes printed as comatch clauses and comatch observed in place.",
   note="trusted base: R-sem (core/eval.rs), H-model (hmodel.rs), printer (core/print.rs); fuel-bounded on both sides",
   ref="§3 C02"),
 "C18": dict(
   technique="generated and targeted accepted programs pushed through lower/render/emit under panic capture, followed by an independent re-validation of the produced SPSLow tree, assembly arena and AMD64 text",
   text="Exploration. Every accepted executable from the generator, 12 targeted shapes and repository executables (plus accepted mutants) must lower, render and emit without an internal error, and the produced IR must satisfy its stated invariants as re-derived by the harness's own traversal (closed root, no implicit capture, unique labels, no shared node, stack lets exactly at coproduct matches, layouts, defined jump targets/symbols, AMD64 labels defined or extern). Known open finding F12 (catch-all / nested constructor arms) is tolerated by exact signature. Added streams: record programs and pattern-row programs; the two listed lowering panics carry the shape of the source in their signature (catch-all or nested patterns / constructor pattern in a binder / flat arms only).",
   note="trusted base: harness validators in props/c18.rs; LLVM text is only produced `where supported` (LlvmUnsupportedLocal otherwise)",
   ref="§3 C18"),
 "C19": dict(
   technique="translation validation by differential execution: an independent first-order SPS reference machine (M-sps) runs the real SpsLowProgram and is compared with the interpreter on generated programs",
   text="Exploration. For generated core programs the first-order stack-passing program produced by the real lowering is executed by an independent machine written from the documented SPSLow semantics (blocks see only their label, explicit closure/continuation packages, tag dispatch by index, physical product layouts, host model) and must reproduce the interpreter's stdout and exit code / trap. Stops at SPSLow. The pipeline is stopped at SPSLow (drive::lower_to_sps), so programs whose later assembly lowering is a listed finding are still compared; added streams: record programs and pattern-row programs applied to every enumerated value.",
   note="trusted base: M-sps (harness/src/sps.rs), H-model; programs whose lowering hits known finding F12 are discarded and counted",
   ref="§3 C19"),
 "C10": dict(
   technique="grammar-directed generation + token-level mutation of the corpus + raw token/byte soup (proptest, choice tapes); totality and location-validity predicate; subprocess agreement with the real CLI + coverage-guided fuzzing (libFuzzer via cargo-fuzz) in the thorough tier",
   text="Exploration. Generated syntactically valid but ill-formed terms over every grammar production (extreme literals, arbitrary metadata), token mutations of every repository source and raw token/byte soup are pushed through parse, directives, desugar, resolve, check and diagnostic rendering; every case must return a verdict or an error value without unwinding, and every location mentioned must lie in its file. Shrunk earlier findings are replayed first. Bounded nesting depth; absence of panics beyond the explored inputs is not established. Added stage (d): mutants of generated well-typed core programs (every C03 operator plus free-form clause edits) checked for totality. Thorough tier: a coverage-guided libFuzzer campaign (cargo-fuzz target /verif/fuzz `front`, 300 000 executions, same oracle code) whose artifact becomes the replay file.",
   note="trusted base: harness drivers replicate cli/src/diagnostics.rs rendering into buffers (plus a sample through the real binary); proptest; rustc",
   ref="§3 C10"),
 "C11": dict(
   technique="mutation-based generation (lexical irregularities at token gaps, exhaustive on small bases) against an independent maximal-munch scanner as extent oracle + coverage-guided fuzzing (libFuzzer via cargo-fuzz) in the thorough tier",
   text="Exploration. Every repository source and 30 grammar snippets receive 0-2 of 33 lexical irregularities at token gaps (exhaustively for the snippets); whenever the parser accepts, the root term's span must equal the extent of all non-comment tokens computed by an independent scanner written from the token definitions. 44 irregularities incl. tokens whose value is refused (over-wide numerals, `'''`). Thorough tier: the libFuzzer campaign of C10 with this property's oracle.",
   note="trusted base: S-scan (harness/src/scan.rs) as specification of the lexical grammar; an unterminated `/-` comments out the rest of the file",
   ref="§3 C11"),
 "C08": dict(
   technique="exhaustive enumeration + proptest random generation against a transitive-closure SCC oracle; permutation metamorphic testing of generated blocks",
   text="Exploration. The public graph API is decided on every digraph with at most 4 nodes (self-loops included; exhaustive) and on random digraphs with 5-12 nodes under several labelings and release disciplines, against SCCs computed by transitive closure; at the language level generated begin-blocks are printed in many permutations and must keep verdict and behaviour. Absence beyond the explored sizes is not established. Added: blocks with `param … that` contributions applied to their values (parameters keep their relative order under permutation) and parameters typed through block-local aliases (every placement of the definitions must bind the same arguments).",
   note="trusted base: harness oracle (bit-set transitive closure), rustc, proptest; the harness links /repo's crates from the working tree",
   ref="§3 C08"),
}
def main():
    checks = []
    for pid in ALL:
        if pid not in CLAIMED: continue
        c = CLAIMED[pid]
        checks.append({
          "property_id": pid, "engine": "zyverif",
          "quick_cmd": f"./check {pid} quick", "thorough_cmd": f"./check {pid} thorough",
          "replay_cmd_template": f"./check replay {pid} {{path}}",
          "evidence_file": f"/verif/evidence/{pid}.json",
          "level_claimed": {"category": "exploration", "design_ref": c["ref"], "text": c["text"]},
          "level_note": c["note"], "technique": c["technique"],
        })
    na = [{"property_id": p, "reason": NA.get(p, "check not built yet in this round (planned in DESIGN.md §3); not claimed until it runs")} for p in ALL if p not in CLAIMED]
    m = {
      "version": 1,
      "setup_cmd": "cd /verif/harness && CARGO_NET_OFFLINE=true cargo build --release --offline",
      "hooks": {"guard": "--cfg zydeco_verif", "enable": "none needed: all checks observe public API of /repo's crates; the harness crate /verif/harness depends on them by path and rebuilds them from the working tree",
                "baseline_off_cmd": "cd /repo && cargo nextest run --workspace --no-fail-fast --test-threads 8 --offline || cargo test --workspace --no-fail-fast --offline",
                "source_commits": [], "add_only": True},
      "engines": [{"name": "zyverif", "path": "/verif/harness", "serves_properties": sorted(CLAIMED), "kind_free_text": "Rust harness: proptest choice-tape generators, exhaustive enumerators, independent oracles; ./check builds it against /repo's working tree"}],
      "checks": checks,
      "not_applicable": na,
      "notes": "All checks: ./check <ID> <tier>; VERIF_SEED selects the PRNG seed; exit 0 held / 1 VIOLATION / 2 harness-inconclusive. Known findings: /verif/known_findings.json.",
    }
    json.dump(m, open("/verif/MANIFEST.json", "w"), indent=1)
NA = {}
main()
