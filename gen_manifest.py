#!/usr/bin/env python3
"""Regenerates MANIFEST.json from the table below (kept in one place so it stays valid)."""
import json, sys
ALL = [f"C{i:02d}" for i in range(1, 21)]
CLAIMED = {
 "C10": dict(
   technique="grammar-directed generation + token-level mutation of the corpus + raw token/byte soup (proptest, choice tapes); totality and location-validity predicate; subprocess agreement with the real CLI",
   text="Exploration. Generated syntactically valid but ill-formed terms over every grammar production (extreme literals, arbitrary metadata), token mutations of every repository source and raw token/byte soup are pushed through parse, directives, desugar, resolve, check and diagnostic rendering; every case must return a verdict or an error value without unwinding, and every location mentioned must lie in its file. Shrunk earlier findings are replayed first. Bounded nesting depth; absence of panics beyond the explored inputs is not established.",
   note="trusted base: harness drivers replicate cli/src/diagnostics.rs rendering into buffers (plus a sample through the real binary); proptest; rustc",
   ref="§3 C10"),
 "C11": dict(
   technique="mutation-based generation (lexical irregularities at token gaps, exhaustive on small bases) against an independent maximal-munch scanner as extent oracle",
   text="Exploration. Every repository source and 30 grammar snippets receive 0-2 of 33 lexical irregularities at token gaps (exhaustively for the snippets); whenever the parser accepts, the root term's span must equal the extent of all non-comment tokens computed by an independent scanner written from the token definitions.",
   note="trusted base: S-scan (harness/src/scan.rs) as specification of the lexical grammar; an unterminated `/-` comments out the rest of the file",
   ref="§3 C11"),
 "C08": dict(
   technique="exhaustive enumeration + proptest random generation against a transitive-closure SCC oracle; permutation metamorphic testing of generated blocks",
   text="Exploration. The public graph API is decided on every digraph with at most 4 nodes (self-loops included; exhaustive) and on random digraphs with 5-12 nodes under several labelings and release disciplines, against SCCs computed by transitive closure; at the language level generated begin-blocks are printed in many permutations and must keep verdict and behaviour. Absence beyond the explored sizes is not established.",
   note="trusted base: harness oracle (bit-set transitive closure), rustc, proptest; the harness links /repo's crates from the working tree",
   ref="§3 C08"),
}
def main():
    checks = []
    for pid in ALL:
        if pid not in CLAIMED: continue
        c = CLAIMED[pid]
        checks.append({
          "property_id": pid, "engine": "zyverif",
          "quick_cmd": f"./check {pid} quick", "thorough_cmd": f"./check {pid} thorough",
          "replay_cmd_template": f"./check replay {pid} {{path}}",
          "evidence_file": f"/verif/evidence/{pid}.json",
          "level_claimed": {"category": "exploration", "design_ref": c["ref"], "text": c["text"]},
          "level_note": c["note"], "technique": c["technique"],
        })
    na = [{"property_id": p, "reason": NA.get(p, "check not built yet in this round (planned in DESIGN.md §3); not claimed until it runs")} for p in ALL if p not in CLAIMED]
    m = {
      "version": 1,
      "setup_cmd": "cd /verif/harness && CARGO_NET_OFFLINE=true cargo build --release --offline",
      "hooks": {"guard": "--cfg zydeco_verif", "enable": "none needed: all checks observe public API of /repo's crates; the harness crate /verif/harness depends on them by path and rebuilds them from the working tree",
                "baseline_off_cmd": "cd /repo && cargo nextest run --workspace --no-fail-fast --test-threads 8 --offline || cargo test --workspace --no-fail-fast --offline",
                "source_commits": [], "add_only": True},
      "engines": [{"name": "zyverif", "path": "/verif/harness", "serves_properties": sorted(CLAIMED), "kind_free_text": "Rust harness: proptest choice-tape generators, exhaustive enumerators, independent oracles; ./check builds it against /repo's working tree"}],
      "checks": checks,
      "not_applicable": na,
      "notes": "All checks: ./check <ID> <tier>; VERIF_SEED selects the PRNG seed; exit 0 held / 1 VIOLATION / 2 harness-inconclusive. Known findings: /verif/known_findings.json.",
    }
    json.dump(m, open("/verif/MANIFEST.json", "w"), indent=1)
NA = {}
main()
