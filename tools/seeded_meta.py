#!/usr/bin/env python3
"""Writes /verif/seeded/<ID>-<n>/meta.json from the sub-agent's meta and the recorded check output, and the README table."""
import json, os, re, sys
root='/verif/seeded'
notes=json.load(open(os.path.join(root,'notes.json'))) if os.path.exists(os.path.join(root,'notes.json')) else {}
rows=[]
for d in sorted(os.listdir(root)):
    p=os.path.join(root,d)
    if not os.path.isdir(p) or not os.path.exists(os.path.join(p,'patch.diff')): continue
    agent=json.load(open(os.path.join(p,'agent_meta.json'))) if os.path.exists(os.path.join(p,'agent_meta.json')) else {}
    out=open(os.path.join(p,'check_output.txt')).read() if os.path.exists(os.path.join(p,'check_output.txt')) else ''
    caught=[]; missed=[]
    cur=None
    for line in out.splitlines():
        m=re.match(r'== ./check (C\d\d) quick',line)
        if m:
            cur=m.group(1); missed.append(cur); continue
        if 'VIOLATION property=' in line and cur:
            if cur in missed: missed.remove(cur)
            if cur not in caught: caught.append(cur)
    tests=open(os.path.join(p,'tests_with_change.txt')).read().strip() if os.path.exists(os.path.join(p,'tests_with_change.txt')) else ''
    files=sorted(set(re.findall(r'^\+\+\+ b/(.*)$', open(os.path.join(p,'patch.diff')).read(), re.M)))
    meta={"id":d,"property":d.split('-')[0],"summary":agent.get('summary',''),"trigger":agent.get('trigger',''),
          "files_touched":files,"tests_with_change":tests,"confirmed":"754 passed" in tests,
          "caught_by":caught,"not_caught_by":missed,"note":notes.get(d,'')}
    json.dump(meta,open(os.path.join(p,'meta.json'),'w'),indent=1,ensure_ascii=False)
    rows.append(meta)
with open(os.path.join(root,'README.md'),'w') as f:
    f.write("# Seeded changes\n\nEach directory holds a change to zydeco written by an independent sub-agent that saw only the property record and a scratch\nworktree (`patch.diff`, the agent's demonstration under `demo/`, `agent_meta.json`), the test summary with the change applied in the\nconfirmation worktree (`tests_with_change.txt`), and the output of the matching checks with the change applied to `/repo`\n(`check_output.txt`; `/repo` was reverted afterwards). `meta.json` summarises. Regenerate with `tools/seeded_meta.py`.\n\n")
    f.write("| change | what | caught by | note |\n|---|---|---|---|\n")
    for m in rows:
        f.write(f"| {m['id']} | {m['summary'][:160].replace('|','/')} | {', '.join(m['caught_by']) or '—'} | {m['note'].replace('|','/')} |\n")
print(len(rows),'changes')
