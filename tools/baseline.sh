#!/usr/bin/env bash
# Runs the repository's pinned test suite (guard off) and prints pass/fail counts.
# Expected on this sandbox: 754 passed, 58 failed (the 58 amd64 end-to-end tests need nasm + network).
cd /repo || exit 2
log="$(mktemp)"
if [ -f /w/lib/nextest.toml ]; then
  cargo nextest run --workspace --no-fail-fast --tool-config-file pb:/w/lib/nextest.toml --profile pb --test-threads 8 --offline >"$log" 2>&1
else
  cargo nextest run --workspace --no-fail-fast --test-threads 8 --offline >"$log" 2>&1
fi
grep -E "Summary" "$log" | tail -1
grep -E "^\s+FAIL" "$log" | grep -v "amd64" | sort -u
rm -f "$log"
