#!/usr/bin/env bash
# usage: tools/seeded_rerun.sh <ID-n> "<checks>"   — re-runs checks against a stored, already confirmed change
set -u
DST=/verif/seeded/$1; CHECKS=$2
cd /verif
git -C /repo apply "$DST/patch.diff" || { echo "APPLY TO REPO FAILED"; exit 2; }
: > "$DST/check_output.txt"
for c in $CHECKS; do
  echo "== ./check $c quick" | tee -a "$DST/check_output.txt"
  ./check $c quick 2>&1 | grep -v "^KNOWN-FINDING\|proptest:\|^SURVEY\|^  IN\|^  OUT" | cut -c1-400 | tail -8 | tee -a "$DST/check_output.txt"
done
git -C /repo checkout -- .
(cd /verif/harness && cargo build --release --offline >/dev/null 2>&1)
git -C /repo status --short | head -3
