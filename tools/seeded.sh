#!/usr/bin/env bash
# usage: tools/seeded.sh <ID> <n> "<checks to run, e.g. C02 C08>"
# Confirms a sub-agent's change in the scratch worktree /tmp/wt-confirm (compiles, 754 tests pass), stores it under
# /verif/seeded/<ID>-<n>/, then applies it to /repo, runs the given checks (quick), and reverts /repo.
set -u
ID=$1; N=$2; CHECKS=${3:-$ID}
SRC=/tmp/wt-$ID/SEEDED
DST=/verif/seeded/$ID-$N
mkdir -p "$DST"
cp "$SRC/patch$N.diff" "$DST/patch.diff"
[ -d "$SRC/demo$N" ] && rm -rf "$DST/demo" && cp -r "$SRC/demo$N" "$DST/demo"
[ -f "$SRC/meta$N.json" ] && cp "$SRC/meta$N.json" "$DST/agent_meta.json"
# any shared demo files next to the demos (preludes, top-level .zy)
find "$SRC" -maxdepth 1 -type f \( -name '*.zy' -o -name '*.txt' -o -name '*.sh' \) -exec cp {} "$DST/" \; 2>/dev/null
cd /tmp/wt-confirm && git checkout -q -- . && git apply "$DST/patch.diff" || { echo "APPLY FAILED"; exit 2; }
summary=$(CARGO_TARGET_DIR=/tmp/wt-confirm/target CARGO_NET_OFFLINE=true cargo nextest run --workspace --no-fail-fast --test-threads 8 --offline 2>&1 | grep -E "Summary|^error" | tail -2)
echo "tests with change: $summary"
CARGO_TARGET_DIR=/tmp/wt-confirm/target CARGO_NET_OFFLINE=true cargo build -q -p zydeco-cli --offline 2>&1 | tail -2
echo "$summary" > "$DST/tests_with_change.txt"
git checkout -q -- .
# run the checks against /repo with the change applied
cd /verif
git -C /repo apply "$DST/patch.diff" || { echo "APPLY TO REPO FAILED"; exit 2; }
: > "$DST/check_output.txt"
for c in $CHECKS; do
  echo "== ./check $c quick" | tee -a "$DST/check_output.txt"
  ./check $c quick 2>&1 | grep -v "^KNOWN-FINDING\|proptest:\|^SURVEY\|^  IN\|^  OUT" | cut -c1-400 | tail -8 | tee -a "$DST/check_output.txt"
done
git -C /repo checkout -- .
(cd /verif/harness && cargo build --release --offline >/dev/null 2>&1)
git -C /repo status --short | head -3
